//! C03: type inference on the ML fragment.  Generates closed terms (typable and untypable), runs
//! the real type checker (`ThreadExt::typecheck_str`, implicit prelude off), renders the reported
//! type with Display, re-parses it and prints it in the canonical syntax of the model driver
//! (`coq/extract/c03/driver.ml`).  Also applies the three metamorphic transformations of the
//! property to the implementation (alpha-renaming, annotating with the reported type, adding an
//! unused binding).
//!
//! Output files in --out:
//!   model_in.txt   one term per line (prefix token syntax of the model driver)
//!   impl_out.txt   `T <canonical type>` | `REJECT` per term
//!   cases.txt      the Gluon source of each term (one line)
//!   impl_raw.txt   the type as printed by gluon (one line) or the first line of the error
//!   tags.txt       syntactic feature tags of each term (fix / polyfield / openrow / core)
//!   meta.txt       one line per metamorphic disagreement:
//!                  kind \t tags \t source \t result \t variant source \t variant result \t variant raw
//!   stats.json
use gluon::ThreadExt;
use gvh::out::{fnv, Args, Hist};
use gvh::rng::Rng;
use std::collections::HashMap;
use std::io::{BufRead, Write};

// ---------------------------------------------------------------- terms

#[derive(Clone, Debug, PartialEq, Eq, Hash)]
enum E {
    I,
    S,
    V(u32),
    Lam(u32, Box<E>),
    App(Box<E>, Box<E>),
    Let(u32, Box<E>, Box<E>),
    Fix(u32, u32, Box<E>),
    If(Box<E>, Box<E>, Box<E>),
    Eq(Box<E>, Box<E>),
    Rec(Vec<(u32, E)>),
    Proj(Box<E>, u32),
    Arr(Vec<E>),
    /// `let f x = e1 in e2` (parameter form of a non-recursive let)
    LetFun(u32, u32, Box<E>, Box<E>),
    /// `rec let f1 x1 = e1 / let f2 = \x2 -> e2 / ... in body`: a recursive group of one-parameter
    /// functions; the flag says whether the binding is written in parameter form
    Group(Vec<(u32, u32, bool, E)>, Box<E>),
}

fn label_name(l: u32) -> String {
    match l {
        0 => "a".into(),
        1 => "b".into(),
        2 => "c".into(),
        k => format!("_{}", k - 3),
    }
}
fn label_index(s: &str) -> Option<u32> {
    match s {
        "a" => Some(0),
        "b" => Some(1),
        "c" => Some(2),
        _ => s.strip_prefix('_').and_then(|d| d.parse::<u32>().ok()).map(|k| k + 3),
    }
}

fn size(e: &E) -> usize {
    match e {
        E::I | E::S | E::V(_) => 1,
        E::Lam(_, b) | E::Fix(_, _, b) | E::Proj(b, _) => 1 + size(b),
        E::App(a, b) | E::Let(_, a, b) | E::Eq(a, b) => 1 + size(a) + size(b),
        E::If(a, b, c) => 1 + size(a) + size(b) + size(c),
        E::Rec(fs) => 1 + fs.iter().map(|(_, e)| size(e)).sum::<usize>(),
        E::Arr(es) => 1 + es.iter().map(size).sum::<usize>(),
        E::LetFun(_, _, a, b) => 2 + size(a) + size(b),
        E::Group(bs, body) => 1 + bs.iter().map(|(_, _, _, e)| 1 + size(e)).sum::<usize>() + size(body),
    }
}

/// Syntactic features used to group disagreements by the mechanism they exercise (they never
/// influence what is generated or compared):
///   fix       the term contains a `rec let`
///   polyfield some record/tuple field is not syntactically monomorphic (gluon generalises
///             record fields when the record is built, typecheck.rs:1147)
///   openrow   some projection goes through something that is not a record literal, i.e. through a
///             row variable (unify_type.rs unify_rows)
fn mono_syntactic(e: &E, lambda_bound: &Vec<u32>) -> bool {
    match e {
        E::I | E::S | E::Eq(_, _) => true,
        E::V(k) => lambda_bound.contains(k),
        E::If(_, a, b) => mono_syntactic(a, lambda_bound) && mono_syntactic(b, lambda_bound),
        E::Rec(fs) => fs.iter().all(|(_, e)| mono_syntactic(e, lambda_bound)),
        E::Arr(es) => !es.is_empty() && es.iter().all(|e| mono_syntactic(e, lambda_bound)),
        E::Proj(e, _) => mono_syntactic(e, lambda_bound),
        _ => false,
    }
}
fn features(e: &E, lambda_bound: &mut Vec<u32>, out: &mut (bool, bool, bool)) {
    match e {
        E::I | E::S | E::V(_) => {}
        E::Lam(x, b) => {
            lambda_bound.push(*x);
            features(b, lambda_bound, out);
            lambda_bound.pop();
        }
        E::Fix(f, x, b) => {
            out.0 = true;
            lambda_bound.push(*f);
            lambda_bound.push(*x);
            features(b, lambda_bound, out);
            lambda_bound.pop();
            lambda_bound.pop();
        }
        E::Let(x, a, b) => {
            features(a, lambda_bound, out);
            // a let-bound variable shadows a lambda-bound one of the same name
            let saved: Vec<u32> = lambda_bound.clone();
            lambda_bound.retain(|y| y != x);
            features(b, lambda_bound, out);
            *lambda_bound = saved;
        }
        E::App(a, b) | E::Eq(a, b) => {
            features(a, lambda_bound, out);
            features(b, lambda_bound, out)
        }
        E::If(c, a, b) => {
            features(c, lambda_bound, out);
            features(a, lambda_bound, out);
            features(b, lambda_bound, out)
        }
        E::Rec(fs) => {
            for (_, f) in fs {
                if !mono_syntactic(f, lambda_bound) {
                    out.1 = true;
                }
                features(f, lambda_bound, out)
            }
        }
        E::Proj(b, _) => {
            if !matches!(**b, E::Rec(_)) {
                out.2 = true;
            }
            features(b, lambda_bound, out)
        }
        E::Arr(es) => {
            for e in es {
                features(e, lambda_bound, out)
            }
        }
        E::LetFun(f, x, a, b) => {
            lambda_bound.push(*x);
            features(a, lambda_bound, out);
            lambda_bound.pop();
            let saved: Vec<u32> = lambda_bound.clone();
            lambda_bound.retain(|y| y != f);
            features(b, lambda_bound, out);
            *lambda_bound = saved;
        }
        E::Group(bs, body) => {
            out.0 = true;
            let saved: Vec<u32> = lambda_bound.clone();
            // inside the group the functions are monomorphic (lambda-bound like), after it let-bound
            for (f, _, _, _) in bs {
                lambda_bound.push(*f);
            }
            for (_, x, _, e) in bs {
                lambda_bound.push(*x);
                features(e, lambda_bound, out);
                lambda_bound.pop();
            }
            *lambda_bound = saved.clone();
            for (f, _, _, _) in bs {
                lambda_bound.retain(|y| y != f);
            }
            features(body, lambda_bound, out);
            *lambda_bound = saved;
        }
    }
}
fn feature_tags(e: &E) -> String {
    let mut f = (false, false, false);
    features(e, &mut vec![], &mut f);
    let mut tags = vec![];
    if f.0 {
        tags.push("fix")
    }
    if f.1 {
        tags.push("polyfield")
    }
    if f.2 {
        tags.push("openrow")
    }
    if tags.is_empty() { "core".to_string() } else { tags.join("+") }
}

/// What a program variable stands for while the model term is printed: itself, or the i-th
/// component of the tuple-valued fixpoint that encodes a recursive group.
#[derive(Clone)]
enum Ref {
    Plain,
    Comp(u32, u32),
}

/// The model (Lang/Infer.v) has single recursive functions `EFix f x e` only.  A recursive group
/// `rec let f1 x1 = e1 ... let fn xn = en in body` is given to the model in the (typing-wise exact)
/// encoding
///   let P = EFix p u (\x1 -> e1', ..., \xn -> en') in let f1 = (P ())._0 in ... let fn = (P ())._(n-1) in body
/// where every use of fi inside the ei is replaced by (p ())._i: the fi are monomorphic inside the
/// group, and each of them is generalised on its own after it, exactly as the group rule does.
/// `let f x = e1 in e2` is `let f = \x -> e1 in e2`.
fn model_tokens(e: &E, out: &mut String) {
    let mut fresh = 900;
    model_tokens_(e, &mut vec![], &mut fresh, out)
}
fn model_tokens_(e: &E, scope: &mut Vec<(u32, Ref)>, fresh: &mut u32, out: &mut String) {
    match e {
        E::I => out.push_str("I "),
        E::S => out.push_str("S "),
        E::V(k) => {
            let r = scope.iter().rev().find(|(y, _)| y == k).map(|(_, r)| r.clone()).unwrap_or(Ref::Plain);
            match r {
                Ref::Plain => out.push_str(&format!("V {} ", k)),
                Ref::Comp(p, i) => out.push_str(&format!("P {} A V {} R 0 ", 3 + i, p)),
            }
        }
        E::Lam(x, b) => {
            out.push_str(&format!("L {} ", x));
            scope.push((*x, Ref::Plain));
            model_tokens_(b, scope, fresh, out);
            scope.pop();
        }
        E::App(a, b) => {
            out.push_str("A ");
            model_tokens_(a, scope, fresh, out);
            model_tokens_(b, scope, fresh, out)
        }
        E::Let(x, a, b) => {
            out.push_str(&format!("T {} ", x));
            model_tokens_(a, scope, fresh, out);
            scope.push((*x, Ref::Plain));
            model_tokens_(b, scope, fresh, out);
            scope.pop();
        }
        E::LetFun(f, x, a, b) => {
            out.push_str(&format!("T {} L {} ", f, x));
            scope.push((*x, Ref::Plain));
            model_tokens_(a, scope, fresh, out);
            scope.pop();
            scope.push((*f, Ref::Plain));
            model_tokens_(b, scope, fresh, out);
            scope.pop();
        }
        E::Fix(f, x, b) => {
            out.push_str(&format!("F {} {} ", f, x));
            scope.push((*f, Ref::Plain));
            scope.push((*x, Ref::Plain));
            model_tokens_(b, scope, fresh, out);
            scope.pop();
            scope.pop();
        }
        E::Group(bs, body) => {
            let big_p = *fresh;
            let p = *fresh + 1;
            let u = *fresh + 2;
            *fresh += 3;
            // let P = EFix p u (tuple of the functions) in
            out.push_str(&format!("T {} F {} {} R {} ", big_p, p, u, bs.len()));
            let n0 = scope.len();
            for (i, (f, _, _, _)) in bs.iter().enumerate() {
                scope.push((*f, Ref::Comp(p, i as u32)));
            }
            for (i, (_, x, _, e)) in bs.iter().enumerate() {
                out.push_str(&format!("{} L {} ", 3 + i, x));
                scope.push((*x, Ref::Plain));
                model_tokens_(e, scope, fresh, out);
                scope.pop();
            }
            scope.truncate(n0);
            // let fi = (P ())._i in
            for (i, (f, _, _, _)) in bs.iter().enumerate() {
                out.push_str(&format!("T {} P {} A V {} R 0 ", f, 3 + i, big_p));
                scope.push((*f, Ref::Plain));
            }
            model_tokens_(body, scope, fresh, out);
            scope.truncate(n0);
        }
        E::If(c, a, b) => {
            out.push_str("C ");
            model_tokens_(c, scope, fresh, out);
            model_tokens_(a, scope, fresh, out);
            model_tokens_(b, scope, fresh, out)
        }
        E::Eq(a, b) => {
            out.push_str("Q ");
            model_tokens_(a, scope, fresh, out);
            model_tokens_(b, scope, fresh, out)
        }
        E::Rec(fs) => {
            out.push_str(&format!("R {} ", fs.len()));
            for (l, e) in fs {
                out.push_str(&format!("{} ", l));
                model_tokens_(e, scope, fresh, out)
            }
        }
        E::Proj(e, l) => {
            out.push_str(&format!("P {} ", l));
            model_tokens_(e, scope, fresh, out)
        }
        E::Arr(es) => {
            out.push_str(&format!("Y {} ", es.len()));
            for e in es {
                model_tokens_(e, scope, fresh, out)
            }
        }
    }
}

/// Naming of binders in the printed source.  `Level`: the binder that introduces variable k is
/// called `x<k>` (names are reused by sibling scopes); `Unique`: every binder occurrence gets its
/// own name, in printing order.
#[derive(Clone, Copy, PartialEq)]
enum Naming {
    Level,
    Unique,
}

struct Printer {
    naming: Naming,
    counter: u32,
    scope: Vec<(u32, String)>,
}

impl Printer {
    fn new(naming: Naming) -> Printer {
        Printer { naming, counter: 0, scope: vec![] }
    }
    fn fresh_name(&mut self, x: u32) -> String {
        match self.naming {
            Naming::Level => format!("x{}", x),
            Naming::Unique => {
                self.counter += 1;
                format!("r{}_{}", self.counter, (b'a' + (self.counter % 26) as u8) as char)
            }
        }
    }
    fn bind(&mut self, x: u32) -> String {
        let name = self.fresh_name(x);
        self.scope.push((x, name.clone()));
        name
    }
    fn unbind(&mut self) {
        self.scope.pop();
    }
    fn var(&self, x: u32) -> String {
        for (y, n) in self.scope.iter().rev() {
            if *y == x {
                return n.clone();
            }
        }
        format!("free{}", x)
    }
    fn atom(&mut self, e: &E, out: &mut String) {
        match e {
            E::I | E::S | E::V(_) | E::Rec(_) | E::Arr(_) | E::Proj(_, _) | E::Group(..) => self.expr(e, out),
            _ => {
                out.push('(');
                self.expr(e, out);
                out.push(')')
            }
        }
    }
    fn branch(&mut self, e: &E, out: &mut String) {
        match e {
            E::Let(..) | E::LetFun(..) | E::Fix(..) | E::If(..) | E::Lam(..) => self.atom(e, out),
            _ => self.expr(e, out),
        }
    }
    fn expr(&mut self, e: &E, out: &mut String) {
        match e {
            E::I => out.push('1'),
            E::S => out.push_str("\"s\""),
            E::V(k) => out.push_str(&self.var(*k)),
            E::Lam(x, b) => {
                let n = self.bind(*x);
                out.push_str(&format!("\\{} -> ", n));
                self.expr(b, out);
                self.unbind()
            }
            E::App(a, b) => {
                match **a {
                    E::App(_, _) => self.expr(a, out),
                    _ => self.atom(a, out),
                }
                out.push(' ');
                self.atom(b, out)
            }
            E::Let(x, a, b) => {
                // the binding is not recursive: a is printed outside the scope of x
                let n = self.fresh_name(*x);
                out.push_str(&format!("let {} = ", n));
                match **a {
                    E::Let(..) | E::LetFun(..) | E::Fix(..) | E::If(..) => self.atom(a, out),
                    _ => self.expr(a, out),
                }
                self.scope.push((*x, n));
                out.push_str(" in ");
                self.expr(b, out);
                self.unbind()
            }
            E::LetFun(f, x, a, b) => {
                // let f x = a in b: x scopes over a only, f over b only
                let fname = self.fresh_name(*f);
                let xname = self.fresh_name(*x);
                out.push_str(&format!("let {} {} = ", fname, xname));
                self.scope.push((*x, xname));
                match **a {
                    E::Let(..) | E::LetFun(..) | E::Fix(..) | E::If(..) => self.atom(a, out),
                    _ => self.expr(a, out),
                }
                self.unbind();
                self.scope.push((*f, fname));
                out.push_str(" in ");
                self.expr(b, out);
                self.unbind()
            }
            E::Group(bs, body) => {
                // printed over several lines, aligned just right of the opening parenthesis so that
                // the block is indented deeper than every block that encloses it
                let column = out.len() - out.rfind('\n').map_or(0, |i| i + 1);
                let pad = " ".repeat(column + 1);
                out.push_str("(rec");
                let names: Vec<String> = bs.iter().map(|(f, _, _, _)| self.bind(*f)).collect();
                for (i, (_, x, param_form, e)) in bs.iter().enumerate() {
                    let xname = self.bind(*x);
                    if *param_form {
                        out.push_str(&format!("\n{}let {} {} = ", pad, names[i], xname));
                    } else {
                        out.push_str(&format!("\n{}let {} = \\{} -> ", pad, names[i], xname));
                    }
                    self.branch(e, out);
                    self.unbind();
                }
                out.push_str(&format!("\n{}in ", pad));
                self.expr(body, out);
                out.push(')');
                for _ in bs {
                    self.unbind();
                }
            }
            E::Fix(f, x, b) => {
                let fname = self.bind(*f);
                let xname = self.bind(*x);
                out.push_str(&format!("rec let {} = \\{} -> ", fname, xname));
                self.expr(b, out);
                self.unbind();
                out.push_str(&format!(" in {}", fname));
                self.unbind()
            }
            E::If(c, a, b) => {
                // let / lambda / if inside a condition or branch are parenthesised (the layout
                // rule would otherwise extend them over the following keyword)
                out.push_str("if ");
                self.branch(c, out);
                out.push_str(" then ");
                self.branch(a, out);
                out.push_str(" else ");
                self.branch(b, out)
            }
            E::Eq(a, b) => {
                self.atom(a, out);
                out.push_str(" #Int== ");
                self.atom(b, out)
            }
            E::Rec(fs) => {
                let tuple = fs.len() >= 2 && fs.iter().enumerate().all(|(i, (l, _))| *l == 3 + i as u32);
                if fs.is_empty() {
                    out.push_str("()")
                } else if tuple {
                    out.push('(');
                    for (i, (_, e)) in fs.iter().enumerate() {
                        if i > 0 {
                            out.push_str(", ")
                        }
                        self.branch(e, out)
                    }
                    out.push(')')
                } else {
                    out.push_str("{ ");
                    for (i, (l, e)) in fs.iter().enumerate() {
                        if i > 0 {
                            out.push_str(", ")
                        }
                        out.push_str(&format!("{} = ", label_name(*l)));
                        self.branch(e, out)
                    }
                    out.push_str(" }")
                }
            }
            E::Proj(e, l) => {
                self.atom(e, out);
                out.push_str(&format!(".{}", label_name(*l)))
            }
            E::Arr(es) => {
                out.push('[');
                for (i, e) in es.iter().enumerate() {
                    if i > 0 {
                        out.push_str(", ")
                    }
                    self.branch(e, out)
                }
                out.push(']')
            }
        }
    }
}

fn source(e: &E, naming: Naming) -> String {
    let mut s = String::new();
    Printer::new(naming).expr(e, &mut s);
    s
}

// ---------------------------------------------------------------- printed types -> canonical form

#[derive(Clone, Debug)]
enum Ty {
    Var(u32),
    Con(String),
    Fun(Box<Ty>, Box<Ty>),
    Array(Box<Ty>),
    Row(Vec<(u32, Ty)>, Option<Box<Ty>>),
}

fn type_tokens(s: &str) -> Vec<String> {
    let mut out = vec![];
    let cs: Vec<char> = s.chars().collect();
    let mut i = 0;
    while i < cs.len() {
        let c = cs[i];
        if c.is_whitespace() {
            i += 1;
        } else if c == '-' && i + 1 < cs.len() && cs[i + 1] == '>' {
            out.push("->".to_string());
            i += 2;
        } else if "(){},:|[]".contains(c) {
            out.push(c.to_string());
            i += 1;
        } else if c == '.' {
            out.push(".".to_string());
            i += 1;
        } else if c.is_alphanumeric() || c == '_' {
            let mut j = i;
            // identifiers may be dotted (std.types.Bool): a '.' directly followed by a letter continues
            while j < cs.len()
                && (cs[j].is_alphanumeric() || cs[j] == '_' || cs[j] == '\'' || (cs[j] == '.' && j + 1 < cs.len() && cs[j + 1].is_alphanumeric() && j > i))
            {
                j += 1;
            }
            out.push(cs[i..j].iter().collect());
            i = j;
        } else {
            out.push(format!("?{}", c));
            i += 1;
        }
    }
    out
}

struct TyParser {
    toks: Vec<String>,
    pos: usize,
    next_var: u32,
    scopes: Vec<HashMap<String, u32>>,
    free: HashMap<String, u32>,
}

impl TyParser {
    fn peek(&self) -> &str {
        self.toks.get(self.pos).map(|s| s.as_str()).unwrap_or("")
    }
    fn next(&mut self) -> String {
        let t = self.toks.get(self.pos).cloned().unwrap_or_default();
        self.pos += 1;
        t
    }
    fn expect(&mut self, t: &str) -> Result<(), String> {
        let n = self.next();
        if n == t { Ok(()) } else { Err(format!("expected `{}` found `{}`", t, n)) }
    }
    fn fresh(&mut self) -> u32 {
        self.next_var += 1;
        self.next_var - 1
    }
    fn var(&mut self, name: &str) -> Ty {
        for sc in self.scopes.iter().rev() {
            if let Some(v) = sc.get(name) {
                return Ty::Var(*v);
            }
        }
        if let Some(v) = self.free.get(name) {
            return Ty::Var(*v);
        }
        let v = self.fresh();
        self.free.insert(name.to_string(), v);
        Ty::Var(v)
    }
    /// type := 'forall' ident+ '.' type | app ('->' type)?
    /// Quantifiers are floated out: a bound variable becomes a fresh variable of the whole type.
    fn ty(&mut self) -> Result<Ty, String> {
        if self.peek() == "forall" {
            self.next();
            let mut sc = HashMap::new();
            while self.peek() != "." {
                let n = self.next();
                if n.is_empty() {
                    return Err("eof in forall".into());
                }
                let v = self.fresh();
                sc.insert(n, v);
            }
            self.next();
            self.scopes.push(sc);
            let t = self.ty();
            self.scopes.pop();
            return t;
        }
        let l = self.app()?;
        if self.peek() == "->" {
            self.next();
            let r = self.ty()?;
            return Ok(Ty::Fun(Box::new(l), Box::new(r)));
        }
        Ok(l)
    }
    fn starts_atom(&self) -> bool {
        let t = self.peek();
        !t.is_empty() && (t == "(" || t == "{" || t.chars().next().map_or(false, |c| c.is_alphanumeric() || c == '_')) && t != "forall"
    }
    fn app(&mut self) -> Result<Ty, String> {
        let head = self.atom()?;
        let mut args = vec![];
        while self.starts_atom() {
            args.push(self.atom()?);
        }
        if args.is_empty() {
            return Ok(head);
        }
        match (&head, args.len()) {
            (Ty::Con(c), 1) if c == "Array" => Ok(Ty::Array(Box::new(args.pop().unwrap()))),
            _ => Err(format!("unsupported type application of {:?}", head)),
        }
    }
    fn atom(&mut self) -> Result<Ty, String> {
        let t = self.next();
        match t.as_str() {
            "(" => {
                // () | (T) | (T, U, ...) | (T, U | r)
                if self.peek() == ")" {
                    self.next();
                    return Ok(Ty::Row(vec![], None));
                }
                let mut elems = vec![];
                let mut tail = None;
                if self.peek() != "|" {
                    elems.push(self.ty()?);
                    while self.peek() == "," {
                        self.next();
                        elems.push(self.ty()?);
                    }
                }
                if self.peek() == "|" {
                    self.next();
                    tail = Some(Box::new(self.ty()?));
                }
                self.expect(")")?;
                if elems.len() == 1 && tail.is_none() {
                    return Ok(elems.pop().unwrap());
                }
                Ok(Ty::Row(elems.into_iter().enumerate().map(|(i, t)| (3 + i as u32, t)).collect(), tail))
            }
            "{" => {
                let mut fields = vec![];
                let mut tail = None;
                loop {
                    match self.peek() {
                        "}" => break,
                        "|" => {
                            self.next();
                            tail = Some(Box::new(self.ty()?));
                            break;
                        }
                        "," => {
                            self.next();
                        }
                        _ => {
                            let name = self.next();
                            let l = label_index(&name).ok_or_else(|| format!("field name `{}`", name))?;
                            self.expect(":")?;
                            let t = self.ty()?;
                            fields.push((l, t));
                        }
                    }
                }
                self.expect("}")?;
                Ok(Ty::Row(fields, tail))
            }
            "Int" => Ok(Ty::Con("Int".into())),
            "String" => Ok(Ty::Con("String".into())),
            "std.types.Bool" | "Bool" => Ok(Ty::Con("Bool".into())),
            "Array" => Ok(Ty::Con("Array".into())),
            s if s.chars().next().map_or(false, |c| c.is_lowercase() || c == '_') && !s.contains('.') => Ok(self.var(s)),
            s => Err(format!("unsupported type token `{}`", s)),
        }
    }
}

fn parse_type(s: &str) -> Result<Ty, String> {
    let mut p = TyParser { toks: type_tokens(s), pos: 0, next_var: 0, scopes: vec![], free: HashMap::new() };
    let t = p.ty()?;
    if p.pos != p.toks.len() {
        return Err(format!("trailing `{}`", p.peek()));
    }
    Ok(t)
}

/// flatten nested rows, sort the fields of every row by label (stable)
fn sort_rows(t: Ty) -> Ty {
    match t {
        Ty::Fun(a, b) => Ty::Fun(Box::new(sort_rows(*a)), Box::new(sort_rows(*b))),
        Ty::Array(a) => Ty::Array(Box::new(sort_rows(*a))),
        Ty::Row(fs, tail) => {
            let mut fs: Vec<(u32, Ty)> = fs.into_iter().map(|(l, t)| (l, sort_rows(t))).collect();
            let mut tail = tail.map(|t| sort_rows(*t));
            while let Some(Ty::Row(more, t2)) = tail.clone() {
                fs.extend(more);
                tail = t2.map(|b| *b);
            }
            fs.sort_by_key(|(l, _)| *l);
            Ty::Row(fs, tail.map(Box::new))
        }
        t => t,
    }
}

fn show_canon(t: &Ty, names: &mut HashMap<u32, u32>, out: &mut String) {
    match t {
        Ty::Var(v) => {
            let n = names.len() as u32;
            let k = *names.entry(*v).or_insert(n);
            out.push_str(&format!("v{}", k))
        }
        Ty::Con(c) => out.push_str(c),
        Ty::Fun(a, b) => {
            out.push_str("(-> ");
            show_canon(a, names, out);
            out.push(' ');
            show_canon(b, names, out);
            out.push(')')
        }
        Ty::Array(a) => {
            out.push_str("(Array ");
            show_canon(a, names, out);
            out.push(')')
        }
        Ty::Row(fs, tail) => {
            out.push('{');
            for (i, (l, t)) in fs.iter().enumerate() {
                if i > 0 {
                    out.push(' ')
                }
                out.push_str(&format!("{}:", label_name(*l)));
                show_canon(t, names, out)
            }
            if let Some(t) = tail {
                out.push_str(" | ");
                show_canon(t, names, out)
            }
            out.push('}')
        }
    }
}

fn canonical_type(printed: &str) -> String {
    match parse_type(printed) {
        Ok(t) => {
            let t = sort_rows(t);
            let mut s = String::new();
            show_canon(&t, &mut HashMap::new(), &mut s);
            s
        }
        Err(e) => format!("?unparsed({}):{}", e, printed.split_whitespace().collect::<Vec<_>>().join(" ")),
    }
}

// ---------------------------------------------------------------- implementation

/// The type checker runs in a child process (`c03 child`): it can exhaust the native stack
/// (e.g. on `rec let f = \x -> (f 1, 2) in f`), which aborts the process.  Protocol: one source
/// per line on stdin; one reply line `T\t<printed type>` | `R\t<message>` | `P` on stdout.
struct Impl {
    child: Option<(std::process::Child, std::process::ChildStdin, std::sync::mpsc::Receiver<String>)>,
    n: u64,
    crashes: u64,
}

#[derive(Clone, Debug, PartialEq)]
enum Outcome {
    Type { printed: String, canon: String },
    Reject(String),
    Panic,
    Crash,
}

impl Outcome {
    fn line(&self) -> String {
        match self {
            Outcome::Type { canon, .. } => format!("T {}", canon),
            Outcome::Reject(_) => "REJECT".into(),
            Outcome::Panic => "PANIC".into(),
            Outcome::Crash => "CRASH".into(),
        }
    }
    fn raw(&self) -> String {
        match self {
            Outcome::Type { printed, .. } => printed.clone(),
            Outcome::Reject(m) => format!("error: {}", m),
            Outcome::Panic => "panic".into(),
            Outcome::Crash => "process aborted or hung (stack overflow?)".into(),
        }
    }
}

fn child_main() {
    let fresh_vm = || {
        let vm = gluon::VmBuilder::new().build();
        vm.get_database_mut().implicit_prelude(false);
        vm
    };
    let mut vm = fresh_vm();
    let stdin = std::io::stdin();
    let stdout = std::io::stdout();
    let mut n = 0u64;
    for line in stdin.lock().lines() {
        let src = match line {
            Ok(l) => l.replace('\u{1}', "\n"),
            Err(_) => break,
        };
        n += 1;
        // the compiler database keeps one file map per module: renew the VM regularly
        if n % 2000 == 0 {
            vm = fresh_vm();
        }
        let name = format!("c03_{}", n);
        let r = std::panic::catch_unwind(std::panic::AssertUnwindSafe(|| vm.typecheck_str(&name, &src, None)));
        let reply = match r {
            Ok(Ok((_, t))) => format!("T\t{}", format!("{}", t).split_whitespace().collect::<Vec<_>>().join(" ")),
            Ok(Err(e)) => {
                let msg = format!("{}", e);
                let first: Vec<&str> = msg.lines().map(|l| l.trim()).filter(|l| !l.is_empty()).take(3).collect();
                format!("R\t{}", first.join(" | ").replace('\t', " "))
            }
            Err(_) => {
                vm = fresh_vm();
                "P".to_string()
            }
        };
        let mut o = stdout.lock();
        writeln!(o, "{}", reply).unwrap();
        o.flush().unwrap();
    }
}

impl Impl {
    fn new() -> Impl {
        Impl { child: None, n: 0, crashes: 0 }
    }
    fn spawn(&mut self) {
        let exe = std::env::current_exe().expect("current_exe");
        let mut c = std::process::Command::new(exe)
            .arg("child")
            .stdin(std::process::Stdio::piped())
            .stdout(std::process::Stdio::piped())
            .stderr(std::process::Stdio::null())
            .spawn()
            .expect("spawn child");
        let stdin = c.stdin.take().unwrap();
        let stdout = c.stdout.take().unwrap();
        let (tx, rx) = std::sync::mpsc::channel();
        std::thread::spawn(move || {
            for l in std::io::BufReader::new(stdout).lines() {
                match l {
                    Ok(l) => {
                        if tx.send(l).is_err() {
                            break;
                        }
                    }
                    Err(_) => break,
                }
            }
        });
        self.child = Some((c, stdin, rx));
    }
    fn kill(&mut self) {
        if let Some((mut c, _, _)) = self.child.take() {
            let _ = c.kill();
            let _ = c.wait();
        }
    }
    fn check(&mut self, src: &str) -> Outcome {
        self.n += 1;
        if self.child.is_none() {
            self.spawn();
        }
        let reply = {
            let (_, stdin, rx) = self.child.as_mut().unwrap();
            let sent = writeln!(stdin, "{}", src.replace('\n', "\u{1}")).and_then(|_| stdin.flush());
            match sent {
                Err(_) => None,
                Ok(()) => rx.recv_timeout(std::time::Duration::from_secs(30)).ok(),
            }
        };
        match reply {
            None => {
                self.crashes += 1;
                self.kill();
                Outcome::Crash
            }
            Some(r) => {
                if let Some(printed) = r.strip_prefix("T\t") {
                    Outcome::Type { printed: printed.to_string(), canon: canonical_type(printed) }
                } else if let Some(m) = r.strip_prefix("R\t") {
                    Outcome::Reject(m.to_string())
                } else {
                    Outcome::Panic
                }
            }
        }
    }
}

impl Drop for Impl {
    fn drop(&mut self) {
        self.kill();
    }
}

// ---------------------------------------------------------------- generators

/// All terms of exactly `size` nodes with `depth` variables in scope, binders allowed while
/// depth < maxdepth.  Alphabet: 1, "s", variables, \x -> e, application, let, if, #Int==,
/// pair, { a = e }, { a = e, b = e }, e.a, e.b.
fn enumerate(size: usize, depth: u32, maxdepth: u32, memo: &mut HashMap<(usize, u32), Vec<E>>) -> Vec<E> {
    if size == 0 {
        return vec![];
    }
    if let Some(v) = memo.get(&(size, depth)) {
        return v.clone();
    }
    let mut out = vec![];
    if size == 1 {
        out.push(E::I);
        out.push(E::S);
        for k in 0..depth {
            out.push(E::V(k));
        }
    } else {
        let rest = size - 1;
        // unary
        for b in enumerate(rest, depth, maxdepth, memo) {
            out.push(E::Proj(Box::new(b.clone()), 0));
            out.push(E::Proj(Box::new(b.clone()), 1));
            out.push(E::Rec(vec![(0, b)]));
        }
        if depth < maxdepth {
            for b in enumerate(rest, depth + 1, maxdepth, memo) {
                out.push(E::Lam(depth, Box::new(b)));
            }
        }
        // binary
        for i in 1..rest {
            let j = rest - i;
            let ls = enumerate(i, depth, maxdepth, memo);
            let rs = enumerate(j, depth, maxdepth, memo);
            for a in &ls {
                for b in &rs {
                    out.push(E::App(Box::new(a.clone()), Box::new(b.clone())));
                    out.push(E::Eq(Box::new(a.clone()), Box::new(b.clone())));
                    out.push(E::Rec(vec![(0, a.clone()), (1, b.clone())]));
                    out.push(E::Rec(vec![(3, a.clone()), (4, b.clone())]));
                }
            }
            if depth < maxdepth {
                let bs = enumerate(j, depth + 1, maxdepth, memo);
                for a in &ls {
                    for b in &bs {
                        out.push(E::Let(depth, Box::new(a.clone()), Box::new(b.clone())));
                    }
                }
            }
        }
        // ternary
        if rest >= 3 {
            for i in 1..rest - 1 {
                for j in 1..rest - i {
                    let k = rest - i - j;
                    let cs = enumerate(i, depth, maxdepth, memo);
                    let as_ = enumerate(j, depth, maxdepth, memo);
                    let bs = enumerate(k, depth, maxdepth, memo);
                    for c in &cs {
                        for a in &as_ {
                            for b in &bs {
                                out.push(E::If(Box::new(c.clone()), Box::new(a.clone()), Box::new(b.clone())));
                            }
                        }
                    }
                }
            }
        }
    }
    memo.insert((size, depth), out.clone());
    out
}

#[derive(Clone, Copy, PartialEq)]
enum Want {
    Any,
    Fun,
    Int,
    Bool,
    Rec,
}

/// Random term of about `budget` nodes.  With `biased`, the generator picks constructs whose
/// syntactic shape fits the position (a variable, application, projection or lambda in function
/// position, ...), which keeps a large share of the terms typable; unbiased terms are mostly
/// ill-typed.
fn random_term(rng: &mut Rng, budget: usize, depth: u32, mode: u8, want: Want) -> E {
    let biased = mode > 0;
    let var = |rng: &mut Rng| -> Option<E> { if depth > 0 { Some(E::V(rng.below(depth as u64) as u32)) } else { None } };
    if budget <= 1 {
        let lit = |rng: &mut Rng| if rng.chance(1, 2) { E::I } else { E::S };
        return match (biased, want) {
            (true, Want::Fun) | (true, Want::Bool) | (true, Want::Rec) => var(rng).unwrap_or_else(|| lit(rng)),
            (true, Want::Int) => {
                if rng.chance(1, 2) { E::I } else { var(rng).unwrap_or(E::I) }
            }
            _ => match rng.below(4) {
                0 => E::I,
                1 => E::S,
                _ => var(rng).unwrap_or_else(|| lit(rng)),
            },
        };
    }
    let rest = budget - 1;
    let split2 = |rng: &mut Rng| -> (usize, usize) {
        let i = 1 + rng.below(rest.max(2) as u64 - 1) as usize;
        (i, rest.saturating_sub(i).max(1))
    };
    // (weight, constructor id)
    let choices: &[(u64, u32)] = if !biased {
        &[(3, 0), (3, 1), (3, 2), (1, 3), (2, 4), (1, 5), (3, 6), (3, 7), (1, 8), (1, 9), (1, 10)]
    } else {
        match want {
            Want::Fun => &[(5, 0), (2, 1), (2, 2), (1, 3), (1, 4), (2, 7)],
            Want::Int => &[(3, 1), (2, 2), (1, 4), (3, 7)],
            Want::Bool => &[(5, 5), (2, 1), (1, 2), (1, 7)],
            Want::Rec => &[(5, 6), (2, 1), (2, 2), (1, 4), (2, 7)],
            // mode 2: nestings of lambdas inside tuples/records under applications and lets
            Want::Any if mode == 2 => &[(4, 0), (5, 1), (2, 2), (1, 4), (8, 6), (1, 7), (2, 8), (2, 9), (1, 10)],
            Want::Any => &[(4, 0), (4, 1), (4, 2), (1, 3), (2, 4), (1, 5), (4, 6), (3, 7), (1, 8), (1, 9), (1, 10)],
        }
    };
    let total: u64 = choices.iter().map(|c| c.0).sum();
    let mut pick = rng.below(total);
    let mut ctor = choices[0].1;
    for (w, c) in choices {
        if pick < *w {
            ctor = *c;
            break;
        }
        pick -= w;
    }
    let sub = |rng: &mut Rng, b: usize, d: u32, w: Want| Box::new(random_term(rng, b, d, mode, w));
    match ctor {
        0 => E::Lam(depth, sub(rng, rest, depth + 1, Want::Any)),
        1 => {
            let (i, j) = split2(rng);
            E::App(sub(rng, i, depth, Want::Fun), sub(rng, j, depth, Want::Any))
        }
        2 => {
            let (i, j) = split2(rng);
            E::Let(depth, sub(rng, i, depth, Want::Any), sub(rng, j, depth + 1, want))
        }
        3 => E::Fix(depth, depth + 1, sub(rng, rest, depth + 2, Want::Any)),
        4 => {
            if rest < 3 {
                return E::Lam(depth, sub(rng, rest, depth + 1, Want::Any));
            }
            let i = 1 + rng.below(rest as u64 - 2) as usize;
            let j = 1 + rng.below((rest - i) as u64 - 1) as usize;
            let k = rest - i - j;
            E::If(sub(rng, i, depth, Want::Bool), sub(rng, j, depth, want), sub(rng, k.max(1), depth, want))
        }
        5 => {
            let (i, j) = split2(rng);
            E::Eq(sub(rng, i, depth, Want::Int), sub(rng, j, depth, Want::Int))
        }
        6 => {
            // record / tuple with 0..3 fields
            let nf = (rng.below(4) as usize).min(rest);
            let tuple = nf >= 2 && rng.chance(1, 3);
            let mut labels: Vec<u32> = if tuple { (3..3 + nf as u32).collect() } else { vec![0, 1, 2] };
            if !tuple {
                // random order, occasionally a duplicate label
                for i in (1..labels.len()).rev() {
                    let j = rng.below(i as u64 + 1) as usize;
                    labels.swap(i, j);
                }
                labels.truncate(nf);
                if nf >= 2 && rng.chance(1, 25) {
                    labels[1] = labels[0];
                }
            }
            let mut fs = vec![];
            let mut left = rest;
            for (i, l) in labels.iter().enumerate() {
                let remaining = nf - i;
                let b = if remaining == 1 { left.max(1) } else { 1 + rng.below((left.saturating_sub(remaining)).max(1) as u64) as usize };
                left = left.saturating_sub(b);
                fs.push((*l, random_term(rng, b, depth, mode, Want::Any)));
            }
            E::Rec(fs)
        }
        7 => {
            let l = match rng.below(8) {
                0..=2 => 0,
                3..=4 => 1,
                5 => 2,
                6 => 3,
                _ => 4,
            };
            E::Proj(sub(rng, rest, depth, Want::Rec), l)
        }
        9 => {
            // let f x = a in b; the parameter is fresh or shadows a variable in scope
            let (i, j) = split2(rng);
            let x = if depth > 0 && rng.chance(1, 3) { rng.below(depth as u64) as u32 } else { depth };
            let d_a = if x == depth { depth + 1 } else { depth };
            E::LetFun(depth, x, sub(rng, i, d_a, Want::Any), sub(rng, j, depth + 1, want))
        }
        10 => {
            // recursive group of 2 (sometimes 3) one-parameter functions; a parameter is fresh,
            // shadows an outer variable, or has the name of a function of the group
            let nb: u32 = if rest >= 6 && rng.chance(1, 4) { 3 } else { 2 };
            let mut left = rest.saturating_sub(1).max(nb as usize + 1);
            let mut bs = vec![];
            for k in 0..nb {
                let x = match rng.below(4) {
                    0 if depth > 0 => rng.below(depth as u64) as u32,
                    1 => depth + rng.below(nb as u64) as u32,
                    _ => depth + nb,
                };
                let d_e = if x == depth + nb { depth + nb + 1 } else { depth + nb };
                let remaining = (nb - k) as usize + 1;
                let b = 1 + rng.below((left.saturating_sub(remaining)).max(1) as u64) as usize;
                left = left.saturating_sub(b);
                // only the first binding may be written as a lambda: check/src/recursion_check.rs
                // treats `let g = \\x -> ..` in a group as a recursive *value* and (conservatively)
                // rejects groups in which such a binding is referred to before it is complete
                let param_form = k > 0 || rng.chance(2, 3);
                bs.push((depth + k, x, param_form, random_term(rng, b, d_e, mode, Want::Any)));
            }
            E::Group(bs, sub(rng, left.max(1), depth + nb, want))
        }
        _ => {
            let ne = (rng.below(3) as usize).min(rest);
            let mut es = vec![];
            let mut left = rest;
            for i in 0..ne {
                let remaining = ne - i;
                let b = if remaining == 1 { left.max(1) } else { 1 + rng.below((left.saturating_sub(remaining)).max(1) as u64) as usize };
                left = left.saturating_sub(b);
                es.push(random_term(rng, b, depth, mode, Want::Any));
            }
            E::Arr(es)
        }
    }
}

// ---------------------------------------------------------------- corpus syntax (same as model tokens)

fn parse_tokens(toks: &mut std::slice::Iter<&str>) -> Option<E> {
    let t = *toks.next()?;
    let num = |toks: &mut std::slice::Iter<&str>| -> Option<u32> { toks.next()?.parse().ok() };
    Some(match t {
        "I" => E::I,
        "S" => E::S,
        "V" => E::V(num(toks)?),
        "L" => {
            let x = num(toks)?;
            E::Lam(x, Box::new(parse_tokens(toks)?))
        }
        "A" => {
            let a = parse_tokens(toks)?;
            E::App(Box::new(a), Box::new(parse_tokens(toks)?))
        }
        "T" => {
            let x = num(toks)?;
            let a = parse_tokens(toks)?;
            E::Let(x, Box::new(a), Box::new(parse_tokens(toks)?))
        }
        "F" => {
            let f = num(toks)?;
            let x = num(toks)?;
            E::Fix(f, x, Box::new(parse_tokens(toks)?))
        }
        "C" => {
            let c = parse_tokens(toks)?;
            let a = parse_tokens(toks)?;
            E::If(Box::new(c), Box::new(a), Box::new(parse_tokens(toks)?))
        }
        "Q" => {
            let a = parse_tokens(toks)?;
            E::Eq(Box::new(a), Box::new(parse_tokens(toks)?))
        }
        "R" => {
            let n = num(toks)?;
            let mut fs = vec![];
            for _ in 0..n {
                let l = num(toks)?;
                fs.push((l, parse_tokens(toks)?));
            }
            E::Rec(fs)
        }
        "P" => {
            let l = num(toks)?;
            E::Proj(Box::new(parse_tokens(toks)?), l)
        }
        "Y" => {
            let n = num(toks)?;
            let mut es = vec![];
            for _ in 0..n {
                es.push(parse_tokens(toks)?);
            }
            E::Arr(es)
        }
        // corpus only: N f x e body = `let f x = e in body`;
        // G n (f x form e)*n body = recursive group, form p (let f x = e) or l (let f = \x -> e)
        "N" => {
            let f = num(toks)?;
            let x = num(toks)?;
            let a = parse_tokens(toks)?;
            E::LetFun(f, x, Box::new(a), Box::new(parse_tokens(toks)?))
        }
        "G" => {
            let n = num(toks)?;
            let mut bs = vec![];
            for _ in 0..n {
                let f = num(toks)?;
                let x = num(toks)?;
                let form = *toks.next()? == "p";
                bs.push((f, x, form, parse_tokens(toks)?));
            }
            E::Group(bs, Box::new(parse_tokens(toks)?))
        }
        _ => return None,
    })
}

fn parse_term_line(line: &str) -> Option<E> {
    let toks: Vec<&str> = line.split_whitespace().collect();
    let mut it = toks.iter();
    let e = parse_tokens(&mut it)?;
    if it.next().is_some() { None } else { Some(e) }
}

// ---------------------------------------------------------------- main

const UNUSED: [&str; 4] = ["0", "\\zq -> zq", "{ a = \"u\" }", "[]"];

fn main() {
    if std::env::args().nth(1).as_deref() == Some("child") {
        child_main();
        return;
    }
    let args = Args::parse();
    let mut imp = Impl::new();

    if let Some(path) = &args.replay {
        let v: serde_json::Value = serde_json::from_str(&std::fs::read_to_string(path).expect("replay file")).expect("json");
        // sources are stored on one line, a line break is written as the two characters \n
        let src = v["case"]["source"].as_str().expect("case.source").replace("\\n", "\n");
        println!("source: {}", src);
        let o = imp.check(&src);
        println!("impl: {}   [{}]", o.line(), o.raw());
        println!("expected(model): {}", v["expected"].as_str().unwrap_or("?"));
        if let Some(vs) = v["case"]["variant_source"].as_str() {
            let vs = &vs.replace("\\n", "\n");
            let o2 = imp.check(vs);
            println!("variant source: {}", vs);
            println!("variant impl: {}   [{}]", o2.line(), o2.raw());
        }
        return;
    }

    let mut model_in = args.file("model_in.txt");
    let mut impl_out = args.file("impl_out.txt");
    let mut cases = args.file("cases.txt");
    let mut raw = args.file("impl_raw.txt");
    let mut meta = args.file("meta.txt");
    let mut tagsf = args.file("tags.txt");
    let mut hist = Hist::default();
    let mut distinct = std::collections::HashSet::new();
    let mut n_cases = 0u64;
    let mut nontrivial = 0u64;
    let mut n_meta_checks = 0u64;
    let mut n_meta_bad = 0u64;
    let trace = args.extra.contains_key("trace");
    let do_meta = args.extra.get("meta").map_or(true, |v| v != "0");

    let mut emit = |e: &E, family: &str, hist: &mut Hist, imp: &mut Impl| {
        let src = source(e, Naming::Level);
        if trace {
            eprintln!("TRACE {}", src);
        }
        let o = imp.check(&src);
        let mut m = String::new();
        model_tokens(e, &mut m);
        writeln!(model_in, "{}", m.trim_end()).unwrap();
        writeln!(impl_out, "{}", o.line()).unwrap();
        writeln!(cases, "{}", src.replace('\n', "\\n")).unwrap();
        writeln!(raw, "{}", o.raw()).unwrap();
        let tags = feature_tags(e);
        writeln!(tagsf, "{}", tags).unwrap();
        hist.add(&format!("tags:{}", tags));
        n_cases += 1;
        hist.add(&format!("family:{}", family));
        hist.add(&format!("size:{}", size(e)));
        hist.add(match &o {
            Outcome::Type { .. } => "impl:accept",
            Outcome::Reject(_) => "impl:reject",
            Outcome::Panic => "impl:panic",
            Outcome::Crash => "impl:crash",
        });
        if size(e) >= 3 && distinct.insert(fnv(m.as_bytes())) {
            nontrivial += 1;
        }
        if !do_meta {
            return;
        }
        // metamorphic clauses of the property, on the implementation
        let mut variants: Vec<(&str, String)> = vec![];
        variants.push(("meta-alpha", source(e, Naming::Unique)));
        // a multi-line source keeps its columns: the added binding goes on a line of its own
        let multi = src.contains('\n');
        let unused = UNUSED[(fnv(src.as_bytes()) % 4) as usize];
        variants.push(("meta-unused", if multi { format!("let zz_u = {}\n{}", unused, src) } else { format!("let zz_u = {} in {}", unused, src) }));
        if let Outcome::Type { printed, .. } = &o {
            // without the prelude the Bool type has no name in scope (`std.types.Bool` is printed,
            // which does not resolve), so types mentioning it cannot be written as an annotation
            if printed.contains("std.types.Bool") {
                hist.add("meta-annot:skipped-bool");
            } else {
                if multi {
                    let shifted: Vec<String> = src.lines().map(|l| format!("    {}", l)).collect();
                    variants.push(("meta-annot", format!("let zz_it : {} =\n{}\nzz_it", printed, shifted.join("\n"))));
                } else {
                    variants.push(("meta-annot", format!("let zz_it : {} = {} in zz_it", printed, src)));
                }
            }
        }
        for (kind, vsrc) in variants {
            let vo = imp.check(&vsrc);
            n_meta_checks += 1;
            if vo.line() != o.line() {
                n_meta_bad += 1;
                hist.add(&format!("{}:disagree", kind));
                writeln!(meta, "{}\t{}\t{}\t{}\t{}\t{}\t{}", kind, tags, src.replace('\n', "\\n"), o.line(), vsrc.replace('\n', "\\n"), vo.line(), vo.raw()).unwrap();
            }
        }
    };

    // Family 0: corpus (hand-picked regressions), one term per line in the model token syntax
    let corpus = std::path::Path::new(env!("CARGO_MANIFEST_DIR")).join("../corpus/C03/terms.txt");
    if let Ok(f) = std::fs::File::open(&corpus) {
        for line in std::io::BufReader::new(f).lines() {
            let line = line.unwrap();
            let line = line.split('#').next().unwrap().trim().to_string();
            if line.is_empty() {
                continue;
            }
            match parse_term_line(&line) {
                Some(e) => emit(&e, "corpus", &mut hist, &mut imp),
                None => eprintln!("corpus: cannot parse `{}`", line),
            }
        }
    }

    // Family 1: exhaustive enumeration
    let maxsize: usize = args.extra.get("maxsize").and_then(|s| s.parse().ok()).unwrap_or(if args.thorough() { 6 } else { 5 });
    let maxdepth: u32 = args.extra.get("maxdepth").and_then(|s| s.parse().ok()).unwrap_or(2);
    let mut memo = HashMap::new();
    let mut exhaustive_count = 0u64;
    for s in 1..=maxsize {
        for e in enumerate(s, 0, maxdepth, &mut memo) {
            emit(&e, "exhaustive", &mut hist, &mut imp);
            exhaustive_count += 1;
        }
    }
    drop(memo);

    // Family 2: random terms of 5..10 nodes over the full alphabet (rec let, arrays, labels c/_0/_1,
    // records with up to three fields in any order, duplicate labels)
    let mut rng = Rng::new(args.seed);
    let nrand: u64 = args.extra.get("random").and_then(|s| s.parse().ok()).unwrap_or(if args.thorough() { 60000 } else { 6000 });
    for i in 0..nrand {
        let budget = 5 + rng.below(6) as usize;
        let biased = i % 3 != 2;
        let e = random_term(&mut rng, budget, 0, if biased { 1 } else { 0 }, Want::Any);
        emit(&e, if biased { "random-shaped" } else { "random-uniform" }, &mut hist, &mut imp);
    }

    // Family 3: row interactions.  \\r -> \\s -> let u = (P1, P2) in if 1 #Int== 1 then X else Y
    // with P in {r.a, r.b, s.a, s.b, r.c, 1} and X, Y in {r, s, record literals}; optionally applied
    // to two record literals.  Exhaustive over the template in the thorough tier, sampled in quick.
    {
        let r = || E::V(0);
        let sv = || E::V(1);
        let projs: Vec<E> = vec![
            E::Proj(Box::new(r()), 0),
            E::Proj(Box::new(r()), 1),
            E::Proj(Box::new(sv()), 0),
            E::Proj(Box::new(sv()), 1),
            E::Proj(Box::new(r()), 2),
            E::I,
        ];
        let lits: Vec<E> = vec![
            E::Rec(vec![(0, E::I), (1, E::S)]),
            E::Rec(vec![(1, E::S), (0, E::I)]),
            E::Rec(vec![(0, E::I)]),
            E::Rec(vec![(0, E::I), (1, E::S), (2, E::I)]),
        ];
        let mut branches: Vec<E> = vec![r(), sv()];
        branches.extend(lits.iter().cloned());
        let cond = || E::Eq(Box::new(E::I), Box::new(E::I));
        let mut all = vec![];
        for p1 in &projs {
            for p2 in &projs {
                for x in &branches {
                    for y in &branches {
                        let body = E::Let(
                            2,
                            Box::new(E::Rec(vec![(3, p1.clone()), (4, p2.clone())])),
                            Box::new(E::If(Box::new(cond()), Box::new(x.clone()), Box::new(y.clone()))),
                        );
                        let f = E::Lam(0, Box::new(E::Lam(1, Box::new(body))));
                        all.push(f.clone());
                        for a1 in &lits {
                            for a2 in &lits {
                                all.push(E::App(Box::new(E::App(Box::new(f.clone()), Box::new(a1.clone()))), Box::new(a2.clone())));
                            }
                        }
                    }
                }
            }
        }
        let keep: u64 = if args.thorough() { 1 } else { 6 };
        for (i, e) in all.iter().enumerate() {
            if keep == 1 || (fnv(format!("{}:{}", args.seed, i).as_bytes()) % keep) == 0 {
                emit(e, "row-template", &mut hist, &mut imp);
            }
        }
    }

    // Family 4: containers whose fields are polymorphic functions (gluon generalises record fields
    // when the record is built), joined by if / array / a lambda-bound function, or consumed at
    // two instances.
    {
        let lam = |b: E| E::Lam(5, Box::new(b));
        let fields: Vec<E> = vec![
            lam(E::V(5)),
            lam(E::I),
            lam(E::S),
            E::Lam(5, Box::new(E::Lam(6, Box::new(E::V(5))))),
            E::Arr(vec![]),
            E::I,
        ];
        let cond = || E::Eq(Box::new(E::I), Box::new(E::I));
        let mut all = vec![];
        for container in 0..3u32 {
            let wrap = |f: &E| match container {
                0 => E::Rec(vec![(0, f.clone())]),
                1 => E::Rec(vec![(3, f.clone()), (4, E::I)]),
                _ => E::Rec(vec![(0, f.clone()), (1, E::S)]),
            };
            let l = if container == 1 { 3 } else { 0 };
            for f1 in &fields {
                let c1 = wrap(f1);
                // consumers of one container
                let use2 = |r: E| E::Rec(vec![
                    (3, E::App(Box::new(E::Proj(Box::new(r.clone()), l)), Box::new(E::I))),
                    (4, E::App(Box::new(E::Proj(Box::new(r), l)), Box::new(E::S))),
                ]);
                all.push(E::Let(0, Box::new(c1.clone()), Box::new(use2(E::V(0)))));
                all.push(E::App(Box::new(E::Lam(0, Box::new(use2(E::V(0))))), Box::new(c1.clone())));
                all.push(E::App(
                    Box::new(E::Lam(0, Box::new(E::App(Box::new(E::V(0)), Box::new(c1.clone()))))),
                    Box::new(E::Lam(1, Box::new(E::App(Box::new(E::Proj(Box::new(E::V(1)), l)), Box::new(E::I))))),
                ));
                all.push(E::Lam(0, Box::new(E::App(Box::new(E::V(0)), Box::new(c1.clone())))));
                for f2 in &fields {
                    let c2 = wrap(f2);
                    all.push(E::If(Box::new(cond()), Box::new(c1.clone()), Box::new(c2.clone())));
                    all.push(E::Arr(vec![c1.clone(), c2.clone()]));
                    all.push(E::Lam(
                        0,
                        Box::new(E::Rec(vec![
                            (3, E::App(Box::new(E::V(0)), Box::new(c1.clone()))),
                            (4, E::App(Box::new(E::V(0)), Box::new(c2.clone()))),
                        ])),
                    ));
                    all.push(E::Proj(Box::new(E::If(Box::new(cond()), Box::new(c1.clone()), Box::new(c2.clone()))), l));
                }
            }
        }
        for e in &all {
            emit(e, "poly-field-template", &mut hist, &mut imp);
        }
    }

    // Family 5: recursive groups of two functions under an outer lambda, in parameter and lambda
    // form, whose parameters are fresh, shadow the outer variable, or are named like a sibling
    // (check/src/rename.rs scopes the parameters of every binding separately).
    {
        // indices: 0 outer lambda variable, 1 = f, 2 = g, 3 = fresh parameter
        let bodies = |param: u32| -> Vec<E> {
            vec![
                E::V(0),
                E::V(param),
                E::I,
                E::App(Box::new(E::V(1)), Box::new(E::V(param))),
                E::App(Box::new(E::V(2)), Box::new(E::V(param))),
                E::App(Box::new(E::V(2)), Box::new(E::V(0))),
            ]
        };
        let results: Vec<E> = vec![
            E::V(1),
            E::V(2),
            E::App(Box::new(E::V(2)), Box::new(E::I)),
            E::Rec(vec![(3, E::V(1)), (4, E::V(2))]),
        ];
        let mut all = vec![];
        for pf in [0u32, 2, 3] {
            for pg in [0u32, 1, 3] {
                for bf in bodies(pf) {
                    for bg in bodies(pg) {
                        for forms in 0..2u32 {
                            for res in &results {
                                let group = E::Group(
                                    vec![(1, pf, forms & 1 == 0, bf.clone()), (2, pg, true, bg.clone())],
                                    Box::new(res.clone()),
                                );
                                all.push(E::Lam(0, Box::new(group)));
                            }
                        }
                    }
                }
            }
        }
        // three bindings: a parameter named like a LATER binding of the group
        for third in [E::V(3), E::I, E::App(Box::new(E::V(1)), Box::new(E::V(3)))] {
            for pf in [2u32, 3, 0] {
                for form in [true, false] {
                    all.push(E::Lam(
                        0,
                        Box::new(E::Group(
                            vec![
                                (1, pf, form, E::V(pf)),
                                (4, 3, true, E::App(Box::new(E::V(2)), Box::new(E::V(3)))),
                                (2, 3, true, third.clone()),
                            ],
                            Box::new(E::App(Box::new(E::V(4)), Box::new(E::I))),
                        )),
                    ));
                }
            }
        }
        let keep: u64 = 1;
        for (i, e) in all.iter().enumerate() {
            if keep == 1 || (fnv(format!("g{}:{}", args.seed, i).as_bytes()) % keep) == 0 || i >= 2592 {
                emit(e, "rec-group-template", &mut hist, &mut imp);
            }
        }
    }

    // Family 6: a lambda inside a tuple/record/array that mentions the variable of an enclosing
    // function, passed through an application of a (let-polymorphic) function and nested in a
    // tuple/array/record (the generalizer must not let an inner quantifier capture the enclosing
    // variable: check/src/typecheck/generalize.rs gather_foralls).
    {
        // indices: 0 = id (let-bound), 1 = y (enclosing), 2 = x (inner), 3 = p, 4 = g
        let inner_bodies: Vec<E> = vec![
            E::Rec(vec![(3, E::V(2)), (4, E::V(1))]),
            E::V(1),
            E::Rec(vec![(0, E::V(2)), (1, E::V(1))]),
            E::Arr(vec![E::V(2), E::V(1)]),
            E::V(2),
        ];
        let mut all = vec![];
        for b in &inner_bodies {
            let lam = E::Lam(2, Box::new(b.clone()));
            let holders: Vec<E> = vec![
                E::Rec(vec![(3, lam.clone()), (4, E::I)]),
                E::Rec(vec![(0, lam.clone())]),
                E::Rec(vec![(3, lam.clone()), (4, E::V(1))]),
                E::Rec(vec![(3, E::I), (4, lam.clone())]),
            ];
            for h in &holders {
                let applied: Vec<E> = vec![
                    E::App(Box::new(E::V(0)), Box::new(h.clone())),
                    E::App(Box::new(E::Lam(3, Box::new(E::V(3)))), Box::new(h.clone())),
                    h.clone(),
                    E::Let(3, Box::new(h.clone()), Box::new(E::V(3))),
                ];
                for a in &applied {
                    let outers: Vec<E> = vec![
                        E::Rec(vec![(3, a.clone()), (4, E::I)]),
                        E::Arr(vec![a.clone()]),
                        E::Rec(vec![(0, a.clone())]),
                        a.clone(),
                        E::Rec(vec![(3, E::I), (4, a.clone())]),
                    ];
                    for o in &outers {
                        let idf = || E::Lam(2, Box::new(E::V(2)));
                        all.push(E::Let(0, Box::new(idf()), Box::new(E::Lam(1, Box::new(o.clone())))));
                        all.push(E::LetFun(
                            0,
                            2,
                            Box::new(E::V(2)),
                            Box::new(E::LetFun(4, 1, Box::new(o.clone()), Box::new(E::V(4)))),
                        ));
                        all.push(E::Let(
                            0,
                            Box::new(idf()),
                            Box::new(E::Group(vec![(4, 1, true, o.clone())], Box::new(E::V(4)))),
                        ));
                    }
                }
            }
        }
        for e in &all {
            emit(e, "nested-forall-template", &mut hist, &mut imp);
        }
    }

    // Family 7: larger random terms (10..14 nodes) biased towards such nestings, inside
    // `let id = \x -> x in ...`
    {
        let n: u64 = args.extra.get("nest").and_then(|s| s.parse().ok()).unwrap_or(if args.thorough() { 20000 } else { 3000 });
        for _ in 0..n {
            let budget = 9 + rng.below(5) as usize;
            let body = random_term(&mut rng, budget, 1, 2, Want::Any);
            let e = E::Let(0, Box::new(E::Lam(1, Box::new(E::V(1)))), Box::new(body));
            emit(&e, "random-nested", &mut hist, &mut imp);
        }
    }

    drop(emit);
    model_in.flush().unwrap();
    impl_out.flush().unwrap();
    cases.flush().unwrap();
    raw.flush().unwrap();
    meta.flush().unwrap();
    tagsf.flush().unwrap();
    gvh::out::write_json(
        &args.out.join("stats.json"),
        &serde_json::json!({
            "evaluations": n_cases,
            "typechecks": imp.n,
            "impl_crashes": imp.crashes,
            "distinct_nontrivial": nontrivial,
            "rule": "closed terms of the ML fragment; exhaustive = every term with at most `exhaustive_maxsize` nodes over {1, \"s\", variables, \\x->e, application, let, if, #Int==, pair, {a=e}, {a=e,b=e}, e.a, e.b} with at most `exhaustive_maxdepth` nested binders (binder names canonical); random = 5..10 nodes over the full alphabet (rec let, `let f x = ..`, recursive groups of 2-3 functions in parameter/lambda form whose parameters may shadow outer variables or be named like a sibling, arrays, labels c/_0/_1); templates: row interactions, polymorphic record fields, recursive groups under a lambda with shadowing parameters, lambdas inside tuples/records/arrays that mention an enclosing variable behind applications of let-polymorphic functions; random-nested = 10..14 nodes biased to such nestings; recursive groups are given to the model as a tuple-valued fixpoint (typing-wise exact encoding); non-trivial = at least 3 nodes, distinct by term",
            "exhaustive_maxsize": maxsize,
            "exhaustive_maxdepth": maxdepth,
            "exhaustive_count": exhaustive_count,
            "meta_checks": n_meta_checks,
            "meta_disagreements": n_meta_bad,
            "hist": hist.to_json(),
        }),
    );
}
