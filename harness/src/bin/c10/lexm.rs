//! What the REAL tokenizer says about a source text: literal tokens (raw text) and the comments
//! that sit in the gaps between consecutive tokens (comments are not tokens; doc comments are).
//! This is the implementation side of the lexer correspondence with Front/FmtCheck.v.

#[derive(Clone, Debug)]
pub struct Tok {
    pub start: usize,
    pub end: usize,
    pub kind: String,
}

#[derive(Clone, Debug)]
pub struct Comment {
    pub start: usize,
    pub end: usize,
    pub line: bool,
    /// normalised text (trailing blanks of every line removed)
    pub text: Vec<u8>,
    /// index of the gap (= index of the following token)
    pub gap: usize,
}

pub struct Lexed {
    pub toks: Vec<Tok>,
    pub comments: Vec<Comment>,
    pub literals: Vec<Vec<u8>>,
}

pub fn kind_of(debug: &str) -> String {
    let end = debug.find(|c: char| c == '(' || c == ' ' || c == '{').unwrap_or(debug.len());
    debug[..end].to_string()
}

/// Token stream of the real tokenizer; `Err` when it reports any error.
pub fn real_tokens(src: &str) -> Result<Vec<Tok>, String> {
    let (entries, errors) = gluon_parser::verif::tokens(src);
    if let Some(e) = errors.first() {
        return Err(format!("tokenizer error {}..{} {}", e.0, e.1, e.2));
    }
    let mut out = Vec::with_capacity(entries.len());
    for e in entries {
        match e {
            Ok((s, e, d)) => {
                let start = s as usize - 1;
                let mut end = e as usize - 1;
                let kind = kind_of(&d);
                // token.rs:466-471: for `#Int+`-style operators the span end is taken before the
                // name and operator part are consumed; the token text is authoritative.
                if kind == "Operator" {
                    if let (Some(a), Some(b)) = (d.find('"'), d.rfind('"')) {
                        if b > a {
                            let text = d[a + 1..b].replace("\\\\", "\\");
                            if text.starts_with('#') && src[start..].starts_with(&text) {
                                end = start + text.len();
                            }
                        }
                    }
                }
                out.push(Tok { start, end, kind })
            }
            Err((s, e, m)) => return Err(format!("tokenizer error {}..{} {}", s, e, m)),
        }
    }
    Ok(out)
}

fn is_blank(b: u8) -> bool {
    b == b' ' || b == b'\t' || b == b'\r' || b == 0x0b || b == 0x0c
}

/// Trailing blanks of every line removed (the formatter's `format` trims every output line, and
/// `lines()` drops a `\r` before `\n`): this is the sense in which a comment "is the same".
pub fn norm_comment(text: &[u8]) -> Vec<u8> {
    let mut out = Vec::with_capacity(text.len());
    for (i, line) in text.split(|b| *b == b'\n').enumerate() {
        if i > 0 {
            out.push(b'\n');
        }
        let mut e = line.len();
        while e > 0 && is_blank(line[e - 1]) {
            e -= 1;
        }
        out.extend_from_slice(&line[..e]);
    }
    out
}

/// Comments of a gap (text between two tokens: blanks and non-doc comments only), by the
/// tokenizer's rules: `//` up to the end of line, `/*` up to the first `*/` that starts at
/// least two bytes later (token.rs:446 skips the first `*`).
pub fn gap_comments(src: &[u8], lo: usize, hi: usize, gap: usize, out: &mut Vec<Comment>) {
    let mut i = lo;
    while i < hi {
        if src[i] == b'/' && i + 1 < hi && src[i + 1] == b'/' {
            let mut j = i;
            while j < hi && src[j] != b'\n' {
                j += 1;
            }
            out.push(Comment { start: i, end: j, line: true, text: norm_comment(&src[i..j]), gap });
            i = j;
        } else if src[i] == b'/' && i + 1 < hi && src[i + 1] == b'*' {
            let mut j = i + 2;
            while j + 1 < hi && !(src[j] == b'*' && src[j + 1] == b'/') {
                j += 1;
            }
            let e = (j + 2).min(hi);
            out.push(Comment { start: i, end: e, line: false, text: norm_comment(&src[i..e]), gap });
            i = e;
        } else {
            i += 1;
        }
    }
}

pub fn is_literal_kind(k: &str) -> bool {
    matches!(k, "IntLiteral" | "ByteLiteral" | "FloatLiteral" | "StringLiteral" | "CharLiteral")
}

pub fn lex_real(src: &str) -> Result<Lexed, String> {
    let toks = real_tokens(src)?;
    let b = src.as_bytes();
    let mut comments = Vec::new();
    let mut literals = Vec::new();
    let mut prev_end = 0usize;
    for (i, t) in toks.iter().enumerate() {
        if t.start < prev_end || t.end > b.len() || t.start > t.end {
            return Err(format!("token spans out of order at token {}", i));
        }
        gap_comments(b, prev_end, t.start, i, &mut comments);
        if is_literal_kind(&t.kind) {
            literals.push(b[t.start..t.end].to_vec());
        }
        prev_end = t.end;
    }
    gap_comments(b, prev_end, b.len(), toks.len(), &mut comments);
    Ok(Lexed { toks, comments, literals })
}

pub fn hex(b: &[u8]) -> String {
    let mut s = String::with_capacity(b.len() * 2);
    for x in b {
        s.push_str(&format!("{:02x}", x));
    }
    s
}

/// FNV-1a over a list of byte strings (each terminated by 0xff, which never occurs in UTF-8).
pub fn fnv_list(xs: &[Vec<u8>]) -> u64 {
    let mut h: u64 = 0xcbf29ce484222325;
    for x in xs {
        for b in x.iter().chain(std::iter::once(&0xffu8)) {
            h ^= *b as u64;
            h = h.wrapping_mul(0x100000001b3);
        }
    }
    h
}
