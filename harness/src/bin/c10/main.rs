//! C10 — the formatter preserves meaning and comments and is idempotent.
//!
//! For every case (a source text that the real parser accepts) the REAL formatter
//! (`ThreadExt::format_expr`, the entry point of `gluon fmt`) is run and its output must
//!   (1) parse to the same syntax tree (positions erased),
//!   (2) have the same comments and literals (decided by the extracted, proved-sound `fmt_check`;
//!       the harness computes the same observables from the REAL token stream as a cross-check of
//!       the model lexer and to name the failing construct),
//!   (3) be a fixed point of a second formatting,
//!   (4) never panic / abort.
//! In addition the real `CommentIter` (base/src/source.rs) is run forward and backward on token gaps
//! and compared with the Coq model scanner (Front/CommentIter.v).
//!
//! Cases: generated programs in six printing styles, with comments inserted into every token gap
//! (one at a time and randomly many), CRLF, missing final newline; every .glu file of the
//! repository as is and under whitespace perturbation.
//!
//! Files written to --out:
//!   model_in.txt / impl_out.txt   line protocol for coq/extract/c10 (`chk`, `fwd`, `back` lines)
//!   cases.txt                     one JSON line per model line: what it is
//!   failures.jsonl                failing cases: key, what, detail, shrunk source
//!   stats.json
mod canon;
mod eval;
mod pgen;
mod lexm;
mod mutate;

use eval::{Failure, evaluate, new_vm, shrink};
use gvh::out::{Args, Hist, fnv};
use gvh::rng::Rng;
use lexm::hex;
use mutate::Place;
use serde_json::json;
use std::collections::{BTreeMap, HashMap, HashSet};
use std::io::{BufRead, Write};
use std::panic::{AssertUnwindSafe, catch_unwind};

#[derive(Clone)]
struct Case {
    family: String,
    name: String,
    src: String,
    prelude: bool,
}

fn case_json(c: &Case) -> serde_json::Value {
    json!({"family": c.family, "name": c.name, "src": c.src, "prelude": c.prelude})
}

// ------------------------------------------------------------------------------------------
// child: evaluates a batch of cases, one JSON result line per case (flushed, so that the parent
// can tell which case killed the process)

fn run_child(infile: &str, outfile: &str) {
    eval::install_panic_hook();
    let input = std::fs::File::open(infile).expect("batch file");
    let mut out = std::fs::OpenOptions::new().create(true).append(true).open(outfile).expect("result file");
    let skip: usize = std::env::var("C10_SKIP").ok().and_then(|s| s.parse().ok()).unwrap_or(0);
    let shrink_budget: usize = std::env::var("C10_SHRINK").ok().and_then(|s| s.parse().ok()).unwrap_or(150);
    let mut vm = new_vm(false);
    let mut vm_prelude: Option<gluon::RootedThread> = None;
    let mut shrunk_per_key: HashMap<String, u32> = HashMap::new();
    let mut n = 0usize;
    for (i, line) in std::io::BufReader::new(input).lines().enumerate() {
        let line = line.expect("line");
        if i < skip {
            continue;
        }
        let v: serde_json::Value = serde_json::from_str(&line).expect("case json");
        let src = v["src"].as_str().unwrap();
        let name = v["name"].as_str().unwrap();
        let prelude = v["prelude"].as_bool().unwrap_or(false);
        n += 1;
        if n % 1500 == 0 {
            vm = new_vm(false);
        }
        let the_vm: &gluon::RootedThread = if prelude {
            if vm_prelude.is_none() {
                vm_prelude = Some(new_vm(true));
            }
            vm_prelude.as_ref().unwrap()
        } else {
            &vm
        };
        // announce the case before touching it
        writeln!(out, "{}", json!({"begin": i})).unwrap();
        out.flush().unwrap();
        let e = evaluate(the_vm, name, src);
        let mut fails = Vec::new();
        for f in &e.failures {
            let cnt = shrunk_per_key.entry(f.key.clone()).or_insert(0);
            let shrunk = if *cnt < 2 && shrink_budget > 0 && f.cat != "fmt-refused" {
                *cnt += 1;
                let s = shrink(the_vm, src, &f.key, shrink_budget);
                Some(s)
            } else {
                None
            };
            fails.push(json!({"cat": f.cat, "key": f.key, "what": f.what, "detail": f.detail, "shrunk": shrunk}));
        }
        writeln!(out, "{}", json!({"end": i, "parse_err": e.parse_err, "out": e.out, "failures": fails})).unwrap();
        out.flush().unwrap();
    }
}

struct CaseResult {
    parse_err: Option<String>,
    out: Option<String>,
    failures: Vec<(Failure, Option<String>)>,
}

/// Runs the batch in child processes (`workers` of them); a child that dies is restarted after the
/// case it died on, which is recorded as an abort.
fn run_batch(cases: &[Case], dir: &std::path::Path, workers: usize, shrink_budget: usize) -> Vec<CaseResult> {
    let exe = std::env::current_exe().expect("current_exe");
    let per = (cases.len() + workers - 1) / workers.max(1);
    let mut handles = Vec::new();
    for w in 0..workers {
        let lo = w * per;
        let hi = ((w + 1) * per).min(cases.len());
        if lo >= hi {
            break;
        }
        let infile = dir.join(format!("batch-{}.jsonl", w));
        let outfile = dir.join(format!("batch-{}.out", w));
        {
            let mut f = std::io::BufWriter::new(std::fs::File::create(&infile).unwrap());
            for c in &cases[lo..hi] {
                writeln!(f, "{}", case_json(c)).unwrap();
            }
        }
        let _ = std::fs::remove_file(&outfile);
        let exe = exe.clone();
        handles.push(std::thread::spawn(move || {
            let n = hi - lo;
            let mut results: Vec<Option<serde_json::Value>> = vec![None; n];
            let mut aborted: Vec<(usize, String)> = Vec::new();
            let mut skip = 0usize;
            let mut rounds = 0;
            while skip < n && rounds < 50 {
                rounds += 1;
                let _ = std::fs::remove_file(&outfile);
                let status = std::process::Command::new(&exe)
                    .arg("child")
                    .arg(&infile)
                    .arg(&outfile)
                    .env("C10_SKIP", skip.to_string())
                    .env("C10_SHRINK", shrink_budget.to_string())
                    .env("RUST_MIN_STACK", "268435456")
                    .stderr(std::process::Stdio::piped())
                    .stdout(std::process::Stdio::null())
                    .output();
                let mut last_begin: Option<usize> = None;
                let mut last_end: Option<usize> = None;
                if let Ok(f) = std::fs::File::open(&outfile) {
                    for line in std::io::BufReader::new(f).lines().flatten() {
                        if let Ok(v) = serde_json::from_str::<serde_json::Value>(&line) {
                            if let Some(b) = v["begin"].as_u64() {
                                last_begin = Some(b as usize);
                            }
                            if let Some(e) = v["end"].as_u64() {
                                last_end = Some(e as usize);
                                results[e as usize] = Some(v);
                            }
                        }
                    }
                }
                let ok = matches!(&status, Ok(o) if o.status.success());
                if ok && last_end == Some(n - 1) {
                    break;
                }
                // died (or stopped early): the culprit is the case that began but did not end
                if let Err(e) = &status {
                    // the harness binary itself could not be started (e.g. replaced during the run):
                    // that says nothing about the formatter
                    eprintln!("c10: cannot start worker {:?}: {}", exe, e);
                    std::process::exit(3);
                }
                let err = match &status {
                    Ok(o) => format!("exit {:?}: {}", o.status.code(), String::from_utf8_lossy(&o.stderr).chars().rev().take(400).collect::<String>().chars().rev().collect::<String>()),
                    Err(e) => format!("spawn failed: {}", e),
                };
                match (last_begin, last_end) {
                    (Some(b), e) if e != Some(b) => {
                        aborted.push((b, err));
                        skip = b + 1;
                    }
                    (_, Some(e)) => skip = e + 1,
                    _ => {
                        aborted.push((skip, err));
                        skip += 1;
                    }
                }
            }
            (lo, results, aborted)
        }));
    }
    let mut all: Vec<Option<CaseResult>> = (0..cases.len()).map(|_| None).collect();
    for h in handles {
        let (lo, results, aborted) = h.join().expect("worker thread");
        for (i, r) in results.into_iter().enumerate() {
            if let Some(v) = r {
                let failures = v["failures"]
                    .as_array()
                    .map(|a| {
                        a.iter()
                            .map(|f| {
                                (
                                    Failure {
                                        cat: f["cat"].as_str().unwrap_or("").into(),
                                        key: f["key"].as_str().unwrap_or("").into(),
                                        what: f["what"].as_str().unwrap_or("").into(),
                                        detail: f["detail"].as_str().unwrap_or("").into(),
                                    },
                                    f["shrunk"].as_str().map(|s| s.to_string()),
                                )
                            })
                            .collect()
                    })
                    .unwrap_or_default();
                all[lo + i] = Some(CaseResult {
                    parse_err: v["parse_err"].as_str().map(|s| s.to_string()),
                    out: v["out"].as_str().map(|s| s.to_string()),
                    failures,
                });
            }
        }
        for (i, err) in aborted {
            all[lo + i] = Some(CaseResult {
                parse_err: None,
                out: None,
                failures: vec![(
                    Failure {
                        cat: "fmt-abort".into(),
                        key: format!("fmt-abort:{}", eval::slug(&err, 40)),
                        what: "the process died (abort, stack overflow or kill) while formatting this input".into(),
                        detail: err,
                    },
                    None,
                )],
            });
        }
    }
    all.into_iter()
        .map(|r| {
            r.unwrap_or(CaseResult {
                parse_err: Some("not evaluated".into()),
                out: None,
                failures: vec![],
            })
        })
        .collect()
}

// ------------------------------------------------------------------------------------------
// the real comment scanner

fn real_scan(text: &str, forward: bool) -> String {
    use gluon_base::pos::{BytePos, Span};
    use gluon_base::source::{FileMap, Source};
    let fm = FileMap::new("gap".to_string(), text.to_string());
    let span = Span::new(BytePos::from(1), BytePos::from(1 + text.len() as u32));
    let mut it = fm.comments_between(span);
    let mut items: Vec<String> = Vec::new();
    let mut end = "stop";
    for _ in 0..(text.len() + 2) {
        let r = catch_unwind(AssertUnwindSafe(|| if forward { it.next() } else { it.next_back() }));
        match r {
            Ok(Some(c)) => items.push(hex(c.as_bytes())),
            Ok(None) => break,
            Err(_) => {
                let _ = eval::take_panic();
                end = "panic";
                break;
            }
        }
    }
    format!("{} [{}] {}", if forward { "fwd" } else { "back" }, items.join(","), end)
}

// ------------------------------------------------------------------------------------------
// case construction

fn glu_files() -> Vec<String> {
    fn walk(dir: &std::path::Path, out: &mut Vec<String>) {
        if let Ok(rd) = std::fs::read_dir(dir) {
            let mut entries: Vec<_> = rd.flatten().collect();
            entries.sort_by_key(|e| e.path());
            for e in entries {
                let p = e.path();
                let name = p.file_name().and_then(|s| s.to_str()).unwrap_or("");
                if p.is_dir() {
                    if name == "target" || name.starts_with('.') {
                        continue;
                    }
                    walk(&p, out);
                } else if p.extension().and_then(|s| s.to_str()) == Some("glu") {
                    out.push(p.to_string_lossy().to_string());
                }
            }
        }
    }
    let mut out = Vec::new();
    walk(std::path::Path::new(&eval::repo()), &mut out);
    out
}

fn comment_spans(src: &str) -> (Vec<lexm::Tok>, Vec<(usize, usize)>) {
    match lexm::lex_real(src) {
        Ok(lx) => {
            let cs = lx.comments.iter().map(|c| (c.start, c.end)).collect();
            (lx.toks, cs)
        }
        Err(_) => (vec![], vec![]),
    }
}

fn perturbations(base: &Case, rng: &mut Rng, how_many: usize, out: &mut Vec<Case>) {
    let (toks, cs) = comment_spans(&base.src);
    if toks.is_empty() {
        return;
    }
    let all: Vec<(&str, Box<dyn Fn(&mut Rng) -> String + '_>)> = vec![
        ("shift3", Box::new(|_r: &mut Rng| mutate::shift_indent(&base.src, &toks, &cs, 3))),
        ("scale2", Box::new(|_r: &mut Rng| mutate::scale_indent(&base.src, &toks, &cs, 2, 1))),
        ("scale1/2", Box::new(|_r: &mut Rng| mutate::scale_indent(&base.src, &toks, &cs, 1, 2))),
        ("blank-lines", Box::new(|r: &mut Rng| mutate::blank_lines(&base.src, &toks, &cs, r, 5))),
        ("trailing-blanks", Box::new(|r: &mut Rng| mutate::trailing_blanks(&base.src, &toks, &cs, r, 3))),
        ("crlf", Box::new(|_r: &mut Rng| mutate::to_crlf(&base.src))),
        ("no-final-newline", Box::new(|_r: &mut Rng| mutate::drop_final_newline(&base.src))),
    ];
    let mut idx: Vec<usize> = (0..all.len()).collect();
    // deterministic shuffle
    for i in (1..idx.len()).rev() {
        let j = rng.below(i as u64 + 1) as usize;
        idx.swap(i, j);
    }
    for k in idx.into_iter().take(how_many) {
        let (tag, f) = &all[k];
        let s = f(rng);
        if s != base.src {
            out.push(Case { family: format!("{}+{}", base.family, tag), name: base.name.clone(), src: s, prelude: base.prelude });
        }
    }
}

fn comment_variants(base: &Case, rng: &mut Rng, every_gap: bool, random_many: usize, out: &mut Vec<Case>) {
    let toks = match lexm::real_tokens(&base.src) {
        Ok(t) => t,
        Err(_) => return,
    };
    let ngaps = toks.len(); // gap g precedes token g; the EOF token closes the last gap
    if every_gap {
        for g in 0..ngaps {
            // one comment in this gap; kind and placement rotate so that over a program every
            // combination occurs
            let line = rng.chance(1, 2);
            let text = if line { *rng.pick(mutate::LINE_COMMENTS) } else { *rng.pick(mutate::BLOCK_COMMENTS) };
            let place = match rng.below(3) {
                0 => Place::AfterPrev,
                1 => Place::OwnLine,
                _ => {
                    if line {
                        Place::AfterPrev
                    } else {
                        Place::BeforeNext
                    }
                }
            };
            if let Some(s) = mutate::insert_comment(&base.src, &toks, g, text, place) {
                out.push(Case {
                    family: format!("{}+comment1:{}:{:?}", base.family, if line { "line" } else { "block" }, place),
                    name: base.name.clone(),
                    src: s,
                    prelude: base.prelude,
                });
            }
        }
    }
    for _ in 0..random_many {
        let k = 2 + rng.below(8) as usize;
        let mut picks = Vec::new();
        for _ in 0..k {
            let g = rng.below(ngaps as u64) as usize;
            let line = rng.chance(1, 2);
            let text = if line { *rng.pick(mutate::LINE_COMMENTS) } else { *rng.pick(mutate::BLOCK_COMMENTS) };
            let place = match rng.below(3) {
                0 => Place::AfterPrev,
                1 => Place::OwnLine,
                _ => {
                    if line {
                        Place::OwnLine
                    } else {
                        Place::BeforeNext
                    }
                }
            };
            picks.push((g, text.to_string(), place));
        }
        if let Some(s) = mutate::insert_many(&base.src, &toks, &picks) {
            out.push(Case { family: format!("{}+commentN", base.family), name: base.name.clone(), src: s, prelude: base.prelude });
        }
    }
}

const FIXED_VARIANTS: &[(&str, Place)] = &[
    ("// c", Place::AfterPrev),
    ("// c", Place::OwnLine),
    ("/* b */", Place::AfterPrev),
    ("/* b */", Place::OwnLine),
    ("/* b */", Place::BeforeNext),
];

/// Seed-independent: one comment in EVERY token gap of `base`; with `all` every kind/placement
/// combination in every gap, otherwise the combination rotates with the gap index.
fn every_gap_fixed(base: &Case, all: bool, out: &mut Vec<Case>) {
    let toks = match lexm::real_tokens(&base.src) {
        Ok(t) => t,
        Err(_) => return,
    };
    for g in 0..toks.len() {
        for (k, (text, place)) in FIXED_VARIANTS.iter().enumerate() {
            if !all && k != g % FIXED_VARIANTS.len() {
                continue;
            }
            if let Some(s) = mutate::insert_comment(&base.src, &toks, g, text, *place) {
                out.push(Case {
                    family: format!("{}+comment1:{}:{:?}", base.family, if text.starts_with("//") { "line" } else { "block" }, place),
                    name: base.name.clone(),
                    src: s,
                    prelude: base.prelude,
                });
            }
        }
    }
}

/// The fixed part of every run (both tiers, any seed): hand-written programs covering all
/// constructs (corpus/C10/every-gap) and programs generated from a constant seed.
fn fixed_cases() -> Vec<Case> {
    let mut out = Vec::new();
    let dir = std::path::Path::new(env!("CARGO_MANIFEST_DIR")).join("../corpus/C10/every-gap");
    if let Ok(rd) = std::fs::read_dir(&dir) {
        let mut entries: Vec<_> = rd.flatten().map(|e| e.path()).collect();
        entries.sort();
        for p in entries {
            if p.extension().and_then(|s| s.to_str()) == Some("glu") {
                if let Ok(src) = std::fs::read_to_string(&p) {
                    let base = Case { family: "fixed".into(), name: p.file_name().unwrap().to_string_lossy().to_string(), src, prelude: false };
                    out.push(base.clone());
                    every_gap_fixed(&base, true, &mut out);
                    let crlf = Case { family: "fixed+crlf".into(), src: mutate::to_crlf(&base.src), ..base.clone() };
                    every_gap_fixed(&crlf, false, &mut out);
                    out.push(crlf);
                }
            }
        }
    }
    let mut rng = Rng::new(0xC10_C10);
    let vm = new_vm(false);
    let styles = pgen::styles();
    let layout: Vec<_> = styles.iter().filter(|(n, _)| n.starts_with("layout")).collect();
    let mut made = 0;
    let mut attempt = 0;
    while made < 24 && attempt < 400 {
        attempt += 1;
        let depth = 2 + rng.below(3) as u32;
        let decls = 1 + rng.below(4) as usize;
        let prog = pgen::Gen { rng: &mut rng }.program(depth, decls);
        let (sname, st) = layout[attempt % layout.len()];
        let text = pgen::render(&prog, st.clone(), &mut rng);
        if canon::canon_ast(&text).is_err() {
            continue;
        }
        // only programs that the formatter handles when they carry no extra comment: the
        // variants then isolate what a comment in one gap does
        let e = evaluate(&vm, "fixedgen", &text);
        if !e.failures.is_empty() {
            continue;
        }
        made += 1;
        let base = Case { family: format!("fixed-gen:{}", sname), name: format!("fixedgen{}", made), src: text, prelude: false };
        out.push(base.clone());
        every_gap_fixed(&base, false, &mut out);
    }
    out
}

fn corpus_cases() -> Vec<Case> {
    let dir = std::path::Path::new(env!("CARGO_MANIFEST_DIR")).join("../corpus/C10");
    let mut out = Vec::new();
    if let Ok(rd) = std::fs::read_dir(&dir) {
        let mut entries: Vec<_> = rd.flatten().map(|e| e.path()).collect();
        entries.sort();
        for p in entries {
            if p.extension().and_then(|s| s.to_str()) == Some("glu") {
                if let Ok(src) = std::fs::read_to_string(&p) {
                    out.push(Case { family: "corpus".into(), name: p.file_name().unwrap().to_string_lossy().to_string(), src, prelude: false });
                }
            }
        }
    }
    out
}

/// syntax tree node kinds counted over the generated base programs (input distribution)
const CONSTRUCTS: &[(&str, &str)] = &[
    ("LetBindings(Plain", "let"),
    ("LetBindings(Recursive", "rec-let"),
    ("TypeBindings(", "type"),
    ("Lambda(", "lambda"),
    ("IfElse(", "if"),
    ("Match(", "match"),
    ("Record {", "record"),
    ("Tuple {", "tuple-or-parens"),
    ("Array(", "array"),
    ("Infix {", "infix"),
    ("Do(", "do-or-seq"),
    ("App {", "application"),
    ("Projection(", "projection"),
    ("Literal(", "literal"),
    ("Constructor(", "constructor-pattern"),
    ("comment: Some(", "doc-comment"),
    ("Attribute {", "attribute"),
];

fn random_gap(rng: &mut Rng) -> String {
    let mut s = String::new();
    let n = rng.below(6);
    let nl = if rng.chance(1, 4) { "\r\n" } else { "\n" };
    for _ in 0..n {
        match rng.below(8) {
            0 => s.push(' '),
            1 => s.push_str("    "),
            2 => s.push('\t'),
            3 | 4 => s.push_str(nl),
            5 => {
                s.push_str(*rng.pick(mutate::LINE_COMMENTS));
                if rng.chance(5, 6) {
                    s.push_str(nl)
                }
            }
            6 => s.push_str(*rng.pick(mutate::BLOCK_COMMENTS)),
            _ => s.push_str(*rng.pick(&["x", "/// doc", "/", "*/", "/*", "1 // c", "\"s\""])),
        }
    }
    s
}

fn main() {
    let argv: Vec<String> = std::env::args().collect();
    if argv.len() >= 4 && argv[1] == "child" {
        // big stack: the AST Debug rendering and the formatter recurse on the nesting depth
        let a = argv[2].clone();
        let b = argv[3].clone();
        let h = std::thread::Builder::new().stack_size(256 << 20).spawn(move || run_child(&a, &b)).unwrap();
        if h.join().is_err() {
            std::process::exit(101);
        }
        return;
    }
    let args = Args::parse();
    eval::install_panic_hook();
    if args.rest.first().map(|s| s.as_str()) == Some("probe") {
        // debugging aid: c10 probe FILE...
        let vm = new_vm(false);
        for f in &args.rest[1..] {
            let src = std::fs::read_to_string(f).expect("file");
            let e = evaluate(&vm, "probe", &src);
            println!("== {} parse_err={:?}", f, e.parse_err);
            if let Some(o) = &e.out {
                println!("{}", o);
            }
            for x in &e.failures {
                println!("FAIL {} | {} | {}", x.key, x.what, x.detail);
            }
        }
        return;
    }
    if args.rest.first().map(|s| s.as_str()) == Some("gentest") {
        // debugging aid: print generated programs that do not parse
        let mut rng = Rng::new(args.seed);
        let styles = pgen::styles();
        let mut bad = 0;
        let mut total = 0;
        for i in 0..40 {
            let depth = 2 + rng.below(3) as u32;
            let decls = 1 + rng.below(5) as usize;
            let prog = pgen::Gen { rng: &mut rng }.program(depth, decls);
            for (sname, st) in &styles {
                let text = pgen::render(&prog, st.clone(), &mut rng);
                total += 1;
                if let Err(e) = canon::canon_ast(&text) {
                    bad += 1;
                    if bad <= 12 {
                        println!("==== program {} style {}: {}\n{}", i, sname, e, text);
                    }
                }
            }
        }
        println!("unparseable {}/{}", bad, total);
        return;
    }
    if let Some(path) = &args.replay {
        let v: serde_json::Value = serde_json::from_str(&std::fs::read_to_string(path).expect("replay file")).expect("json");
        let src = match v["case"]["source"].as_str() {
            Some(s) => s.to_string(),
            None => {
                println!("this replay stores no source text (see its `what` field)");
                return;
            }
        };
        let vm = new_vm(false);
        println!("source:\n{}", src);
        let e = evaluate(&vm, "replay", &src);
        if let Some(p) = &e.parse_err {
            println!("source does not parse: {}", p);
        }
        if let Some(o) = &e.out {
            println!("formatted:\n{}", o);
        }
        if e.failures.is_empty() {
            println!("result: property holds on this input");
        }
        for f in &e.failures {
            println!("FAIL {}: {} ({})", f.key, f.what, f.detail);
        }
        return;
    }

    let thorough = args.thorough();
    let mut rng = Rng::new(args.seed);
    let mut cases: Vec<Case> = corpus_cases();
    cases.extend(fixed_cases());

    // ---- (i) generated programs --------------------------------------------------------
    let n_programs: usize = args.extra.get("programs").and_then(|s| s.parse().ok()).unwrap_or(if thorough { 400 } else { 16 });
    let styles = pgen::styles();
    let mut gen_texts = 0usize;
    let mut construct_hist = Hist::default();
    for i in 0..n_programs {
        let depth = 2 + rng.below(3) as u32;
        let decls = 1 + rng.below(5) as usize;
        let prog = pgen::Gen { rng: &mut rng }.program(depth, decls);
        // every program in two or three styles
        let k0 = rng.below(styles.len() as u64) as usize;
        let n_styles = if thorough { 3 } else { 2 };
        let mut every_done = false;
        for j in 0..n_styles {
            let (sname, st) = &styles[(k0 + j * 2 + (j / 2)) % styles.len()];
            let text = pgen::render(&prog, st.clone(), &mut rng);
            let canon = match canon::canon_ast(&text) {
                Ok(c) => c,
                Err(_) => {
                    // the printer produced something the parser refuses: counted, not used
                    cases.push(Case { family: format!("gen:{}", sname), name: format!("gen{}", i), src: text, prelude: false });
                    continue;
                }
            };
            gen_texts += 1;
            for (node, label) in CONSTRUCTS {
                let n = canon.matches(node).count() as u64;
                if n > 0 {
                    construct_hist.addn(&format!("construct:{}", label), n);
                }
            }
            let base = Case { family: format!("gen:{}", sname), name: format!("gen{}", i), src: text, prelude: false };
            cases.push(base.clone());
            // comments in EVERY token gap (one at a time) for a share of the programs, random many for all
            // (in a layout style: the one-line styles mostly exercise the explicit-`in` handling)
            let every = i % (if thorough { 2 } else { 4 }) == 0 && !every_done && (sname.starts_with("layout") || j + 1 == n_styles);
            every_done = every_done || every;
            comment_variants(&base, &mut rng, every, if thorough { 4 } else { 2 }, &mut cases);
            perturbations(&base, &mut rng, 2, &mut cases);
        }
    }

    // ---- (ii) repository files -----------------------------------------------------------
    // quick tier: the repository part does not depend on the seed (its perturbations and comment
    // positions come from a constant stream), so that what it finds is the same in every run
    let mut repo_rng = if thorough { rng.clone() } else { Rng::new(0xC10_0002) };
    let files = glu_files();
    let mut n_files = 0;
    for f in &files {
        let src = match std::fs::read_to_string(f) {
            Ok(s) => s,
            Err(_) => continue,
        };
        n_files += 1;
        let rel = f.strip_prefix(&format!("{}/", eval::repo())).unwrap_or(f).to_string();
        // the way `gluon fmt` does it: implicit prelude on (the imported std modules need it)
        let base = Case { family: "repo".into(), name: rel.clone(), src, prelude: true };
        cases.push(Case { family: "repo:as-is".into(), ..base.clone() });
        perturbations(&base, &mut repo_rng, if thorough { 7 } else { 3 }, &mut cases);
        comment_variants(&base, &mut repo_rng, false, if thorough { 6 } else { 1 }, &mut cases);
    }

    // ---- run -------------------------------------------------------------------------------
    let workers: usize = args.extra.get("workers").and_then(|s| s.parse().ok()).unwrap_or(8);
    let shrink_budget: usize = args.extra.get("shrink").and_then(|s| s.parse().ok()).unwrap_or(if thorough { 300 } else { 150 });
    // interleave so that every worker gets a mix of cheap and expensive cases
    let mut order: Vec<usize> = (0..cases.len()).collect();
    order.sort_by_key(|i| (i % workers, *i));
    let shuffled: Vec<Case> = order.iter().map(|i| cases[*i].clone()).collect();
    let results_shuffled = run_batch(&shuffled, &args.out, workers, shrink_budget);
    let mut results: Vec<Option<CaseResult>> = (0..cases.len()).map(|_| None).collect();
    for (k, r) in results_shuffled.into_iter().enumerate() {
        results[order[k]] = Some(r);
    }
    let results: Vec<CaseResult> = results.into_iter().map(|r| r.unwrap()).collect();

    // ---- write the line protocol -----------------------------------------------------------
    let mut model_in = args.file("model_in.txt");
    let mut impl_out = args.file("impl_out.txt");
    let mut cases_txt = args.file("cases.txt");
    let mut failures_out = args.file("failures.jsonl");
    let mut hist = Hist::default();
    let mut distinct = HashSet::new();
    let mut evaluations = 0u64;
    let mut nontrivial = 0u64;
    let mut unparseable_gen = 0u64;
    let mut unparseable_other = 0u64;
    let mut n_lines = 0u64;
    let mut by_key: BTreeMap<String, u64> = BTreeMap::new();
    let mut gaps_seen: HashSet<String> = HashSet::new();
    let mut scan_lines: Vec<(String, String, String)> = Vec::new(); // (model line, impl line, description)

    for (i, (c, r)) in cases.iter().zip(results.iter()).enumerate() {
        hist.add(&format!("family:{}", c.family.split('+').next().unwrap_or("")));
        for part in c.family.split('+').skip(1) {
            hist.add(&format!("perturbation:{}", part.split(':').next().unwrap_or("")));
        }
        if let Some(e) = &r.parse_err {
            if c.family.starts_with("gen") && !c.family.contains('+') {
                unparseable_gen += 1;
                hist.add("unparseable:generated-base");
            } else {
                unparseable_other += 1;
                hist.add("unparseable:variant-or-file");
            }
            let _ = e;
            continue;
        }
        evaluations += 1;
        hist.add(&format!("size:{}", match c.src.len() {
            0..=199 => "<200B",
            200..=999 => "<1KB",
            1000..=4999 => "<5KB",
            _ => ">=5KB",
        }));
        if distinct.insert(fnv(c.src.as_bytes())) && c.src.lines().count() >= 2 {
            nontrivial += 1;
        }
        for (f, shrunk) in &r.failures {
            *by_key.entry(f.key.clone()).or_insert(0) += 1;
            hist.add(&format!("fail:{}", f.cat));
            writeln!(
                failures_out,
                "{}",
                json!({"case": i, "family": c.family, "name": c.name, "cat": f.cat, "key": f.key, "what": f.what, "detail": f.detail,
                       "source": if c.src.len() <= 4000 || shrunk.is_none() { Some(&c.src) } else { None }, "shrunk": shrunk})
            )
            .unwrap();
        }
        if let Some(out) = &r.out {
            // V tie: the verified checker on the real artefact; implementation side = the same
            // observables from the real tokenizer.
            let sl = lexm::lex_real(&c.src);
            let ol = lexm::lex_real(out);
            if let (Ok(sl), Ok(ol)) = (sl, ol) {
                let sc: Vec<Vec<u8>> = sl.comments.iter().map(|c| c.text.clone()).collect();
                let oc: Vec<Vec<u8>> = ol.comments.iter().map(|c| c.text.clone()).collect();
                let verdict = sc == oc && sl.literals == ol.literals;
                writeln!(model_in, "chk {} {}", hex(c.src.as_bytes()), hex(out.as_bytes())).unwrap();
                writeln!(
                    impl_out,
                    "chk {} sc={}:{:016x} sl={}:{:016x} oc={}:{:016x} ol={}:{:016x}",
                    if verdict { "true" } else { "false" },
                    sc.len(),
                    lexm::fnv_list(&sc),
                    sl.literals.len(),
                    lexm::fnv_list(&sl.literals),
                    oc.len(),
                    lexm::fnv_list(&oc),
                    ol.literals.len(),
                    lexm::fnv_list(&ol.literals)
                )
                .unwrap();
                writeln!(cases_txt, "{}", json!({"kind": "chk", "case": i, "family": c.family, "name": c.name})).unwrap();
                n_lines += 1;
                // scanner inputs: every token gap of the source (exact), a window around it, and
                // for small sources a few whole prefixes/suffixes as the formatter passes them
                let b = &c.src;
                let mut prev_end = 0usize;
                for (k, t) in sl.toks.iter().enumerate() {
                    let gap = &b[prev_end..t.start];
                    if !gap.is_empty() && gaps_seen.len() < 200000 && gaps_seen.insert(gap.to_string()) {
                        scan_lines.push((format!("fwd {}", hex(gap.as_bytes())), real_scan(gap, true), format!("gap of {}", c.name)));
                        scan_lines.push((format!("back {}", hex(gap.as_bytes())), real_scan(gap, false), format!("gap of {}", c.name)));
                    }
                    if gap.contains('/') {
                        // window: previous token .. next token (code on both sides)
                        let lo = if k >= 1 { sl.toks[k - 1].start } else { 0 };
                        let hi = t.end;
                        let w_f = &b[prev_end..hi];
                        let w_b = &b[lo..t.start];
                        if gaps_seen.insert(format!("F{}", w_f)) {
                            scan_lines.push((format!("fwd {}", hex(w_f.as_bytes())), real_scan(w_f, true), format!("window of {}", c.name)));
                        }
                        if gaps_seen.insert(format!("B{}", w_b)) {
                            scan_lines.push((format!("back {}", hex(w_b.as_bytes())), real_scan(w_b, false), format!("window of {}", c.name)));
                        }
                    }
                    prev_end = t.end;
                }
                if b.len() < 1500 && !sl.toks.is_empty() {
                    for _ in 0..2 {
                        let t = &sl.toks[rng.below(sl.toks.len() as u64) as usize];
                        let suffix = &b[t.end..];
                        let prefix = &b[..t.start];
                        if gaps_seen.insert(format!("F{}", suffix)) {
                            scan_lines.push((format!("fwd {}", hex(suffix.as_bytes())), real_scan(suffix, true), format!("suffix of {}", c.name)));
                        }
                        if gaps_seen.insert(format!("B{}", prefix)) {
                            scan_lines.push((format!("back {}", hex(prefix.as_bytes())), real_scan(prefix, false), format!("prefix of {}", c.name)));
                        }
                    }
                }
            }
        }
    }
    // synthetic gaps
    let n_syn = if thorough { 20000 } else { 3000 };
    for _ in 0..n_syn {
        let g = random_gap(&mut rng);
        if gaps_seen.insert(format!("S{}", g)) {
            scan_lines.push((format!("fwd {}", hex(g.as_bytes())), real_scan(&g, true), "synthetic gap".into()));
            scan_lines.push((format!("back {}", hex(g.as_bytes())), real_scan(&g, false), "synthetic gap".into()));
        }
    }
    for (k, v) in construct_hist.0.iter() {
        hist.addn(k, *v);
    }
    let mut samples = Vec::new();
    let mut seen_fam = HashSet::new();
    for (c, r) in cases.iter().zip(results.iter()) {
        if let Some(o) = &r.out {
            let fam = c.family.split(':').next().unwrap_or("").to_string() + if c.family.contains('+') { "+perturbed" } else { "" };
            if seen_fam.insert(fam) && samples.len() < 6 {
                samples.push(json!({"family": c.family, "name": c.name,
                    "source": c.src.chars().take(400).collect::<String>(), "formatted": o.chars().take(400).collect::<String>(),
                    "failures": r.failures.iter().map(|f| f.0.key.clone()).collect::<Vec<_>>()}));
            }
        }
    }
    let n_scan = scan_lines.len() as u64;
    for (m, im, d) in scan_lines {
        writeln!(model_in, "{}", m).unwrap();
        writeln!(impl_out, "{}", im).unwrap();
        writeln!(cases_txt, "{}", json!({"kind": "scan", "what": d, "input": m})).unwrap();
        n_lines += 1;
    }
    model_in.flush().unwrap();
    impl_out.flush().unwrap();
    cases_txt.flush().unwrap();
    failures_out.flush().unwrap();
    gvh::out::write_json(
        &args.out.join("stats.json"),
        &json!({
            "evaluations": evaluations,
            "distinct_nontrivial": nontrivial,
            "rule": "a case is a source text accepted by the real parser on which format_expr was run twice and all four clauses evaluated; non-trivial = at least two lines, distinct by source text",
            "cases_total": cases.len(),
            "generated_programs": n_programs,
            "generated_texts_parsing": gen_texts,
            "generated_base_unparseable": unparseable_gen,
            "variants_unparseable": unparseable_other,
            "repo_files": n_files,
            "model_lines": n_lines,
            "scanner_inputs": n_scan,
            "failures_by_key": by_key,
            "samples": samples,
            "hist": hist.to_json(),
        }),
    );
}
