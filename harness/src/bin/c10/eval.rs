//! The property itself, evaluated on the real formatter for one source text.
use crate::canon::{canon_ast, first_diff};
use crate::lexm::{self, Lexed};
use gluon::{RootedThread, ThreadExt};
use std::panic::{AssertUnwindSafe, catch_unwind};
use std::sync::Mutex;

pub static LAST_PANIC: Mutex<Option<(String, String)>> = Mutex::new(None);

pub fn install_panic_hook() {
    std::panic::set_hook(Box::new(|info| {
        let loc = info.location().map(|l| format!("{}:{}", l.file(), l.line())).unwrap_or_default();
        let msg = if let Some(s) = info.payload().downcast_ref::<&str>() {
            s.to_string()
        } else if let Some(s) = info.payload().downcast_ref::<String>() {
            s.clone()
        } else {
            "?".to_string()
        };
        *LAST_PANIC.lock().unwrap_or_else(|e| e.into_inner()) = Some((loc, msg));
    }));
}

pub fn take_panic() -> (String, String) {
    LAST_PANIC.lock().unwrap_or_else(|e| e.into_inner()).take().unwrap_or_default()
}

pub fn repo() -> String {
    std::env::var("GLUON_REPO").unwrap_or_else(|_| "/repo".into())
}

pub fn new_vm(prelude: bool) -> RootedThread {
    let vm = gluon::VmBuilder::new().import_paths(Some(vec![repo().into()])).build();
    vm.get_database_mut().implicit_prelude(prelude);
    vm
}

#[derive(Clone, Debug)]
pub struct Failure {
    pub cat: String,
    pub key: String,
    pub what: String,
    pub detail: String,
}

pub struct Eval {
    pub parse_err: Option<String>,
    pub out: Option<String>,
    pub failures: Vec<Failure>,
}

pub enum Fmt {
    Ok(String),
    Refused(String),
    Panic(String, String),
}

pub fn format_once(vm: &RootedThread, name: &str, src: &str) -> Fmt {
    let r = catch_unwind(AssertUnwindSafe(|| vm.format_expr(&mut gluon_format::Formatter::default(), name, src)));
    match r {
        Ok(Ok(s)) => Fmt::Ok(s),
        Ok(Err(e)) => Fmt::Refused(format!("{}", e)),
        Err(_) => {
            let (loc, msg) = take_panic();
            Fmt::Panic(loc, msg)
        }
    }
}

pub fn slug(s: &str, n: usize) -> String {
    let mut out = String::new();
    let mut dash = false;
    for c in s.chars() {
        if c.is_ascii_alphabetic() {
            out.push(c.to_ascii_lowercase());
            dash = false;
        } else if !dash && !out.is_empty() {
            out.push('-');
            dash = true;
        }
        if out.len() >= n {
            break;
        }
    }
    out.trim_end_matches('-').to_string()
}

/// Does the text end in a `//` comment that is not followed by a newline?
fn ends_in_line_comment(src: &str, lx: Option<&Lexed>) -> bool {
    match lx {
        Some(lx) => lx.comments.last().map_or(false, |c| c.line && !src.as_bytes()[c.end..].contains(&b'\n') && {
            // nothing but blanks after it
            src.as_bytes()[c.end..].iter().all(|b| b.is_ascii_whitespace())
        }),
        None => false,
    }
}

fn panic_key(src: &str, lx: Option<&Lexed>, loc: &str, msg: &str) -> String {
    // the construct, when it can be named from the input; otherwise the panic site
    if loc.contains("source.rs") && ends_in_line_comment(src, lx) {
        return "fmt-panic:comment-at-eof".to_string();
    }
    let file = loc.rsplit('/').next().unwrap_or("").split(':').next().unwrap_or("");
    format!("fmt-panic:{}:{}", file, slug(msg, 40))
}

fn tok_kind(lx: &Lexed, i: usize) -> String {
    if i < lx.toks.len() { lx.toks[i].kind.clone() } else { "END".into() }
}

fn gap_desc(lx: &Lexed, gap: usize) -> String {
    let prev = if gap == 0 { "START".to_string() } else { tok_kind(lx, gap - 1) };
    format!("{}..{}", prev, tok_kind(lx, gap))
}

/// Where a comment sits on its line(s): alone, after code, before code, or between code.
fn placement(src: &str, c: &lexm::Comment) -> &'static str {
    let b = src.as_bytes();
    let mut i = c.start;
    while i > 0 && b[i - 1] != b'\n' {
        i -= 1;
    }
    let before_blank = b[i..c.start].iter().all(|x| x.is_ascii_whitespace());
    let mut j = c.end;
    while j < b.len() && b[j] != b'\n' {
        j += 1;
    }
    let after_blank = b[c.end.min(j)..j].iter().all(|x| x.is_ascii_whitespace());
    match (before_blank, after_blank) {
        (true, true) => "own-line",
        (false, true) => "trailing",
        (true, false) => "leading",
        (false, false) => "inline",
    }
}

fn show(b: &[u8]) -> String {
    let s = String::from_utf8_lossy(b);
    let s: String = s.chars().take(80).collect();
    format!("{:?}", s)
}

/// Comments and literals of source and output compared (the harness-side mirror of `fmt_check`;
/// the verdict that counts is the extracted model's, this one supplies key and detail).
pub fn mirror_check(src: &str, out_text: &str, sl: &Lexed, ol: &Lexed, out: &mut Vec<Failure>) {
    let sc: Vec<&Vec<u8>> = sl.comments.iter().map(|c| &c.text).collect();
    let oc: Vec<&Vec<u8>> = ol.comments.iter().map(|c| &c.text).collect();
    if sc != oc {
        // first divergence
        let mut i = 0;
        while i < sc.len() && i < oc.len() && sc[i] == oc[i] {
            i += 1;
        }
        if i < sc.len() {
            let c = &sl.comments[i];
            let later_in_out = oc[i.min(oc.len())..].iter().position(|x| *x == sc[i]);
            match later_in_out {
                Some(_) if i < oc.len() => {
                    // the output has something the source does not have at this point
                    let extra_known = sc.iter().any(|x| *x == oc[i]);
                    let cat = if extra_known { "fmt-comment-moved" } else { "fmt-comment-added" };
                    out.push(Failure {
                        cat: cat.into(),
                        key: format!("{}:{}:{}:{}", cat, if ol.comments[i].line { "line" } else { "block" }, placement(out_text, &ol.comments[i]), gap_desc(ol, ol.comments[i].gap)),
                        what: format!("formatted text has comment {} where the source has {} (comment #{})", show(oc[i]), show(sc[i]), i),
                        detail: format!("source comments {}, output comments {}", sc.len(), oc.len()),
                    });
                }
                _ => {
                    out.push(Failure {
                        cat: "fmt-comment-lost".into(),
                        key: format!("fmt-comment-lost:{}:{}:{}", if c.line { "line" } else { "block" }, placement(src, c), gap_desc(sl, c.gap)),
                        what: format!(
                            "comment {} (#{} of the source, between tokens {}) is missing from the formatted text{}",
                            show(&c.text),
                            i,
                            gap_desc(sl, c.gap),
                            if i < oc.len() { format!("; output has {} there", show(oc[i])) } else { String::new() }
                        ),
                        detail: format!("source comments {}, output comments {}", sc.len(), oc.len()),
                    });
                }
            }
        } else {
            let c = &ol.comments[i];
            out.push(Failure {
                cat: "fmt-comment-added".into(),
                key: format!("fmt-comment-added:{}:{}:{}", if c.line { "line" } else { "block" }, placement(out_text, c), gap_desc(ol, c.gap)),
                what: format!("formatted text has an extra comment {} (#{}), between tokens {} of the output", show(&c.text), i, gap_desc(ol, c.gap)),
                detail: format!("source comments {}, output comments {}", sc.len(), oc.len()),
            });
        }
    }
    if sl.literals != ol.literals {
        let mut i = 0;
        while i < sl.literals.len() && i < ol.literals.len() && sl.literals[i] == ol.literals[i] {
            i += 1;
        }
        let a = sl.literals.get(i).cloned().unwrap_or_default();
        let b = ol.literals.get(i).cloned().unwrap_or_default();
        let kind = match a.first().or(b.first()) {
            Some(b'"') => "string",
            Some(b'r') => "raw-string",
            Some(b'\'') => "char",
            _ => "number",
        };
        let ml = if a.contains(&b'\n') { "-multiline" } else { "" };
        out.push(Failure {
            cat: "fmt-literal-changed".into(),
            key: format!("fmt-literal-changed:{}{}", kind, ml),
            what: format!("literal #{} of the source is {} but the formatted text has {}", i, show(&a), show(&b)),
            detail: format!("source literals {}, output literals {}", sl.literals.len(), ol.literals.len()),
        });
    }
}

/// Where the formatted text stops following the source, token by token: the kind of the first
/// source token that cannot be found (in order) in the output.  Used to NAME a failure by the
/// construct; the verdict itself never depends on it.  Legitimate differences are skipped: a
/// dropped `in` that is replaced by a line break, added/removed commas, doc comments.
pub fn diverge_key(src: &str, sl: &Lexed, out: &str) -> String {
    let ob = out.as_bytes();
    let sb = src.as_bytes();
    let mut pos = 0usize;
    for (i, t) in sl.toks.iter().enumerate() {
        if t.kind == "EOF" || t.kind == "DocComment" || t.end <= t.start {
            continue;
        }
        // skip blanks, comments and doc comments in the output
        let mut saw_nl = false;
        loop {
            while pos < ob.len() && (ob[pos] as char).is_whitespace() {
                if ob[pos] == b'\n' {
                    saw_nl = true;
                }
                pos += 1;
            }
            if ob[pos..].starts_with(b"//") {
                while pos < ob.len() && ob[pos] != b'\n' {
                    pos += 1;
                }
            } else if ob[pos..].starts_with(b"/*") {
                let mut j = pos + 2;
                while j + 1 < ob.len() && !(ob[j] == b'*' && ob[j + 1] == b'/') {
                    j += 1;
                }
                pos = (j + 2).min(ob.len());
            } else {
                break;
            }
        }
        let text = &sb[t.start..t.end];
        if ob[pos..].starts_with(text) {
            pos += text.len();
            continue;
        }
        if t.kind == "In" && (saw_nl || ob[pos..].starts_with(b"in")) {
            continue;
        }
        if t.kind == "Comma" {
            continue;
        }
        if pos < ob.len() && ob[pos] == b',' {
            pos += 1;
            let mut q = pos;
            while q < ob.len() && (ob[q] as char).is_whitespace() {
                q += 1;
            }
            if ob[q..].starts_with(text) {
                pos = q + text.len();
                continue;
            }
        }
        if ob[pos..].starts_with(b"in") && !ob.get(pos + 2).map_or(false, |c| c.is_ascii_alphanumeric() || *c == b'_') {
            // the formatter adds `in` after a `rec` group
            let mut q = pos + 2;
            while q < ob.len() && (ob[q] as char).is_whitespace() {
                q += 1;
            }
            if ob[q..].starts_with(text) {
                pos = q + text.len();
                continue;
            }
        }
        let prev = if i == 0 { "START".to_string() } else { sl.toks[i - 1].kind.clone() };
        let same_line = i > 0 && !sb[sl.toks[i - 1].end..t.start].contains(&b'\n');
        return match t.kind.as_str() {
            "In" | "Let" | "Type" | "Rec" | "Do" | "Seq" | "Else" | "Then" | "With" | "Pipe" | "If" | "Match" => {
                format!("at-{}{}", t.kind, if same_line { "-same-line" } else { "" })
            }
            _ => format!("at-{}..{}", prev, t.kind),
        };
    }
    "at-END".to_string()
}

/// When every source token is found in the output and it still does not parse, the construct is
/// named by the place of the first parse error in the OUTPUT: the token kinds around it.
fn unparseable_key(src: &str, sl: Option<&Lexed>, out: &str, err: &str) -> String {
    let at = sl.map_or("?".to_string(), |sl| diverge_key(src, sl, out));
    if at != "at-END" {
        return at;
    }
    let pos: usize = err.chars().take_while(|c| c.is_ascii_digit()).collect::<String>().parse().unwrap_or(0);
    match lexm::lex_real(out) {
        Ok(ol) if pos > 0 => {
            let p = pos - 1;
            let idx = ol.toks.iter().position(|t| t.end > p || t.start >= p).unwrap_or(ol.toks.len());
            let has_comment = ol.comments.iter().any(|c| c.gap == idx);
            format!("out@{}{}", gap_desc(&ol, idx.min(ol.toks.len())), if has_comment { "+comment" } else { "" })
        }
        _ => at,
    }
}

fn node_before(canon: &str, pos: usize) -> String {
    // the closest enclosing Debug constructor name before `pos`
    let b = canon.as_bytes();
    let mut i = pos.min(b.len());
    while i > 0 {
        if b[i - 1] == b'(' || b[i - 1] == b'{' {
            let mut e = i - 1;
            while e > 0 && b[e - 1] == b' ' {
                e -= 1;
            }
            let mut s = e;
            while s > 0 && (b[s - 1].is_ascii_alphanumeric() || b[s - 1] == b'_') {
                s -= 1;
            }
            if s < e && b[s].is_ascii_uppercase() {
                let name = &canon[s..e];
                if name != "Spanned" && name != "Some" && name != "TypedIdent" {
                    return name.to_string();
                }
            }
        }
        i -= 1;
    }
    "?".into()
}

/// The constructor names at which two canonical trees start to differ: `Function->Type` means the
/// source tree has `Function(..` where the output tree has `Type`.  Falls back to the enclosing
/// node when the difference is inside a string or a number.
fn diff_words(a: &str, b: &str, pos: usize) -> String {
    fn word(s: &str, pos: usize) -> String {
        let b = s.as_bytes();
        let ok = |c: u8| c.is_ascii_alphanumeric() || c == b'_';
        let mut st = pos.min(b.len());
        while st > 0 && ok(b[st - 1]) {
            st -= 1;
        }
        let mut e = st;
        while e < b.len() && ok(b[e]) {
            e += 1;
        }
        s[st..e].to_string()
    }
    let (wa, wb) = (word(a, pos), word(b, pos));
    let is_ctor = |w: &str| w.chars().next().map_or(false, |c| c.is_ascii_uppercase());
    // inside a quoted string the words are program text, not constructors
    let quotes = a.as_bytes()[..pos.min(a.len())].iter().filter(|c| **c == b'"').count();
    if quotes % 2 == 0 && (is_ctor(&wa) || is_ctor(&wb)) {
        format!("{}->{}", if is_ctor(&wa) { wa } else { "_".into() }, if is_ctor(&wb) { wb } else { "_".into() })
    } else {
        node_before(a, pos)
    }
}

fn idem_key(out1: &str, out2: &str) -> (String, String) {
    let a = out1.as_bytes();
    let b = out2.as_bytes();
    let mut i = 0;
    while i < a.len() && i < b.len() && a[i] == b[i] {
        i += 1;
    }
    let desc = match lexm::lex_real(out1) {
        Ok(lx) => {
            let mut g = lx.toks.len();
            for (k, t) in lx.toks.iter().enumerate() {
                if t.end > i || (t.start >= i) {
                    g = k;
                    break;
                }
            }
            let inside = g < lx.toks.len() && lx.toks[g].start < i;
            let gap = if inside { g + 1 } else { g };
            let has_comment = lx.comments.iter().any(|c| c.gap == gap);
            format!("{}{}", gap_desc(&lx, gap.min(lx.toks.len())), if has_comment { "+comment" } else { "" })
        }
        Err(_) => "?".into(),
    };
    let line_no = a[..i.min(a.len())].iter().filter(|c| **c == b'\n').count();
    let l1 = out1.lines().nth(line_no).unwrap_or("");
    let l2 = out2.lines().nth(line_no).unwrap_or("");
    (desc, format!("first difference in line {}: once {:?}, twice {:?}", line_no + 1, l1, l2))
}

pub fn evaluate(vm: &RootedThread, name: &str, src: &str) -> Eval {
    let mut failures = Vec::new();
    let ast0 = match canon_ast(src) {
        Ok(a) => a,
        Err(e) => return Eval { parse_err: Some(e), out: None, failures },
    };
    let sl = lexm::lex_real(src).ok();
    let out = match format_once(vm, name, src) {
        Fmt::Ok(o) => o,
        Fmt::Refused(e) => {
            // not a violation by itself (no text was produced); counted, and bounded by the check
            failures.push(Failure {
                cat: "fmt-refused".into(),
                key: format!("fmt-refused:{}", slug(e.lines().next().unwrap_or(""), 50)),
                what: "the program parses but the formatter returned an error".into(),
                detail: e.chars().take(400).collect(),
            });
            return Eval { parse_err: None, out: None, failures };
        }
        Fmt::Panic(loc, msg) => {
            failures.push(Failure {
                cat: "fmt-panic".into(),
                key: panic_key(src, sl.as_ref(), &loc, &msg),
                what: format!("the formatter panicked at {}: {}", loc, msg.chars().take(200).collect::<String>()),
                detail: String::new(),
            });
            return Eval { parse_err: None, out: None, failures };
        }
    };
    // (1) same AST
    match canon_ast(&out) {
        Err(e) => failures.push(Failure {
            cat: "fmt-output-unparseable".into(),
            key: format!("fmt-output-unparseable:{}", unparseable_key(src, sl.as_ref(), &out, &e)),
            what: "the formatted text does not parse".into(),
            detail: e.chars().take(400).collect(),
        }),
        Ok(ast1) => {
            if ast1 != ast0 {
                let d = first_diff(&ast0, &ast1);
                let pos = ast0.bytes().zip(ast1.bytes()).take_while(|(a, b)| a == b).count();
                let at = sl.as_ref().map_or("?".to_string(), |sl| diverge_key(src, sl, &out));
                failures.push(Failure {
                    cat: "fmt-ast-changed".into(),
                    // the tree node in which the trees start to differ + the first source token that
                    // the output does not have at that place
                    key: if at == "at-END" {
                        format!("fmt-ast-changed:{}", diff_words(&ast0, &ast1, pos))
                    } else {
                        // only the kind of the missing token: the tree part already names the construct
                        let tok = at.rsplit("..").next().unwrap_or(&at).trim_start_matches("at-");
                        format!("fmt-ast-changed:{}@{}", diff_words(&ast0, &ast1, pos), tok)
                    },
                    what: "the formatted text parses to a different syntax tree".into(),
                    detail: d,
                });
            }
        }
    }
    if failures.iter().any(|f| f.cat == "fmt-output-unparseable") {
        // the text is not a program: differing comments/literals and the second pass would only
        // restate the same defect
        return Eval { parse_err: None, out: Some(out), failures };
    }
    // (2) comments and literals (mirror of fmt_check on the real token stream)
    match (&sl, lexm::lex_real(&out)) {
        (Some(sl), Ok(ol)) => mirror_check(src, &out, sl, &ol, &mut failures),
        (None, _) => failures.push(Failure {
            cat: "machinery".into(),
            key: "machinery:source-tokens".into(),
            what: "source parses but verif::tokens reports an error".into(),
            detail: String::new(),
        }),
        (_, Err(e)) => {
            if !failures.iter().any(|f| f.cat == "fmt-output-unparseable") {
                failures.push(Failure {
                    cat: "fmt-output-unparseable".into(),
                    key: format!("fmt-output-unparseable:{}", sl.as_ref().map_or("?".to_string(), |sl| diverge_key(src, sl, &out))),
                    what: "the formatted text does not tokenize".into(),
                    detail: e,
                })
            }
        }
    }
    // (3) fixed point
    match format_once(vm, name, &out) {
        Fmt::Ok(out2) => {
            if out2 != out {
                let (desc, detail) = idem_key(&out, &out2);
                failures.push(Failure {
                    cat: "fmt-not-idempotent".into(),
                    key: format!("fmt-not-idempotent:{}", desc),
                    what: "formatting the formatted text again changes it".into(),
                    detail,
                });
            }
        }
        Fmt::Refused(e) => {
            if !failures.iter().any(|f| f.cat == "fmt-output-unparseable") {
                failures.push(Failure {
                    cat: "fmt-not-idempotent".into(),
                    key: format!("fmt-not-idempotent:refused-{}", slug(e.lines().next().unwrap_or(""), 40)),
                    what: "the formatter refuses its own output".into(),
                    detail: e.chars().take(400).collect(),
                })
            }
        }
        Fmt::Panic(loc, msg) => {
            let ol = lexm::lex_real(&out).ok();
            failures.push(Failure {
                cat: "fmt-panic".into(),
                key: panic_key(&out, ol.as_ref(), &loc, &msg) + ":second-pass",
                what: format!("the formatter panicked on its own output at {}: {}", loc, msg.chars().take(200).collect::<String>()),
                detail: String::new(),
            });
        }
    }
    Eval { parse_err: None, out: Some(out), failures }
}

/// Delta debugging: remove lines, then tokens, while `src` still parses and still fails with `key`.
pub fn shrink(vm: &RootedThread, src: &str, key: &str, budget: usize) -> String {
    let mut evals = 0usize;
    let t0 = std::time::Instant::now();
    let still = |cand: &str, evals: &mut usize| -> bool {
        *evals += 1;
        let e = evaluate(vm, "c10shrink", cand);
        e.parse_err.is_none() && e.failures.iter().any(|f| f.key == key)
    };
    let mut cur = src.to_string();
    for phase in 0..2 {
        // units: lines (phase 0) or token-sized pieces (phase 1)
        loop {
            let units: Vec<String> = if phase == 0 {
                cur.split_inclusive('\n').map(|s| s.to_string()).collect()
            } else {
                match lexm::real_tokens(&cur) {
                    Ok(toks) => {
                        let mut v = Vec::new();
                        let mut prev = 0;
                        for t in toks.iter().filter(|t| t.end > t.start) {
                            // a unit = the gap before the token + the token
                            v.push(cur[prev..t.end].to_string());
                            prev = t.end;
                        }
                        v.push(cur[prev..].to_string());
                        v
                    }
                    Err(_) => break,
                }
            };
            let mut units = units;
            let mut n = 2usize;
            let mut progressed = false;
            while units.len() >= 2 && evals < budget && t0.elapsed().as_secs() < 20 {
                let chunk = (units.len() + n - 1) / n;
                let mut reduced = false;
                let mut start = 0;
                while start < units.len() {
                    let end = (start + chunk).min(units.len());
                    let cand: String = units[..start].iter().chain(units[end..].iter()).cloned().collect();
                    if !cand.trim().is_empty() && still(&cand, &mut evals) {
                        units.drain(start..end);
                        reduced = true;
                        progressed = true;
                        n = n.saturating_sub(1).max(2);
                        break;
                    }
                    start = end;
                    if evals >= budget {
                        break;
                    }
                }
                if !reduced {
                    if chunk == 1 {
                        break;
                    }
                    n = (n * 2).min(units.len());
                }
            }
            cur = units.concat();
            if !progressed || evals >= budget || t0.elapsed().as_secs() >= 20 {
                break;
            }
            if phase == 0 {
                break;
            }
            break;
        }
    }
    cur
}
