//! Source-to-source perturbations that should not change what a program means: comments put into
//! token gaps, re-indentation, blank lines, trailing blanks, CRLF.  They work on any text whose
//! token spans are known (generated programs and the repository's .glu files alike); whether the
//! perturbed text still parses is decided by the real parser afterwards.
use crate::lexm::Tok;
use gvh::rng::Rng;

pub const LINE_COMMENTS: &[&str] = &["// c", "// a longer comment, with punctuation: \"quoted\" and 'x' /* nested */", "//", "//x", "// trailing blanks   ", "//// four slashes"];
pub const BLOCK_COMMENTS: &[&str] = &["/* b */", "/**/", "/* multi\n   line */", "/* has // inside */", "/*x*/", "/* star * inside */"];

fn col_of(src: &str, pos: usize) -> usize {
    let b = src.as_bytes();
    let mut i = pos;
    while i > 0 && b[i - 1] != b'\n' {
        i -= 1;
    }
    pos - i
}

fn line_indent(src: &str, pos: usize) -> usize {
    let b = src.as_bytes();
    let mut i = pos;
    while i > 0 && b[i - 1] != b'\n' {
        i -= 1;
    }
    let mut k = 0;
    while i + k < b.len() && b[i + k] == b' ' {
        k += 1;
    }
    k
}

/// How a comment is placed in the gap before token `g` (gap `g` lies between token g-1 and g).
#[derive(Clone, Copy, Debug, PartialEq)]
pub enum Place {
    /// `prev /* c */<gap>next` or `prev // c<gap>next` (the latter moves `next` to a new line at the
    /// same column when the gap has no newline)
    AfterPrev,
    /// on a line of its own, aligned with the next token
    OwnLine,
    /// `prev<gap>/* c */ next`: directly before the next token
    BeforeNext,
}

/// Insert `comment` into gap `g`; returns None when the placement is not applicable.
pub fn insert_comment(src: &str, toks: &[Tok], g: usize, comment: &str, place: Place) -> Option<String> {
    let prev_end = if g == 0 { 0 } else { toks[g - 1].end };
    let next_start = if g < toks.len() { toks[g].start } else { src.len() };
    if next_start < prev_end {
        return None;
    }
    let gap = &src[prev_end..next_start];
    let line = comment.starts_with("//");
    let is_eof = g >= toks.len() || toks[g].kind == "EOF";
    let mut out = String::with_capacity(src.len() + comment.len() + 16);
    out.push_str(&src[..prev_end]);
    match place {
        Place::AfterPrev => {
            if g > 0 {
                out.push(' ');
            }
            out.push_str(comment);
            if line && (gap.contains("//") || gap.contains("/*")) {
                return None; // would swallow or reorder an existing comment
            }
            if line {
                if gap.contains('\n') {
                    // the comment ends at the gap's first newline; blanks before it become part of it
                    out.push_str(&gap[gap.find('\n').unwrap()..]);
                } else if is_eof {
                    out.push_str(gap);
                } else {
                    out.push('\n');
                    for _ in 0..col_of(src, next_start) {
                        out.push(' ');
                    }
                }
            } else {
                if gap.is_empty() {
                    out.push(' ');
                }
                out.push_str(gap);
            }
        }
        Place::OwnLine => {
            if is_eof {
                out.push_str(gap);
                if !out.ends_with('\n') {
                    out.push('\n');
                }
                out.push_str(comment);
                out.push('\n');
            } else {
                let col = col_of(src, next_start);
                if gap.contains('\n') {
                    // <gap up to and including its last newline><col blanks>comment\n<col blanks>next
                    let last = gap.rfind('\n').unwrap();
                    out.push_str(&gap[..=last]);
                } else {
                    if g == 0 && prev_end == 0 {
                        // start of file
                    } else {
                        out.push('\n');
                    }
                }
                for _ in 0..col {
                    out.push(' ');
                }
                out.push_str(comment);
                out.push('\n');
                for _ in 0..col {
                    out.push(' ');
                }
            }
        }
        Place::BeforeNext => {
            if line || is_eof {
                return None;
            }
            out.push_str(gap);
            if gap.is_empty() {
                out.push(' ');
            }
            out.push_str(comment);
            out.push(' ');
        }
    }
    out.push_str(&src[next_start..]);
    Some(out)
}

/// Insert comments into several gaps at once (gaps given in increasing order are rewritten from
/// the back so that earlier spans stay valid).
pub fn insert_many(src: &str, toks: &[Tok], picks: &[(usize, String, Place)]) -> Option<String> {
    let mut cur = src.to_string();
    let mut sorted: Vec<&(usize, String, Place)> = picks.iter().collect();
    sorted.sort_by_key(|p| std::cmp::Reverse(p.0));
    let mut last = usize::MAX;
    for (g, c, place) in sorted {
        if *g == last {
            continue;
        }
        last = *g;
        cur = insert_comment(&cur, toks, *g, c, *place)?;
    }
    Some(cur)
}

/// Is byte offset `pos` strictly inside a token (a multi-line string or doc comment) or inside a comment?
fn inside_token(toks: &[Tok], comments: &[(usize, usize)], pos: usize) -> bool {
    // binary search would do; linear from a hint is fine for these sizes
    toks.iter().any(|t| t.start < pos && pos < t.end) || comments.iter().any(|c| c.0 < pos && pos < c.1)
}

/// Positions (byte offsets of line starts) that are not inside a token or comment.
fn free_line_starts(src: &str, toks: &[Tok], comments: &[(usize, usize)]) -> Vec<usize> {
    let mut v = vec![0usize];
    for (i, b) in src.bytes().enumerate() {
        if b == b'\n' {
            v.push(i + 1);
        }
    }
    // multi-line tokens are rare: collect them once
    let ml: Vec<(usize, usize)> = toks
        .iter()
        .filter(|t| src[t.start..t.end].contains('\n'))
        .map(|t| (t.start, t.end))
        .chain(comments.iter().filter(|c| src[c.0..c.1].contains('\n')).cloned())
        .collect();
    v.retain(|p| !ml.iter().any(|(s, e)| s < p && p < e));
    let _ = inside_token;
    v
}

/// Shift every line that starts outside a token by `k` blanks (consistent re-indentation: all
/// token columns move by the same amount, so the offside structure is unchanged).
pub fn shift_indent(src: &str, toks: &[Tok], comments: &[(usize, usize)], k: usize) -> String {
    let starts = free_line_starts(src, toks, comments);
    let mut out = String::with_capacity(src.len() + starts.len() * k);
    let mut prev = 0;
    for s in starts {
        out.push_str(&src[prev..s]);
        // do not indent empty lines
        let rest = &src[s..];
        if !(rest.is_empty() || rest.starts_with('\n') || rest.starts_with("\r\n")) {
            for _ in 0..k {
                out.push(' ');
            }
        }
        prev = s;
    }
    out.push_str(&src[prev..]);
    out
}

/// Multiply the leading indentation of every free line by `num/den` (rounded down, but never
/// collapsing distinct indentation levels that were in use).
pub fn scale_indent(src: &str, toks: &[Tok], comments: &[(usize, usize)], num: usize, den: usize) -> String {
    let starts = free_line_starts(src, toks, comments);
    let mut out = String::with_capacity(src.len() * 2);
    let mut prev = 0;
    let b = src.as_bytes();
    for s in starts {
        out.push_str(&src[prev..s]);
        let mut k = 0;
        while s + k < b.len() && b[s + k] == b' ' {
            k += 1;
        }
        let blank_line = s + k >= b.len() || b[s + k] == b'\n' || b[s + k] == b'\r';
        if !blank_line {
            for _ in 0..(k * num / den) {
                out.push(' ');
            }
        }
        prev = s + k;
    }
    out.push_str(&src[prev..]);
    out
}

/// Extra blank lines at random free line starts.
pub fn blank_lines(src: &str, toks: &[Tok], comments: &[(usize, usize)], rng: &mut Rng, one_in: u64) -> String {
    let starts = free_line_starts(src, toks, comments);
    let mut out = String::with_capacity(src.len() + 64);
    let mut prev = 0;
    for s in starts {
        out.push_str(&src[prev..s]);
        if s > 0 && rng.chance(1, one_in) {
            out.push('\n');
            if rng.chance(1, 4) {
                out.push('\n');
            }
        }
        prev = s;
    }
    out.push_str(&src[prev..]);
    out
}

/// Trailing blanks at the end of random lines (not inside multi-line tokens).
pub fn trailing_blanks(src: &str, toks: &[Tok], comments: &[(usize, usize)], rng: &mut Rng, one_in: u64) -> String {
    let starts = free_line_starts(src, toks, comments);
    let free: std::collections::HashSet<usize> = starts.into_iter().collect();
    let mut out = String::with_capacity(src.len() + 64);
    for (i, ch) in src.char_indices() {
        if ch == '\n' && free.contains(&(i + 1)) && rng.chance(1, one_in) {
            out.push_str(if rng.chance(1, 3) { " \t" } else { "   " });
        }
        out.push(ch);
    }
    out
}

pub fn to_crlf(src: &str) -> String {
    src.replace("\r\n", "\n").replace('\n', "\r\n")
}

pub fn drop_final_newline(src: &str) -> String {
    src.trim_end_matches(|c| c == '\n' || c == '\r').to_string()
}
