//! AST canonicaliser: parse with the real grammar (identifiers as plain `String`s, so no symbol
//! addresses) and render the tree through its derived `Debug` with every byte position erased.
use gluon_base::ast::{DisplayEnv, IdentEnv};
use gluon_base::types::{ArcType, TypeCache};

pub struct StrEnv;
impl DisplayEnv for StrEnv {
    type Ident = String;
    fn string<'a>(&'a self, ident: &'a String) -> &'a str {
        ident
    }
}
impl IdentEnv for StrEnv {
    fn from_str(&mut self, s: &str) -> String {
        s.to_string()
    }
}

/// Erase `ByteIndex(<digits>)` (spans print as `ByteIndex(a)..ByteIndex(b)`).
fn strip_positions(s: &str) -> String {
    let b = s.as_bytes();
    let mut out = Vec::with_capacity(b.len());
    let pat = b"ByteIndex(";
    let mut i = 0;
    while i < b.len() {
        if b[i..].starts_with(pat) {
            let mut j = i + pat.len();
            while j < b.len() && b[j].is_ascii_digit() {
                j += 1;
            }
            if j < b.len() && b[j] == b')' && j > i + pat.len() {
                out.push(b'_');
                i = j + 1;
                continue;
            }
        }
        out.push(b[i]);
        i += 1;
    }
    String::from_utf8(out).unwrap_or_default()
}

/// `implicit?<counter>` (the parser numbers the `?` of record patterns with a global counter).
fn strip_implicit_counters(s: &str) -> String {
    let b = s.as_bytes();
    let pat = b"implicit?";
    let mut out = Vec::with_capacity(b.len());
    let mut i = 0;
    while i < b.len() {
        if b[i..].starts_with(pat) {
            out.extend_from_slice(pat);
            i += pat.len();
            while i < b.len() && b[i].is_ascii_digit() {
                i += 1;
            }
            out.push(b'_');
            continue;
        }
        out.push(b[i]);
        i += 1;
    }
    String::from_utf8(out).unwrap_or_default()
}

/// Doc comment contents are compared modulo trailing blanks of their lines (the formatter trims
/// every output line).  Works on the Debug-escaped form: blank = ' ', `\t`, `\r`; newline = `\n`.
fn normalise_doc_comments(s: &str) -> String {
    let b = s.as_bytes();
    let pat = b"content: \"";
    let mut out: Vec<u8> = Vec::with_capacity(b.len());
    let mut i = 0;
    while i < b.len() {
        if b[i..].starts_with(pat) {
            out.extend_from_slice(pat);
            i += pat.len();
            // copy the escaped string, dropping blanks before `\n` and before the closing quote
            let mut pending: Vec<u8> = Vec::new();
            while i < b.len() && b[i] != b'"' {
                if b[i] == b' ' {
                    pending.push(b' ');
                    i += 1;
                } else if b[i] == b'\\' && i + 1 < b.len() {
                    let c = b[i + 1];
                    if c == b't' || c == b'r' {
                        pending.extend_from_slice(&b[i..i + 2]);
                    } else if c == b'n' {
                        pending.clear();
                        out.extend_from_slice(b"\\n");
                    } else {
                        out.append(&mut pending);
                        out.extend_from_slice(&b[i..i + 2]);
                    }
                    i += 2;
                } else {
                    out.append(&mut pending);
                    out.push(b[i]);
                    i += 1;
                }
            }
            continue;
        }
        out.push(b[i]);
        i += 1;
    }
    String::from_utf8(out).unwrap_or_default()
}

/// `Ok(canonical tree)` when `src` parses without any error, `Err(message)` otherwise.
pub fn canon_ast(src: &str) -> Result<String, String> {
    let tc: TypeCache<String, ArcType<String>> = TypeCache::default();
    match gluon_parser::parse_partial_root_expr(&mut StrEnv, &tc, src) {
        Ok(root) => Ok(normalise_doc_comments(&strip_implicit_counters(&strip_positions(&format!("{:?}", root.expr()))))),
        Err((_, errs)) => Err(format!("{}", errs).replace('\n', " | ")),
    }
}

/// A short window around the first difference of two canonical trees.
pub fn first_diff(a: &str, b: &str) -> String {
    let ab = a.as_bytes();
    let bb = b.as_bytes();
    let mut i = 0;
    while i < ab.len() && i < bb.len() && ab[i] == bb[i] {
        i += 1;
    }
    let lo = i.saturating_sub(60);
    let w = |s: &[u8]| String::from_utf8_lossy(&s[lo.min(s.len())..(i + 60).min(s.len())]).to_string();
    format!("at {}: src …{}… out …{}…", i, w(ab), w(bb))
}
