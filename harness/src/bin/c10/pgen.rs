//! Generator of syntactically valid Gluon programs and a printer with several styles.
//! Programs only have to parse (the formatter works on parsed, not type-checked, programs);
//! operators used infix are declared with `#[infix(..)]` in a prologue so that `reparse_infix`
//! knows their fixity.
use gvh::rng::Rng;

#[derive(Clone, Debug)]
pub enum P {
    Id(String),
    Wild,
    Ctor(String, Vec<P>),
    Rec(Vec<(String, Option<P>)>),
    Tup(Vec<P>),
    Lit(String),
    As(String, Box<P>),
}

#[derive(Clone, Debug)]
pub enum T {
    Id(String),
    App(String, Vec<T>),
    Fn(Box<T>, Box<T>),
    /// `[a] -> b`
    ImplFn(Box<T>, Box<T>),
    Forall(Vec<String>, Box<T>),
    Rec(Vec<(String, T)>),
    /// record type with type fields and an optional row variable: `{ Key = T, x : T | r }`
    RecTy(Vec<(String, T)>, Vec<(String, T)>, Option<String>),
    /// `[| name : T, .. | r |]`
    Effect(Vec<(String, T)>, Option<String>),
    Tup(Vec<T>),
}

/// kinds of type parameters: `(f : (Type -> Type) -> Type)`
#[derive(Clone, Debug)]
pub enum K {
    Type,
    Row,
    Fn(Box<K>, Box<K>),
}

#[derive(Clone, Debug)]
pub enum TyBody {
    Variant(Vec<(String, Vec<T>)>),
    /// `| Ctor : T -> R`
    Gadt(Vec<(String, T)>),
    Alias(T),
}

#[derive(Clone, Debug)]
pub struct TyBind {
    pub doc: Option<String>,
    pub name: String,
    pub params: Vec<(String, Option<K>)>,
    pub body: TyBody,
}

#[derive(Clone, Debug)]
pub struct Bind {
    pub doc: Option<String>,
    pub attr: Option<String>,
    pub pat: P,
    pub args: Vec<String>,
    pub ty: Option<T>,
    pub rhs: E,
}

#[derive(Clone, Debug)]
pub enum E {
    Id(String),
    Lit(String),
    App(Box<E>, Vec<E>),
    Lam(Vec<String>, Box<E>),
    If(Box<E>, Box<E>, Box<E>),
    Match(Box<E>, Vec<(P, E)>),
    Infix(Box<E>, String, Box<E>),
    Record(Vec<(String, Option<E>)>, Option<Box<E>>),
    Tuple(Vec<E>),
    Array(Vec<E>),
    Proj(Box<E>, String),
    Paren(Box<E>),
    Let(Box<Bind>, Box<E>),
    Rec(Vec<Bind>, Box<E>),
    Type(Vec<TyBind>, Box<E>),
    Do(P, Box<E>, Box<E>),
    Seq(Box<E>, Box<E>),
}

const VARS: &[&str] = &["x", "y", "z", "acc", "f", "g", "xs", "value", "counter", "k", "n'", "_tmp", "long_identifier_name"];
const CTORS: &[&str] = &["Some", "None", "Cons", "Nil", "Ok", "Err", "Leaf", "Node"];
const FIELDS: &[&str] = &["x", "y", "name", "value", "next", "field_a", "field_b"];
const TYPES: &[&str] = &["Int", "String", "Float", "Bool", "a", "b"];
const TYCONS: &[&str] = &["List", "Option", "Array", "Tree"];
pub const OPS: &[(&str, &str, u32)] = &[
    ("+", "left", 6),
    ("-", "left", 6),
    ("*", "left", 7),
    ("==", "left", 4),
    ("<", "left", 4),
    ("++", "right", 5),
    ("|>", "left", 0),
    ("<|", "right", 0),
    (">>", "right", 9),
    ("<>", "left", 5),
];
const BUILTIN_OPS: &[&str] = &["#Int+", "#Int*", "#Int-", "#Int==", "#Float<", "&&", "||"];

pub struct Gen<'a> {
    pub rng: &'a mut Rng,
}

impl<'a> Gen<'a> {
    fn var(&mut self) -> String {
        self.rng.pick(VARS).to_string()
    }
    fn lit(&mut self) -> String {
        match self.rng.below(12) {
            0 => "0".into(),
            1 => format!("{}", self.rng.below(100000)),
            2 => format!("-{}", 1 + self.rng.below(50)),
            3 => format!("{}.{}", self.rng.below(100), self.rng.below(1000)),
            4 => "0xFF".into(),
            5 => format!("{}b", self.rng.below(256)),
            6 => "\"hello world\"".into(),
            7 => "\"a // not a comment /* nor this */ \\\" \\n\\t\"".into(),
            8 => "'c'".into(),
            9 => "'\\n'".into(),
            10 => "r#\"raw \" // string\"#".into(),
            _ => "\"\"".into(),
        }
    }
    pub fn pat(&mut self, d: u32) -> P {
        match self.rng.below(if d == 0 { 3 } else { 9 }) {
            0 | 1 => P::Id(self.var()),
            2 => P::Wild,
            3 => {
                let n = self.rng.below(3) as usize;
                P::Ctor(self.rng.pick(CTORS).to_string(), (0..n).map(|_| self.pat(d - 1)).collect())
            }
            4 => {
                let n = 1 + self.rng.below(3) as usize;
                P::Rec((0..n).map(|i| (FIELDS[(i * 2 + self.rng.below(2) as usize) % FIELDS.len()].to_string(), if self.rng.chance(1, 3) { Some(self.pat(d - 1)) } else { None })).collect())
            }
            5 => {
                let n = 2 + self.rng.below(2) as usize;
                P::Tup((0..n).map(|_| self.pat(d - 1)).collect())
            }
            6 => P::Lit(match self.rng.below(3) {
                0 => "1".into(),
                1 => "\"s\"".into(),
                _ => "'a'".into(),
            }),
            7 => P::As(self.var(), Box::new(P::Rec(vec![(FIELDS[0].into(), None)]))),
            _ => P::Id(self.var()),
        }
    }
    pub fn ty(&mut self, d: u32) -> T {
        match self.rng.below(if d == 0 { 2 } else { 13 }) {
            0 | 1 => T::Id(self.rng.pick(TYPES).to_string()),
            2 => {
                let n = 1 + self.rng.below(3) as usize;
                T::App(self.rng.pick(TYCONS).to_string(), (0..n).map(|_| self.ty(d - 1)).collect())
            }
            3 | 4 | 5 => T::Fn(Box::new(self.ty(d - 1)), Box::new(self.ty(d - 1))),
            6 => {
                let n = 1 + self.rng.below(3) as usize;
                T::Rec((0..n).map(|i| (FIELDS[i].to_string(), self.ty(d - 1))).collect())
            }
            7 => T::ImplFn(Box::new(T::App("Show".into(), vec![self.ty(d - 1)])), Box::new(self.ty(d - 1))),
            8 => {
                let n = 1 + self.rng.below(2) as usize;
                T::Forall((0..n).map(|i| ["a", "b"][i].to_string()).collect(), Box::new(self.ty(d - 1)))
            }
            9 => {
                let nt = 1 + self.rng.below(2) as usize;
                let nf = self.rng.below(3) as usize;
                T::RecTy(
                    (0..nt).map(|i| (["Key", "Elem"][i].to_string(), self.ty(d - 1))).collect(),
                    (0..nf).map(|i| (FIELDS[i].to_string(), self.ty(d - 1))).collect(),
                    if self.rng.chance(1, 3) { Some("r".into()) } else { None },
                )
            }
            10 => {
                let n = 1 + self.rng.below(2) as usize;
                T::Effect((0..n).map(|i| (["state", "error"][i].to_string(), self.ty(d - 1))).collect(), if self.rng.chance(1, 2) { Some("r".into()) } else { None })
            }
            _ => T::Tup(vec![self.ty(d - 1), self.ty(d - 1)]),
        }
    }
    pub fn kind(&mut self, d: u32) -> K {
        if d == 0 || self.rng.chance(2, 5) {
            if self.rng.chance(1, 5) { K::Row } else { K::Type }
        } else {
            K::Fn(Box::new(self.kind(d - 1)), Box::new(self.kind(d - 1)))
        }
    }
    fn doc(&mut self) -> Option<String> {
        if self.rng.chance(1, 6) { Some(format!("Documentation of item {}", self.rng.below(100))) } else { None }
    }
    fn bind(&mut self, d: u32, simple_name: bool) -> Bind {
        let nargs = if self.rng.chance(1, 2) { self.rng.below(3) as usize } else { 0 };
        let pat = if nargs > 0 || simple_name { P::Id(self.var()) } else { self.pat(1) };
        Bind {
            doc: self.doc(),
            attr: None,
            pat,
            args: (0..nargs).map(|_| self.var()).collect(),
            ty: if self.rng.chance(1, 4) { Some(self.ty(2)) } else { None },
            rhs: self.expr(d),
        }
    }
    fn tybind(&mut self) -> TyBind {
        let np = self.rng.below(3) as usize;
        let body = match self.rng.below(5) {
            0 | 1 => {
                let n = 1 + self.rng.below(3) as usize;
                TyBody::Variant((0..n).map(|i| (CTORS[(i + self.rng.below(4) as usize * 2) % CTORS.len()].to_string(), (0..self.rng.below(3)).map(|_| self.ty(1)).collect())).collect())
            }
            2 => {
                let n = 1 + self.rng.below(3) as usize;
                TyBody::Gadt((0..n).map(|i| (CTORS[(i + self.rng.below(4) as usize * 2) % CTORS.len()].to_string(), self.ty(2))).collect())
            }
            _ => TyBody::Alias(self.ty(2)),
        };
        let params = (0..np)
            .map(|i| {
                let k = if self.rng.chance(1, 3) {
                    // a bare `Type` annotation is a separate corpus case (the printer drops it)
                    match self.kind(3) {
                        K::Type => Some(K::Row),
                        k => Some(k),
                    }
                } else {
                    None
                };
                (["a", "b"][i].to_string(), k)
            })
            .collect();
        TyBind { doc: self.doc(), name: format!("T{}", self.rng.below(5)), params, body }
    }
    pub fn expr(&mut self, d: u32) -> E {
        if d == 0 {
            return if self.rng.chance(1, 2) { E::Id(self.var()) } else { E::Lit(self.lit()) };
        }
        match self.rng.below(24) {
            0 | 1 => E::Id(self.var()),
            2 => E::Lit(self.lit()),
            3 | 4 | 5 => {
                let n = 1 + self.rng.below(4) as usize;
                E::App(Box::new(if self.rng.chance(4, 5) { E::Id(self.var()) } else { self.expr(d - 1) }), (0..n).map(|_| self.expr(d - 1)).collect())
            }
            6 => {
                let n = 1 + self.rng.below(3) as usize;
                E::Lam((0..n).map(|_| self.var()).collect(), Box::new(self.expr(d - 1)))
            }
            7 | 8 => E::If(Box::new(self.expr(d - 1)), Box::new(self.expr(d - 1)), Box::new(self.expr(d - 1))),
            9 | 10 => {
                let n = 1 + self.rng.below(3) as usize;
                E::Match(Box::new(self.expr(d - 1)), (0..n).map(|_| (self.pat(2), self.expr(d - 1))).collect())
            }
            11 | 12 | 13 => {
                let op = if self.rng.chance(1, 5) { self.rng.pick(BUILTIN_OPS).to_string() } else { self.rng.pick(OPS).0.to_string() };
                E::Infix(Box::new(self.expr(d - 1)), op, Box::new(self.expr(d - 1)))
            }
            14 => {
                let n = self.rng.below(5) as usize;
                let base = if self.rng.chance(1, 6) { Some(Box::new(E::Id(self.var()))) } else { None };
                E::Record((0..n).map(|i| (FIELDS[i % FIELDS.len()].to_string(), if self.rng.chance(3, 4) { Some(self.expr(d - 1)) } else { None })).collect(), base)
            }
            15 => {
                let n = [0usize, 2, 3][self.rng.below(3) as usize];
                E::Tuple((0..n).map(|_| self.expr(d - 1)).collect())
            }
            16 => {
                let n = self.rng.below(5) as usize;
                E::Array((0..n).map(|_| self.expr(d - 1)).collect())
            }
            17 => E::Proj(Box::new(E::Id(self.var())), self.rng.pick(FIELDS).to_string()),
            18 => E::Paren(Box::new(self.expr(d - 1))),
            19 | 20 => E::Let(Box::new(self.bind(d - 1, false)), Box::new(self.expr(d - 1))),
            21 => {
                let n = 1 + self.rng.below(3) as usize;
                E::Rec((0..n).map(|_| self.bind(d - 1, true)).collect(), Box::new(self.expr(d - 1)))
            }
            22 => E::Type((0..1 + self.rng.below(2)).map(|_| self.tybind()).collect(), Box::new(self.expr(d - 1))),
            _ => {
                if self.rng.chance(2, 3) {
                    E::Do(if self.rng.chance(3, 4) { P::Id(self.var()) } else { self.pat(1) }, Box::new(self.expr(d - 1)), Box::new(self.expr(d - 1)))
                } else {
                    E::Seq(Box::new(self.expr(d - 1)), Box::new(self.expr(d - 1)))
                }
            }
        }
    }
    /// A whole program: operator prologue, then a chain of top-level declarations, then a result.
    pub fn program(&mut self, depth: u32, decls: usize) -> E {
        let mut body = match self.rng.below(3) {
            0 => E::Record(vec![("x".into(), None), ("value".into(), Some(self.expr(1)))], None),
            _ => self.expr(depth),
        };
        for _ in 0..decls {
            body = match self.rng.below(6) {
                0 => E::Type(vec![self.tybind()], Box::new(body)),
                1 => {
                    let n = 1 + self.rng.below(2) as usize;
                    E::Rec((0..n).map(|_| self.bind(depth, true)).collect(), Box::new(body))
                }
                2 => E::Do(P::Id(self.var()), Box::new(self.expr(depth.min(2))), Box::new(body)),
                _ => E::Let(Box::new(self.bind(depth, false)), Box::new(body)),
            };
        }
        // prologue: fixity declarations for every user operator
        for (op, assoc, prec) in OPS.iter().rev() {
            body = E::Let(
                Box::new(Bind {
                    doc: None,
                    attr: Some(format!("#[infix({}, {})]", assoc, prec)),
                    pat: P::Id(format!("({})", op)),
                    args: vec!["l".into(), "r".into()],
                    ty: None,
                    rhs: E::Id("l".into()),
                }),
                Box::new(body),
            );
        }
        body
    }
}

// ------------------------------------------------------------------------------------------
// Printer

#[derive(Clone, Copy, Debug, PartialEq)]
pub enum Mode {
    /// explicit `in`, everything on as few lines as possible (long lines force the formatter to break)
    Flat,
    /// idiomatic offside layout, one declaration per line, blocks indented by `ind`
    Layout,
}

#[derive(Clone, Debug)]
pub struct Style {
    pub mode: Mode,
    pub ind: usize,
    /// probability (out of 8) of wrapping a sub-expression in redundant parentheses
    pub parens: u64,
    /// break after every infix operator / before every argument (narrow style)
    pub narrow: bool,
    /// record/array elements one per line
    pub tall: bool,
}

pub struct Printer<'a> {
    pub st: Style,
    pub rng: &'a mut Rng,
    pub out: String,
    /// nothing follows the current expression on its logical line (a closing delimiter may then
    /// sit at the block's own column, as the formatter itself prints it)
    tail: bool,
}

fn is_stmt(e: &E) -> bool {
    matches!(e, E::Let(..) | E::Rec(..) | E::Type(..) | E::Do(..) | E::Seq(..))
}
fn is_open(e: &E) -> bool {
    // constructs that extend as far to the right as possible
    is_stmt(e) || matches!(e, E::Lam(..) | E::If(..) | E::Match(..))
}
fn is_atomic(e: &E) -> bool {
    matches!(e, E::Id(_) | E::Lit(_) | E::Record(..) | E::Tuple(_) | E::Array(_) | E::Proj(..) | E::Paren(_))
}

impl<'a> Printer<'a> {
    pub fn new(st: Style, rng: &'a mut Rng) -> Self {
        Printer { st, rng, out: String::new(), tail: true }
    }
    fn w(&mut self, s: &str) {
        self.out.push_str(s);
    }
    fn nl(&mut self, ind: usize) {
        self.out.push('\n');
        for _ in 0..ind {
            self.out.push(' ');
        }
    }
    fn layout(&self) -> bool {
        self.st.mode == Mode::Layout
    }

    pub fn pat(&mut self, p: &P, atomic: bool) {
        match p {
            P::Id(x) => self.w(x),
            P::Wild => self.w("_"),
            P::Lit(l) => self.w(l),
            P::Ctor(c, ps) => {
                let par = atomic && !ps.is_empty();
                if par {
                    self.w("(");
                }
                self.w(c);
                for q in ps {
                    self.w(" ");
                    self.pat(q, true);
                }
                if par {
                    self.w(")");
                }
            }
            P::Rec(fs) => {
                self.w("{ ");
                for (i, (n, q)) in fs.iter().enumerate() {
                    if i > 0 {
                        self.w(", ");
                    }
                    self.w(n);
                    if let Some(q) = q {
                        self.w(" = ");
                        self.pat(q, false);
                    }
                }
                self.w(" }");
            }
            P::Tup(ps) => {
                self.w("(");
                for (i, q) in ps.iter().enumerate() {
                    if i > 0 {
                        self.w(", ");
                    }
                    self.pat(q, false);
                }
                self.w(")");
            }
            P::As(x, q) => {
                let par = atomic;
                if par {
                    self.w("(");
                }
                self.w(x);
                self.w(" @ ");
                self.pat(q, true);
                if par {
                    self.w(")");
                }
            }
        }
    }

    pub fn ty(&mut self, t: &T, prec: u32) {
        // prec: 0 top, 1 function argument side, 2 atomic
        match t {
            T::Id(x) => self.w(x),
            T::App(c, args) => {
                if prec >= 2 {
                    self.w("(");
                }
                self.w(c);
                for a in args {
                    self.w(" ");
                    self.ty(a, 2);
                }
                if prec >= 2 {
                    self.w(")");
                }
            }
            T::Fn(a, b) => {
                if prec >= 1 {
                    self.w("(");
                }
                self.ty(a, 1);
                self.w(" -> ");
                self.ty(b, 0);
                if prec >= 1 {
                    self.w(")");
                }
            }
            T::ImplFn(a, b) => {
                if prec >= 1 {
                    self.w("(");
                }
                self.w("[");
                self.ty(a, 0);
                self.w("] -> ");
                self.ty(b, 0);
                if prec >= 1 {
                    self.w(")");
                }
            }
            T::Forall(vars, t) => {
                if prec >= 1 {
                    self.w("(");
                }
                self.w("forall ");
                self.w(&vars.join(" "));
                self.w(" . ");
                self.ty(t, 0);
                if prec >= 1 {
                    self.w(")");
                }
            }
            T::Rec(fs) => {
                self.w("{ ");
                for (i, (n, t)) in fs.iter().enumerate() {
                    if i > 0 {
                        self.w(", ");
                    }
                    self.w(n);
                    self.w(" : ");
                    self.ty(t, 0);
                }
                self.w(" }");
            }
            T::RecTy(ts, fs, rest) => {
                self.w("{ ");
                let mut first = true;
                for (n, t) in ts {
                    if !first {
                        self.w(", ");
                    }
                    first = false;
                    self.w(n);
                    self.w(" = ");
                    self.ty(t, 0);
                }
                for (n, t) in fs {
                    if !first {
                        self.w(", ");
                    }
                    first = false;
                    self.w(n);
                    self.w(" : ");
                    self.ty(t, 0);
                }
                if let Some(r) = rest {
                    self.w(" | ");
                    self.w(r);
                }
                self.w(" }");
            }
            T::Effect(fs, rest) => {
                self.w("[| ");
                for (i, (n, t)) in fs.iter().enumerate() {
                    if i > 0 {
                        self.w(", ");
                    }
                    self.w(n);
                    self.w(" : ");
                    self.ty(t, 0);
                }
                if let Some(r) = rest {
                    self.w(" | ");
                    self.w(r);
                }
                self.w(" |]");
            }
            T::Tup(ts) => {
                self.w("(");
                for (i, t) in ts.iter().enumerate() {
                    if i > 0 {
                        self.w(", ");
                    }
                    self.ty(t, 0);
                }
                self.w(")");
            }
        }
    }

    fn kind(&mut self, k: &K, left: bool) {
        match k {
            K::Type => self.w("Type"),
            K::Row => self.w("Row"),
            K::Fn(a, b) => {
                // needed on the left of an arrow, redundant (sometimes) on the right
                let par = left || self.rng.chance(1, 6);
                if par {
                    self.w("(");
                }
                self.kind(a, true);
                self.w(" -> ");
                self.kind(b, false);
                if par {
                    self.w(")");
                }
            }
        }
    }

    fn doc(&mut self, d: &Option<String>, ind: usize) {
        if let Some(d) = d {
            if self.layout() {
                self.w("/// ");
                self.w(d);
                self.nl(ind);
            }
            // flat mode: a line doc comment would swallow the rest of the line; use a block doc comment
            else {
                self.w("/** ");
                self.w(d);
                self.w(" */ ");
            }
        }
    }

    fn bind_head(&mut self, b: &Bind, ind: usize) {
        self.doc(&b.doc, ind);
        if let Some(a) = &b.attr {
            self.w(a);
            if self.layout() {
                self.nl(ind);
            } else {
                self.w(" ");
            }
        }
        self.w("let ");
        self.pat(&b.pat, true);
        for a in &b.args {
            self.w(" ");
            self.w(a);
        }
        if let Some(t) = &b.ty {
            self.w(" : ");
            self.ty(t, 0);
        }
        self.w(" =");
    }

    /// A sub-expression in "block position" (right-hand side of a binding, branch, alternative body, lambda body).
    fn block(&mut self, e: &E, ind: usize) {
        if self.layout() && (is_stmt(e) || matches!(e, E::Match(..)) || self.rng.chance(1, 4)) {
            self.nl(ind + self.st.ind);
            self.expr(e, ind + self.st.ind, 0);
        } else {
            self.w(" ");
            self.expr(e, ind, 0);
        }
    }

    fn tybind(&mut self, tb: &TyBind, ind: usize) {
        self.doc(&tb.doc, ind);
        self.w("type ");
        self.w(&tb.name);
        for (p, k) in &tb.params {
            self.w(" ");
            match k {
                None => self.w(p),
                Some(k) => {
                    self.w("(");
                    self.w(p);
                    self.w(" : ");
                    self.kind(k, false);
                    self.w(")");
                }
            }
        }
        self.w(" =");
        match &tb.body {
            TyBody::Gadt(vs) => {
                for (c, t) in vs {
                    if self.layout() {
                        self.nl(ind + self.st.ind);
                    } else {
                        self.w(" ");
                    }
                    self.w("| ");
                    self.w(c);
                    self.w(" : ");
                    self.ty(t, 0);
                }
            }
            TyBody::Alias(t) => {
                self.w(" ");
                self.ty(t, 0);
            }
            TyBody::Variant(vs) => {
                for (c, args) in vs {
                    if self.layout() && self.st.tall {
                        self.nl(ind + self.st.ind);
                    } else {
                        self.w(" ");
                    }
                    self.w("| ");
                    self.w(c);
                    for a in args {
                        self.w(" ");
                        self.ty(a, 2);
                    }
                }
            }
        }
    }

    /// prec: 0 = block position (anything), 1 = item position (declarations and `match` get
    /// parentheses), 5 = condition/scrutinee (every open construct gets parentheses),
    /// 2 = infix operand (application or atom), 3 = argument (atom)
    pub fn expr(&mut self, e: &E, ind: usize, prec: u32) {
        let need = match prec {
            0 => false,
            1 => is_stmt(e) || matches!(e, E::Match(..)),
            5 => is_open(e),
            2 => is_open(e) || matches!(e, E::Infix(..)),
            _ => !is_atomic(e),
        };
        let redundant = !need && !is_stmt(e) && self.st.parens > 0 && self.rng.chance(self.st.parens, 8);
        let saved_tail = self.tail;
        self.tail = saved_tail && prec == 0 && !(need || redundant);
        if need || redundant {
            self.w("(");
            if (is_stmt(e) || matches!(e, E::Match(..))) && self.layout() && self.rng.chance(3, 4) {
                // a block inside parentheses, the way the formatter itself prints it
                let col = ind + 2 * self.st.ind;
                self.nl(col);
                self.expr_(e, col);
            } else {
                // a statement on one logical line with explicit `in`
                let saved = self.st.mode;
                if is_stmt(e) || matches!(e, E::Match(..)) {
                    self.st.mode = Mode::Flat;
                }
                self.expr_(e, ind);
                self.st.mode = saved;
            }
            self.w(")");
        } else {
            self.expr_(e, ind);
        }
        self.tail = saved_tail;
    }

    fn sep_items(&mut self, n: usize, ind: usize, open: &str, close: &str, mut item: impl FnMut(&mut Self, usize, usize)) {
        let tall = self.st.tall && self.layout() && n > 0;
        let close_own_line = tall && self.tail;
        self.w(open);
        for i in 0..n {
            if tall {
                self.nl(ind + self.st.ind);
            } else if i > 0 || open.ends_with('{') {
                self.w(" ");
            }
            item(self, i, ind + self.st.ind);
            if i + 1 < n {
                self.w(",");
            } else if close_own_line && self.rng.chance(1, 2) {
                self.w(",");
            }
        }
        if close_own_line {
            self.nl(ind);
        } else if open.ends_with('{') && n > 0 {
            self.w(" ");
        }
        self.w(close);
    }

    fn expr_(&mut self, e: &E, ind: usize) {
        match e {
            E::Id(x) => self.w(x),
            E::Lit(l) => self.w(l),
            E::Paren(x) => {
                self.w("(");
                let saved = self.st.mode;
                if is_stmt(x) || matches!(**x, E::Match(..)) {
                    self.st.mode = Mode::Flat;
                }
                self.expr_(x, ind);
                self.st.mode = saved;
                self.w(")");
            }
            E::App(f, args) => {
                self.expr(f, ind, 3);
                for a in args {
                    if self.st.narrow && self.layout() {
                        self.nl(ind + self.st.ind + 2);
                    } else {
                        self.w(" ");
                    }
                    self.expr(a, ind + self.st.ind + 2, 3);
                }
            }
            E::Lam(args, body) => {
                self.w("\\");
                self.w(&args.join(" "));
                self.w(" ->");
                self.block(body, ind);
            }
            E::If(c, t, f) => {
                let at_bol = self.out.rsplit('\n').next().map_or(true, |l| l.trim().is_empty());
                self.w("if ");
                self.expr(c, ind, 5);
                if self.layout() && at_bol && self.tail && (self.st.narrow || self.rng.chance(1, 2)) {
                    self.w(" then");
                    self.block(t, ind);
                    self.nl(ind);
                    self.w("else");
                    self.block(f, ind);
                } else {
                    self.w(" then ");
                    self.expr(t, ind, 5);
                    self.w(" else ");
                    self.expr(f, ind, if matches!(**f, E::If(..)) { 1 } else { 5 });
                }
            }
            E::Match(s, alts) => {
                self.w("match ");
                self.expr(s, ind, 5);
                self.w(" with");
                let flat_alts = if self.layout() { alts.len() } else { 1 };
                for (p, b) in alts.iter().take(flat_alts) {
                    if self.layout() {
                        self.nl(ind);
                    } else {
                        self.w(" ");
                    }
                    self.w("| ");
                    self.pat(p, false);
                    self.w(" ->");
                    if self.layout() {
                        self.block(b, ind);
                    } else {
                        self.w(" ");
                        // a nested open construct would swallow the following alternatives
                        self.expr(b, ind, if is_open(b) { 3 } else { 1 });
                    }
                }
            }
            E::Infix(l, op, r) => {
                self.expr(l, ind, 2);
                if self.st.narrow && self.layout() {
                    self.nl(ind + self.st.ind);
                    self.w(op);
                    self.w(" ");
                } else {
                    self.w(" ");
                    self.w(op);
                    self.w(" ");
                }
                // right operand: an application/atom, a lambda, or another infix chain
                let open_rhs = matches!(**r, E::Lam(..)) || (matches!(**r, E::Infix(..)) && self.rng.chance(1, 2));
                self.expr(r, ind + self.st.ind, if open_rhs { 1 } else { 2 });
            }
            E::Record(fs, base) => {
                if fs.is_empty() && base.is_none() {
                    self.w("{ }");
                    return;
                }
                let fs2 = fs.clone();
                let base2 = base.clone();
                let n = fs2.len() + if base2.is_some() { 1 } else { 0 };
                self.sep_items(n, ind, "{", "}", |s, i, ind2| {
                    if i < fs2.len() {
                        let (name, v) = &fs2[i];
                        s.w(name);
                        if let Some(v) = v {
                            s.w(" =");
                            s.block_inline(v, ind2);
                        }
                    } else {
                        s.w(".. ");
                        s.expr(base2.as_ref().unwrap(), ind2, 3);
                    }
                });
            }
            E::Tuple(es) => {
                let es2 = es.clone();
                self.sep_items(es2.len(), ind, "(", ")", |s, i, ind2| s.expr(&es2[i], ind2, 1));
            }
            E::Array(es) => {
                let es2 = es.clone();
                self.sep_items(es2.len(), ind, "[", "]", |s, i, ind2| s.expr(&es2[i], ind2, 1));
            }
            E::Proj(x, f) => {
                self.expr(x, ind, 3);
                self.w(".");
                self.w(f);
            }
            E::Let(b, body) => {
                self.bind_head(b, ind);
                self.block(&b.rhs, ind);
                self.body(body, ind);
            }
            E::Rec(bs, body) => {
                self.w("rec");
                let n = if self.layout() { bs.len() } else { 1 };
                for b in bs.iter().take(n) {
                    if self.layout() {
                        self.nl(ind);
                    } else {
                        self.w(" ");
                    }
                    self.bind_head(b, ind);
                    self.block(&b.rhs, ind);
                }
                self.body(body, ind);
            }
            E::Type(tbs, body) => {
                if tbs.len() > 1 {
                    self.w("rec");
                }
                for (i, tb) in tbs.iter().enumerate() {
                    if tbs.len() > 1 || i > 0 {
                        if self.layout() {
                            self.nl(ind);
                        } else {
                            self.w(" ");
                        }
                    }
                    self.tybind(tb, ind);
                }
                self.body(body, ind);
            }
            E::Do(p, bound, body) => {
                self.w("do ");
                self.pat(p, false);
                self.w(" =");
                self.block(bound, ind);
                self.body(body, ind);
            }
            E::Seq(bound, body) => {
                self.w("seq ");
                self.expr(bound, ind + self.st.ind, 5);
                self.body(body, ind);
            }
        }
    }

    /// value of a record field: inline, parenthesised when it is an open construct in flat mode
    fn block_inline(&mut self, e: &E, ind: usize) {
        self.w(" ");
        self.expr(e, ind, 1);
    }

    /// the continuation after a declaration: explicit `in` (flat) or a new line at the same column
    fn body(&mut self, body: &E, ind: usize) {
        if self.layout() {
            if self.rng.chance(1, 10) {
                self.nl(ind);
                self.w("in");
            }
            if self.rng.chance(1, 6) {
                self.out.push('\n');
            }
            self.nl(ind);
            self.expr(body, ind, 0);
        } else {
            self.w(" in ");
            self.expr(body, ind, 0);
        }
    }
}

pub fn render(e: &E, st: Style, rng: &mut Rng) -> String {
    let mut p = Printer::new(st, rng);
    p.expr(e, 0, 0);
    p.out.push('\n');
    p.out
}

pub fn styles() -> Vec<(&'static str, Style)> {
    vec![
        ("flat", Style { mode: Mode::Flat, ind: 4, parens: 0, narrow: false, tall: false }),
        ("flat-parens", Style { mode: Mode::Flat, ind: 4, parens: 2, narrow: false, tall: false }),
        ("layout4", Style { mode: Mode::Layout, ind: 4, parens: 0, narrow: false, tall: false }),
        ("layout2-tall", Style { mode: Mode::Layout, ind: 2, parens: 1, narrow: false, tall: true }),
        ("layout4-narrow", Style { mode: Mode::Layout, ind: 4, parens: 0, narrow: true, tall: true }),
        ("layout8", Style { mode: Mode::Layout, ind: 8, parens: 1, narrow: false, tall: false }),
    ]
}
