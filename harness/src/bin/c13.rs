//! C13 — heap isolation: values crossing threads are complete independent copies.
//!
//! Builds a forest of gluon threads (two unrelated VMs, depth <= 3), creates values of every kind
//! in a chosen thread by running Gluon code there, moves them along every route, and after each
//! transfer
//!   (C) compares the received graph (per object: copied or shared, owner heap) with what the
//!       extracted Coq model `Heap/Clone.v` (`coq/extract/c13`) predicts from the dumped source graph,
//!   (1) checks every object of the received graph — and everything any thread can reach — is
//!       owned by the thread's own heap, an ancestor's or the VM's global heap,
//!   (2) checks the received graph is isomorphic to the sent one (shape, sharing, cycles),
//!   (3) drops / collects the sender in several orders with quarantine on and checks that the
//!       received value reaches no freed object and still renders the same.
//!
//! Files in --out: model_in.txt impl_out.txt cases.txt stats.json violations.jsonl
//! Needs hook `gluon_vm::verif::graph` (fixes/hook-graph.patch).
use gluon::vm::api::{Getable, Hole, IO, OpaqueValue, OwnedFunction};
use gluon::vm::thread::RootedValue;
use gluon::{RootedThread, ThreadExt};
use gluon_vm::verif::{self, Graph, GraphEdge};
use gvh::out::{Args, Hist, fnv};
use gvh::rng::Rng;
use std::collections::{BTreeMap, HashMap, HashSet};
use std::io::Write;
use std::panic::{AssertUnwindSafe, catch_unwind};

type Val = OpaqueValue<RootedThread, Hole>;
type RVal = RootedValue<RootedThread>;

// ------------------------------------------------------------------------------------------------
// forest

struct Heap {
    gc: usize,
    parent: Option<usize>,
}

struct Th {
    name: &'static str,
    thread: RootedThread,
    heap: usize,
}

/// heaps: 0 G1 | 1 R | 2 A | 3 B | 4 AA | 5 AB | 6 BA | 7 G2 | 8 U | 9 UA
struct Forest {
    heaps: Vec<Heap>,
    ths: Vec<Th>,
    fns: HashMap<(usize, &'static str), RVal>,
}

const PRELUDE: &str = r#"let _ = import! std.reference
let _ = import! std.channel
let _ = import! std.lazy
let _ = import! std.thread
let _ = import! std.string
let _ = import! std.io
()"#;

fn new_vm() -> RootedThread {
    let vm = gluon::new_vm();
    vm.get_database_mut().run_io(true);
    vm.run_expr::<()>("prelude", PRELUDE).unwrap_or_else(|e| panic!("prelude: {}", e));
    vm
}

impl Forest {
    fn new() -> Forest {
        let r = new_vm();
        let a = r.new_thread().unwrap();
        let b = r.new_thread().unwrap();
        let aa = a.new_thread().unwrap();
        let ab = a.new_thread().unwrap();
        let ba = b.new_thread().unwrap();
        let u = new_vm();
        let ua = u.new_thread().unwrap();
        let mut heaps = vec![];
        let mut ths = vec![];
        heaps.push(Heap { gc: r.verif_global_gc_id(), parent: None });
        let mut add = |name: &'static str, t: RootedThread, parent: usize, heaps: &mut Vec<Heap>| {
            heaps.push(Heap { gc: t.verif_gc_id(), parent: Some(parent) });
            ths.push(Th { name, thread: t, heap: heaps.len() - 1 });
        };
        add("R", r, 0, &mut heaps);
        add("A", a, 1, &mut heaps);
        add("B", b, 1, &mut heaps);
        add("AA", aa, 2, &mut heaps);
        add("AB", ab, 2, &mut heaps);
        add("BA", ba, 3, &mut heaps);
        heaps.push(Heap { gc: u.verif_global_gc_id(), parent: None });
        add("U", u, 7, &mut heaps);
        add("UA", ua, 8, &mut heaps);
        Forest { heaps, ths, fns: HashMap::new() }
    }
    fn tree_field(&self) -> String {
        self.heaps.iter().map(|h| h.parent.map(|p| p.to_string()).unwrap_or("-".into())).collect::<Vec<_>>().join(",")
    }
    fn heap_of_gc(&self, gc: usize) -> Option<usize> {
        self.heaps.iter().position(|h| h.gc == gc)
    }
    /// a is h or an ancestor of h
    fn anc(&self, a: usize, h: usize) -> bool {
        let mut c = Some(h);
        while let Some(x) = c {
            if x == a {
                return true;
            }
            c = self.heaps[x].parent;
        }
        false
    }
    fn root(&self, h: usize) -> usize {
        let mut c = h;
        while let Some(p) = self.heaps[c].parent {
            c = p;
        }
        c
    }
    fn th(&self, name: &str) -> usize {
        self.ths.iter().position(|t| t.name == name).unwrap_or_else(|| panic!("thread {}", name))
    }
    fn rel(&self, s: usize, t: usize) -> &'static str {
        let (hs, ht) = (self.ths[s].heap, self.ths[t].heap);
        if s == t {
            "self"
        } else if self.root(hs) != self.root(ht) {
            "unrelated"
        } else if self.anc(ht, hs) {
            "to-ancestor"
        } else if self.anc(hs, ht) {
            "to-descendant"
        } else {
            "to-other-branch"
        }
    }
    /// A helper function compiled in thread `t` (cached)
    fn helper(&mut self, t: usize, name: &'static str) -> RVal {
        if let Some(v) = self.fns.get(&(t, name)) {
            return v.clone();
        }
        let src = match name {
            "id" => r"\x -> x",
            "send" => "let { send } = import! std.channel\n\\ch v -> send ch.sender v",
            "recv" => "let { recv } = import! std.channel\n\\ch -> recv ch.receiver",
            "set" => "let { (<-) } = import! std.reference\n\\r v -> r <- v",
            "load" => "let { load } = import! std.reference\n\\r -> load r",
            "force" => "let { force } = import! std.lazy\n\\l -> force l",
            _ => panic!("helper {}", name),
        };
        let th = &self.ths[t].thread;
        th.get_database_mut().run_io(false);
        let v = th.run_expr::<Val>(name, src).unwrap_or_else(|e| panic!("helper {}: {}", name, e)).0.into_inner();
        th.get_database_mut().run_io(true);
        self.fns.insert((t, name), v.clone());
        v
    }
}

// ------------------------------------------------------------------------------------------------
// values

#[derive(Clone)]
struct Kind {
    name: String,
    src: String,
}

const HDR: &str = "let { append } = import! std.string\nlet { ref } = import! std.reference\nlet { lazy, force } = import! std.lazy\nlet { wrap, flat_map } = import! std.io\nlet keep a b = b\n";

fn fixed_kinds() -> Vec<Kind> {
    let k = |name: &str, body: &str| Kind { name: name.to_string(), src: format!("{}{}", HDR, body) };
    let mut v = vec![
        k("int", "42"),
        k("float", "1.5"),
        k("string-fresh", "append \"ab\" \"cd\""),
        k("string-literal", "\"lit\""),
        k("record-ints", "{ a = 1, b = 2 }"),
        k("record-mixed", "{ a = append \"x\" \"y\", b = \"lit\", c = 1.5, d = 7b }"),
        k("dag-shared", "let s = { v = append \"p\" \"q\" }\n{ l = s, r = s, n = { deep = s, k = 1 } }"),
        k("variant-list", "type L = | N | C Int L\nC 1 (C 2 (C 3 N))"),
        k("cyclic-variant", "type L = | N | C Int L\nrec let ones = C 1 ones\nones"),
        k(
            "cyclic-records",
            "rec\ntype A = { b : B, k : Int, s : String }\ntype B = { a : A, z : Int }\nrec\nlet x : A = { b = y, k = 1, s = append \"cy\" \"c\" }\nlet y : B = { a = x, z = 2 }\nx",
        ),
        k("closure-upvar-record", "let r = { v = 3 }\n\\x -> x #Int+ r.v"),
        k("closure-nested", "let s = append \"u\" \"p\"\nlet inner = \\x -> keep s x\n\\x -> inner (x #Int+ 1)"),
        k(
            "closure-cycle",
            "let r = { v = 5 }\nrec\nlet f x = if x #Int== 0 then r.v else g (x #Int- 1)\nlet g x = f x\nf",
        ),
        k("closure-no-upvars", "\\x -> x #Int+ 1"),
        k("papp-closure", "let f r b = r.v #Int+ b\nf { v = 1 }"),
        k("papp-extern", "append (append \"x\" \"y\")"),
        k("extern", "append"),
        k("array-int", "[1, 2, 3]"),
        k("array-float", "[1.5, 2.5]"),
        k("array-byte", "[1b, 2b, 3b]"),
        k("array-empty", "let e : Array Int = []\ne"),
        k("array-records", "[{ v = 1 }, { v = 2 }]"),
        k("array-records-shared", "let r = { v = append \"s\" \"h\" }\n[r, r, { v = \"lit\" }]"),
        k("array-strings-literal", "[\"a\", \"b\"]"),
        k("array-strings-fresh", "[append \"a\" \"b\", append \"c\" \"d\"]"),
        k("array-arrays", "[[1], [2, 3]]"),
        k("array-arrays-strings", "[[append \"a\" \"b\"], [\"lit\"]]"),
        k("array-closures", "let r = { v = 1 }\n[\\x -> x #Int+ r.v, \\x -> x]"),
        k("record-of-array-strings", "{ names = [append \"n\" \"1\", append \"n\" \"2\"], n = 2 }"),
        k("reference", "ref { v = 1 }"),
        k("reference-shared-twice", "do r = ref 1\nwrap { a = r, b = r }"),
        k("lazy-thunk", "let r = { v = 1 }\nlazy (\\_ -> r)"),
        k("lazy-forced", "let l = lazy (\\_ -> { v = append \"l\" \"z\" })\nlet _ = force l\nl"),
        k(
            "everything",
            "let s = append \"e\" \"v\"\nlet r = { s, k = 1 }\n{ r, arr = [r, r], f = \\x -> keep r x, p = keep s, strs = [s, \"lit\"], nest = [[1b], [2b]], fl = 2.5 }",
        ),
        k("channel-record", "let { channel } = import! std.channel\nchannel 0"),
    ];
    // hand-picked regression inputs: corpus/C13/*.glu, one value expression each (HDR is prepended)
    let dir = std::path::Path::new(env!("CARGO_MANIFEST_DIR")).join("../corpus/C13");
    let mut extra: Vec<std::path::PathBuf> = std::fs::read_dir(&dir).map(|d| d.flatten().map(|e| e.path()).filter(|p| p.extension().map(|x| x == "glu").unwrap_or(false)).collect()).unwrap_or_default();
    extra.sort();
    for p in extra.into_iter().rev() {
        if let Ok(text) = std::fs::read_to_string(&p) {
            let body: String = text.lines().filter(|l| !l.trim_start().starts_with("//")).collect::<Vec<_>>().join("\n");
            let name = format!("corpus-{}", p.file_stem().unwrap().to_string_lossy());
            v.insert(0, Kind { name, src: format!("{}{}", HDR, body.trim_end()) });
        }
    }
    v
}

// A small typed generator of value expressions with let-bound sharing.
#[derive(Clone, Debug, PartialEq)]
enum Ty {
    Int,
    Float,
    Byte,
    Str,
    Rec(Vec<Ty>),
    Arr(Box<Ty>),
    Fun,
    Opt(Box<Ty>),
}

fn gen_ty(rng: &mut Rng, depth: u32) -> Ty {
    let n = if depth == 0 { 4 } else { 8 };
    match rng.below(n) {
        0 => Ty::Int,
        1 => Ty::Str,
        2 => Ty::Float,
        3 => Ty::Byte,
        4 => Ty::Rec((0..1 + rng.below(3)).map(|_| gen_ty(rng, depth - 1)).collect()),
        5 => Ty::Arr(Box::new(gen_ty(rng, depth - 1))),
        6 => Ty::Fun,
        _ => Ty::Opt(Box::new(gen_ty(rng, depth - 1))),
    }
}

struct ValGen<'a> {
    rng: &'a mut Rng,
    binds: Vec<(String, Ty, String)>,
}

impl<'a> ValGen<'a> {
    fn var_of(&mut self, ty: &Ty) -> Option<String> {
        let c: Vec<&String> = self.binds.iter().filter(|(_, t, _)| t == ty).map(|(n, _, _)| n).collect();
        if c.is_empty() { None } else { Some((*self.rng.pick(&c)).clone()) }
    }
    fn any_var(&mut self) -> Option<String> {
        if self.binds.is_empty() { None } else { Some(self.binds[self.rng.below(self.binds.len() as u64) as usize].0.clone()) }
    }
    /// an expression of type `ty`; compound values are let-bound so that later values can share them
    fn expr(&mut self, ty: &Ty) -> String {
        if self.rng.chance(1, 3) {
            if let Some(v) = self.var_of(ty) {
                return v;
            }
        }
        let e = match ty {
            Ty::Int => return format!("{}", self.rng.range(-5, 50)),
            Ty::Float => return format!("{}.5", self.rng.range(0, 9)),
            Ty::Byte => return format!("{}b", self.rng.range(0, 200)),
            Ty::Str => {
                if self.rng.chance(1, 3) {
                    return format!("\"l{}\"", self.rng.below(5));
                }
                format!("append \"f{}\" \"g{}\"", self.rng.below(9), self.rng.below(9))
            }
            Ty::Rec(fs) => {
                let parts: Vec<String> = fs.iter().enumerate().map(|(i, t)| format!("f{} = {}", i, self.expr(t))).collect();
                format!("{{ {} }}", parts.join(", "))
            }
            Ty::Arr(t) => {
                let n = self.rng.below(4);
                if n == 0 {
                    // an empty array needs its type spelled out; use a one element array instead
                    format!("[{}]", self.expr(t))
                } else {
                    let parts: Vec<String> = (0..n).map(|_| self.expr(t)).collect();
                    format!("[{}]", parts.join(", "))
                }
            }
            Ty::Fun => match self.any_var() {
                Some(v) => {
                    if self.rng.chance(1, 3) {
                        format!("keep {}", v)
                    } else {
                        format!("\\x -> keep {} (x #Int+ 1)", v)
                    }
                }
                None => "\\x -> x #Int+ 1".to_string(),
            },
            Ty::Opt(t) => {
                if self.rng.chance(1, 4) {
                    return "No".to_string();
                }
                format!("So ({})", self.expr(t))
            }
        };
        let name = format!("v{}", self.binds.len());
        self.binds.push((name.clone(), ty.clone(), e));
        name
    }
}

fn random_kind(rng: &mut Rng, idx: usize) -> Kind {
    let mut g = ValGen { rng, binds: vec![] };
    let n = 2 + g.rng.below(4);
    let mut outs = vec![];
    for _ in 0..n {
        let d = 1 + g.rng.below(3) as u32;
        let ty = gen_ty(g.rng, d);
        outs.push(g.expr(&ty));
    }
    let mut src = String::from(HDR);
    src.push_str("type O a = | No | So a\n");
    for (n, _, e) in &g.binds {
        src.push_str(&format!("let {} = {}\n", n, e));
    }
    let fields: Vec<String> = outs.iter().enumerate().map(|(i, e)| format!("o{} = {}", i, e)).collect();
    src.push_str(&format!("{{ {} }}", fields.join(", ")));
    Kind { name: format!("random-{}", idx), src }
}

// ------------------------------------------------------------------------------------------------
// graphs

fn model_kind(kind: &str) -> u8 {
    match kind {
        "data" => 0,
        "closure" => 1,
        "papp" => 2,
        "array:unknown" => 3,
        "array:array" => 4,
        "array:string" => 5,
        "array:byte" | "array:int" | "array:float" => 6,
        "array:userdata" => 7,
        "string" => 8,
        "extern" => 9,
        "bytecode" => 10,
        "reference" | "lazy:thunk" | "lazy:value" => 11,
        _ => 12,
    }
}

#[derive(Default)]
struct Intern(HashMap<String, usize>);
impl Intern {
    fn id(&mut self, s: &str) -> usize {
        let n = self.0.len() + 1;
        *self.0.entry(s.to_string()).or_insert(n)
    }
}

fn esc(s: &str) -> String {
    s.chars().map(|c| if c.is_ascii_alphanumeric() || "_-:./{}, ".contains(c) { c.to_string() } else { format!("%{:02x}", c as u32) }).collect()
}

/// Shape of a graph: nodes named by first visit, kinds, payload, immediates; no addresses, no
/// owners.  Extern functions are immutable leaves without observable identity: rendered inline.
fn shape(g: &Graph) -> String {
    let idx: HashMap<usize, usize> = g.nodes.iter().enumerate().map(|(i, n)| (n.addr, i)).collect();
    let mut names: HashMap<usize, String> = HashMap::new();
    let mut k = 0;
    for n in &g.nodes {
        if n.kind != "extern" {
            names.insert(n.addr, format!("n{}", k));
            k += 1;
        }
    }
    let edge = |e: &GraphEdge| -> String {
        match e {
            GraphEdge::Imm(s) => s.clone(),
            GraphEdge::Ptr(a) => match idx.get(a) {
                Some(i) if g.nodes[*i].kind == "extern" => format!("<extern {}>", g.nodes[*i].label),
                Some(_) => names[a].clone(),
                None => "<?>".into(),
            },
        }
    };
    let mut s = format!("root={}", edge(&g.root));
    for n in &g.nodes {
        if n.kind == "extern" {
            continue;
        }
        if n.freed {
            s.push_str(&format!(" | {}:FREED", names[&n.addr]));
            continue;
        }
        let es: Vec<String> = n.edges.iter().map(|e| edge(e)).collect();
        s.push_str(&format!(" | {}:{}#{}({})", names[&n.addr], n.kind, esc(&n.label), es.join(",")));
    }
    s
}

/// The source graph as the model's input objects.
fn model_objs(f: &Forest, g: &Graph, it: &mut Intern) -> Result<String, String> {
    let idx: HashMap<usize, usize> = g.nodes.iter().enumerate().map(|(i, n)| (n.addr, i)).collect();
    let mut objs = vec![];
    for n in &g.nodes {
        if n.freed {
            return Err(format!("source graph reaches a freed object {:#x}", n.addr));
        }
        let owner = f.heap_of_gc(n.owner).ok_or_else(|| format!("source object {:#x} ({}) has an unknown owner {:#x}", n.addr, n.kind, n.owner))?;
        let cell = if n.cell_heap != 0 { f.heap_of_gc(n.cell_heap).unwrap_or(0) } else { 0 };
        let es: Vec<String> = n
            .edges
            .iter()
            .map(|e| match e {
                GraphEdge::Imm(s) => format!("i{}", it.id(s)),
                GraphEdge::Ptr(a) => format!("p{}", idx[a]),
            })
            .collect();
        objs.push(format!(
            "{}:{}:{}:{}:{}:{}",
            owner,
            n.generation,
            model_kind(&n.kind),
            it.id(&format!("{}|{}", n.kind, n.label)),
            cell,
            if es.is_empty() { "-".to_string() } else { es.join(".") }
        ));
    }
    Ok(objs.join("|"))
}

fn edge_model(e: &GraphEdge, src_idx: &HashMap<usize, usize>, it: &mut Intern) -> String {
    match e {
        GraphEdge::Imm(s) => format!("i{}", it.id(s)),
        GraphEdge::Ptr(a) => format!("p{}", src_idx[a]),
    }
}

/// The received graph in the model's output format (relative to the source graph).
fn render_rel(f: &Forest, src: &Graph, dst: &Graph, it: &mut Intern) -> String {
    let src_idx: HashMap<usize, usize> = src.nodes.iter().enumerate().map(|(i, n)| (n.addr, i)).collect();
    let mut names: HashMap<usize, String> = HashMap::new();
    let mut k = 0;
    for n in &dst.nodes {
        match src_idx.get(&n.addr) {
            Some(i) => names.insert(n.addr, format!("s{}", i)),
            None => {
                k += 1;
                names.insert(n.addr, format!("n{}", k - 1))
            }
        };
    }
    let mut edge = |e: &GraphEdge, it: &mut Intern| -> String {
        match e {
            GraphEdge::Imm(s) => format!("i{}", it.id(s)),
            GraphEdge::Ptr(a) => names.get(a).cloned().unwrap_or("?".into()),
        }
    };
    let mut s = format!("ok root={}", edge(&dst.root, it));
    for n in &dst.nodes {
        if n.freed {
            s.push_str(&format!(" | {}:freed", names[&n.addr]));
            continue;
        }
        let es: Vec<String> = n.edges.iter().map(|e| edge(e, it)).collect();
        let owner = f.heap_of_gc(n.owner).map(|h| h.to_string()).unwrap_or(format!("?{:x}", n.owner));
        let mk = model_kind(&n.kind);
        let cell = if mk == 11 { f.heap_of_gc(n.cell_heap).unwrap_or(0) } else { 0 };
        s.push_str(&format!(" | {}:{}@{}#{}~{}({})", names[&n.addr], mk, owner, it.id(&format!("{}|{}", n.kind, n.label)), cell, es.join(",")));
    }
    s
}

// ------------------------------------------------------------------------------------------------
// cases

#[derive(Clone, Debug)]
enum Route {
    Reroot,
    Push,
    Chan(usize),
    Ref(usize),
}
impl Route {
    fn name(&self, f: &Forest) -> String {
        match self {
            Route::Reroot => "reroot".into(),
            Route::Push => "push".into(),
            Route::Chan(x) => format!("chan:{}", f.ths[*x].name),
            Route::Ref(x) => format!("ref:{}", f.ths[*x].name),
        }
    }
    fn family(&self) -> &'static str {
        match self {
            Route::Reroot => "reroot",
            Route::Push => "push",
            Route::Chan(_) => "chan",
            Route::Ref(_) => "ref",
        }
    }
}

#[derive(Clone)]
struct Case {
    kind: Kind,
    s: usize,
    t: usize,
    route: Route,
    order: u8,
}

struct Out {
    model_in: std::io::BufWriter<std::fs::File>,
    impl_out: std::io::BufWriter<std::fs::File>,
    cases: std::io::BufWriter<std::fs::File>,
    viol: std::io::BufWriter<std::fs::File>,
    hist: Hist,
    distinct: HashSet<u64>,
    n: u64,
    nviol: u64,
    seen_viol: HashSet<String>,
    /// objects already reported by the graph checks of the current case (the thread walks
    /// then only report what the graph of the received value did not already explain)
    explained: HashSet<usize>,
}

impl Out {
    fn violation(&mut self, key: &str, what: &str, case: &serde_json::Value, expected: &str, observed: &str) {
        self.nviol += 1;
        self.hist.add(&format!("violation:{}", key));
        // one replay per key is enough; the histogram keeps the count
        if !self.seen_viol.insert(key.to_string()) {
            return;
        }
        let v = serde_json::json!({"key": key, "what": what, "case": case, "expected": expected, "observed": observed});
        writeln!(self.viol, "{}", v).unwrap();
        self.viol.flush().unwrap();
    }
    fn emit(&mut self, model_in: &str, impl_out: &str, case: &serde_json::Value) {
        writeln!(self.model_in, "{}", model_in).unwrap();
        writeln!(self.impl_out, "{}", impl_out).unwrap();
        writeln!(self.cases, "{}", case).unwrap();
        self.n += 1;
        self.distinct.insert(fnv(model_in.as_bytes()));
    }
    fn flush(&mut self) {
        self.model_in.flush().unwrap();
        self.impl_out.flush().unwrap();
        self.cases.flush().unwrap();
        self.viol.flush().unwrap();
    }
}

fn make_value(f: &Forest, s: usize, kind: &Kind) -> Result<RVal, String> {
    f.ths[s].thread.run_expr::<Val>("value", &kind.src).map(|(v, _)| v.into_inner()).map_err(|e| format!("{}", e))
}

fn call1(f: &RVal, a: RVal) -> Result<RVal, String> {
    let mut fun: OwnedFunction<fn(Val) -> IO<Val>> = OwnedFunction::from_value(f.vm(), f.get_variant());
    match fun.call(Val::from_value(a)) {
        Ok(IO::Value(v)) => Ok(v.into_inner()),
        Ok(IO::Exception(e)) => Err(e),
        Err(e) => Err(format!("{}", e)),
    }
}
fn call1_pure(f: &RVal, a: RVal) -> Result<RVal, String> {
    let mut fun: OwnedFunction<fn(Val) -> Val> = OwnedFunction::from_value(f.vm(), f.get_variant());
    fun.call(Val::from_value(a)).map(|v| v.into_inner()).map_err(|e| format!("{}", e))
}
fn call2(f: &RVal, a: RVal, b: RVal) -> Result<RVal, String> {
    let mut fun: OwnedFunction<fn(Val, Val) -> IO<Val>> = OwnedFunction::from_value(f.vm(), f.get_variant());
    match fun.call(Val::from_value(a), Val::from_value(b)) {
        Ok(IO::Value(v)) => Ok(v.into_inner()),
        Ok(IO::Exception(e)) => Err(e),
        Err(e) => Err(format!("{}", e)),
    }
}

fn variant_tag(v: &RVal) -> Option<u32> {
    match v.get_variant().as_ref() {
        gluon::vm::api::ValueRef::Data(d) => Some(d.tag()),
        _ => None,
    }
}

/// Performs the transfer; returns the received handle (rooted in thread t) and the model route.
fn transfer(f: &mut Forest, c: &Case, v: &RVal) -> (Result<RVal, String>, String) {
    let hs = f.ths[c.s].heap;
    let ht = f.ths[c.t].heap;
    match &c.route {
        Route::Reroot => (v.re_root(f.ths[c.t].thread.clone()).map_err(|e| format!("{}", e)), format!("reroot:{}:{}", hs, ht)),
        Route::Push => {
            let id = f.helper(c.t, "id");
            (call1_pure(&id, v.clone()), format!("reroot:{}:{}", hs, ht))
        }
        Route::Chan(x) => {
            let hx = f.ths[*x].heap;
            let r = (|| {
                let ch = f.ths[*x].thread.run_expr::<Val>("mkch", "let { channel } = import! std.channel\nchannel 0").map_err(|e| format!("{}", e))?.0.into_inner();
                let send = f.helper(c.s, "send");
                // Result e t = | Err e | Ok t  (send answers `Err ()` when the value cannot be cloned)
                let sent = call2(&send, ch.clone(), v.clone())?;
                if variant_tag(&sent) != Some(1) {
                    return Err("send: Err ()".to_string());
                }
                let recv = f.helper(c.t, "recv");
                let res = call1(&recv, ch)?;
                if variant_tag(&res) != Some(1) {
                    return Err("recv: channel empty".to_string());
                }
                res.get(0).ok_or_else(|| "recv: no payload".to_string())
            })();
            (r, format!("cell:{}", hx))
        }
        Route::Ref(x) => {
            let hx = f.ths[*x].heap;
            let r = (|| {
                let rf = f.ths[*x].thread.run_expr::<Val>("mkref", "let { ref } = import! std.reference\nref 0").map_err(|e| format!("{}", e))?.0.into_inner();
                let set = f.helper(c.s, "set");
                call2(&set, rf.clone(), v.clone())?;
                let load = f.helper(c.t, "load");
                call1(&load, rf)
            })();
            (r, format!("cell:{}", hx))
        }
    }
}

/// (1) every object of `g` is owned by an ancestor-or-self heap of `h`.
fn check_owned(f: &Forest, g: &Graph, h: usize, rel: &str, case: &serde_json::Value, out: &mut Out, when: &str) {
    let idx: HashMap<usize, usize> = g.nodes.iter().enumerate().map(|(i, n)| (n.addr, i)).collect();
    let mut parent_kind: HashMap<usize, String> = HashMap::new();
    for n in &g.nodes {
        for e in &n.edges {
            if let GraphEdge::Ptr(a) = e {
                parent_kind.entry(*a).or_insert(n.kind.clone());
            }
        }
    }
    for n in &g.nodes {
        if n.freed {
            out.explained.insert(n.addr);
            let via = parent_kind.get(&n.addr).cloned().unwrap_or("root".into());
            out.violation(
                &format!("c13:dangling:{}:{}:{}", rel, via, when),
                &format!("after {} the received value reaches a FREED object (through a {}) — it was not an independent copy", when, via),
                case,
                "no freed object reachable from the received value",
                &format!("freed object {:#x}", n.addr),
            );
            continue;
        }
        let ok = match f.heap_of_gc(n.owner) {
            Some(o) => f.anc(o, h),
            None => n.kind == "thread",
        };
        if !ok {
            out.explained.insert(n.addr);
            let via = parent_kind.get(&n.addr).cloned().unwrap_or("root".into());
            let owner = f.heap_of_gc(n.owner).map(|o| format!("heap {}", o)).unwrap_or(format!("unknown heap {:#x}", n.owner));
            out.violation(
                &format!("c13:owner:{}:{}:{}", rel, n.kind, via),
                &format!(
                    "a value received in heap {} ({}) holds a pointer to a `{}` object (field of a `{}`) owned by {}, which is neither the receiver's heap nor one of its ancestors",
                    h, rel, n.kind, via, owner
                ),
                case,
                &format!("owner in ancestors-or-self of heap {}", h),
                &owner,
            );
        }
        // interned strings the object's TypeInfo refers to (field names, variant name)
        for (a, o, freed) in &n.names {
            if *freed {
                out.violation(
                    &format!("c13:dangling-name:{}:{}:{}", rel, n.kind, when),
                    &format!("after {} the field/constructor names of a received `{}` are FREED interned strings (they live in the sender VM's heap): any lookup by name is a use after free", when, n.kind),
                    case,
                    "names interned in the receiver's VM",
                    &format!("freed interned string {:#x}", a),
                );
            } else {
                let ok = f.heap_of_gc(*o).map(|o| f.anc(o, h)).unwrap_or(false);
                if !ok {
                    let owner = f.heap_of_gc(*o).map(|o| format!("heap {}", o)).unwrap_or(format!("unknown heap {:#x}", o));
                    out.violation(
                        &format!("c13:owner:{}:field-name:{}", rel, n.kind),
                        &format!("the field/constructor names of a `{}` received in heap {} ({}) are interned strings owned by {} — not the receiver's VM", n.kind, h, rel, owner),
                        case,
                        &format!("owner in ancestors-or-self of heap {}", h),
                        &owner,
                    );
                }
            }
        }
        // a cell must clone incoming values into its owner's heap (or an ancestor of it)
        if n.cell_heap != 0 {
            if let (Some(o), Some(c)) = (f.heap_of_gc(n.owner), f.heap_of_gc(n.cell_heap)) {
                if !f.anc(c, o) {
                    out.violation(
                        &format!("c13:cell-heap:{}:{}", rel, n.kind),
                        &format!("a `{}` owned by heap {} stores incoming values into the younger heap {}: the next store creates an old-to-young pointer", n.kind, o, c),
                        case,
                        "cell thread's heap is the cell's owner or an ancestor",
                        &format!("owner {} cell_heap {}", o, c),
                    );
                }
            }
        }
        let _ = idx;
    }
    // every edge goes from a heap to the same heap or an ancestor (no old-to-young pointer)
    for n in &g.nodes {
        if n.freed {
            continue;
        }
        for e in &n.edges {
            if let GraphEdge::Ptr(a) = e {
                if let Some(m) = idx.get(a).map(|i| &g.nodes[*i]) {
                    if let (Some(on), Some(om)) = (f.heap_of_gc(n.owner), f.heap_of_gc(m.owner)) {
                        if !m.freed && !f.anc(om, on) {
                            out.violation(
                                &format!("c13:edge:{}:{}->{}", rel, n.kind, m.kind),
                                &format!("a `{}` in heap {} points to a `{}` in heap {}, which is not heap {} or an ancestor of it", n.kind, on, m.kind, om, on),
                                case,
                                "pointers only into the own heap or an ancestor's",
                                &format!("{} -> {}", on, om),
                            );
                        }
                    }
                }
            }
        }
    }
}

/// Everything each thread can reach from its own roots lives in its heap, an ancestor's or the
/// global heap (hook verif_walk).
fn check_walks(f: &Forest, case: &serde_json::Value, out: &mut Out, when: &str) {
    for th in &f.ths {
        let nodes = th.thread.verif_walk();
        for n in nodes {
            if n.is_thread || out.explained.contains(&n.addr) {
                continue;
            }
            if n.freed {
                out.violation(
                    &format!("c13:walk-freed:{}", when),
                    &format!("thread {} reaches a freed object from its roots ({})", th.name, when),
                    case,
                    "no freed object reachable",
                    &format!("{:#x}", n.addr),
                );
                continue;
            }
            let ok = f.heap_of_gc(n.owner).map(|o| f.anc(o, th.heap)).unwrap_or(false);
            if !ok {
                let owner = f.heap_of_gc(n.owner).map(|o| format!("heap {}", o)).unwrap_or(format!("unknown heap {:#x}", n.owner));
                out.violation(
                    &format!("c13:walk-owner:{}", when),
                    &format!("thread {} (heap {}) reaches an object owned by {} ({})", th.name, th.heap, owner, when),
                    case,
                    "owner in ancestors-or-self",
                    &owner,
                );
            }
        }
    }
}

fn run_case(f: &mut Forest, c: &Case, it: &mut Intern, out: &mut Out, full_walk: bool) {
    let rel = f.rel(c.s, c.t);
    let case = serde_json::json!({
        "kind": c.kind.name, "src": c.kind.src, "s": f.ths[c.s].name, "t": f.ths[c.t].name,
        "route": c.route.name(f), "order": c.order, "rel": rel,
    });
    out.explained.clear();
    out.hist.add(&format!("route:{}", c.route.family()));
    out.hist.add(&format!("rel:{}", rel));
    out.hist.add(&format!("kind:{}", if c.kind.name.starts_with("random") { "random" } else { &c.kind.name }));
    let v = match make_value(f, c.s, &c.kind) {
        Ok(v) => v,
        Err(e) => {
            out.emit("skip", &format!("value-error {}", e.replace('\n', " | ")), &case);
            return;
        }
    };
    let g_src = verif::graph(v.get_value());
    let objs = match model_objs(f, &g_src, it) {
        Ok(o) => o,
        Err(e) => {
            out.emit("skip", &format!("source-error {}", e), &case);
            return;
        }
    };
    let src_idx: HashMap<usize, usize> = g_src.nodes.iter().enumerate().map(|(i, n)| (n.addr, i)).collect();
    let root = edge_model(&g_src.root, &src_idx, it);
    out.hist.add(&format!("src-nodes:{}", g_src.nodes.len().min(12)));
    let (w, mroute) = transfer(f, c, &v);
    let model_in = format!("tree={};objs={};route={};root={}", f.tree_field(), if objs.is_empty() { "0:0:12:0:0:-".to_string() } else { objs }, mroute, root);
    let w = match w {
        Ok(w) => w,
        Err(e) => {
            out.hist.add("impl:err");
            let _ = e;
            out.emit(&model_in, "err", &case);
            return;
        }
    };
    out.hist.add("impl:ok");
    let g_dst = verif::graph(w.get_value());
    out.emit(&model_in, &render_rel(f, &g_src, &g_dst, it), &case);
    let copied = g_dst.nodes.iter().filter(|n| !src_idx.contains_key(&n.addr)).count();
    out.hist.add(if copied == 0 { "copied:0" } else if copied == g_dst.nodes.len() { "copied:all" } else { "copied:some" });

    // (1) ownership
    let ht = f.ths[c.t].heap;
    check_owned(f, &g_dst, ht, rel, &case, out, "transfer");
    // (2) isomorphic
    let (sh_src, sh_dst) = (shape(&g_src), shape(&g_dst));
    if sh_src != sh_dst {
        out.violation(
            &format!("c13:shape:{}:{}", c.route.family(), c.kind.name.trim_start_matches("corpus-").split('-').next().unwrap_or("?")),
            "the received value is not structurally equal (shape, sharing, cycles) to the sent one",
            &case,
            &sh_src,
            &sh_dst,
        );
    }
    // (2') a received record answers lookups by field name (what `RootedValue::get_field` and
    // every `Getable` for records rely on)
    if let Some(n) = g_dst.nodes.first() {
        if GraphEdge::Ptr(n.addr) == g_dst.root && n.label.starts_with("record {") {
            let names: Vec<&str> = n.label["record {".len()..n.label.len() - 1].split(',').filter(|x| !x.is_empty()).collect();
            for name in names {
                if w.get_field(name).is_none() {
                    out.violation(
                        &format!("c13:field-lookup:{}", rel),
                        &format!("the received record has a field `{}` but looking it up by name in the receiving thread finds nothing", name),
                        &case,
                        &format!("get_field(\"{}\") = Some(..)", name),
                        "None",
                    );
                    break;
                }
            }
        }
    }
    if full_walk {
        check_walks(f, &case, out, "after-transfer");
    }
    // (3) the received value survives the sender
    let _ = verif::take_events();
    let order = match c.order {
        0 => "drop-handle,collect-sender,collect-receiver",
        1 => "collect-receiver,drop-handle,collect-sender-root",
        _ => "drop-handle,collect-all-leaf-to-root",
    };
    match c.order {
        0 => {
            drop(v);
            f.ths[c.s].thread.collect();
            f.ths[c.t].thread.collect();
        }
        1 => {
            f.ths[c.t].thread.collect();
            drop(v);
            let rs = f.root(f.ths[c.s].heap);
            for th in &f.ths {
                if f.heaps[th.heap].parent == Some(rs) {
                    th.thread.collect();
                }
            }
        }
        _ => {
            drop(v);
            for th in f.ths.iter().rev() {
                th.thread.collect();
            }
        }
    }
    let ev = verif::take_events();
    if !ev.is_empty() {
        out.violation(
            &format!("c13:collect-reached-freed:{}", rel),
            "a collection after the transfer reached a freed object",
            &case,
            "no event",
            &ev.join(" ; "),
        );
    }
    let g_after = verif::graph(w.get_value());
    check_owned(f, &g_after, ht, rel, &case, out, order);
    let sh_after = shape(&g_after);
    if sh_after != sh_dst && !g_after.nodes.iter().any(|n| n.freed) {
        out.violation(
            &format!("c13:changed-after-sender-collect:{}", rel),
            "the received value renders differently after the sender was collected",
            &case,
            &sh_dst,
            &sh_after,
        );
    }
    if full_walk {
        check_walks(f, &case, out, "after-collect");
    }
}

fn case_list(f: &Forest, args: &Args) -> Vec<Case> {
    let mut rng = Rng::new(args.seed);
    let mut kinds = fixed_kinds();
    let nrand = if args.thorough() { 300 } else { 40 };
    for i in 0..nrand {
        kinds.push(random_kind(&mut rng, i));
    }
    let nt = f.ths.len();
    let mut cases = vec![];
    let mut ord = 0u8;
    // host routes: every ordered pair of threads, every kind
    for (ki, kind) in kinds.iter().enumerate() {
        for s in 0..nt {
            for t in 0..nt {
                // quick: all pairs for fixed kinds, a third of the pairs for random ones
                if !args.thorough() && kind.name.starts_with("random") && (s * nt + t + ki) % 3 != 0 {
                    continue;
                }
                let route = if (s + t + ki) % 2 == 0 { Route::Reroot } else { Route::Push };
                ord = (ord + 1) % 3;
                cases.push(Case { kind: kind.clone(), s, t, route: route.clone(), order: ord });
                if args.thorough() {
                    let other = if matches!(route, Route::Reroot) { Route::Push } else { Route::Reroot };
                    cases.push(Case { kind: kind.clone(), s, t, route: other, order: (ord + 1) % 3 });
                }
            }
        }
    }
    // cells: owner x is an ancestor-or-self of both the storing and the loading thread
    for (ki, kind) in kinds.iter().enumerate() {
        for x in 0..nt {
            for s in 0..nt {
                for t in 0..nt {
                    if !(f.anc(f.ths[x].heap, f.ths[s].heap) && f.anc(f.ths[x].heap, f.ths[t].heap)) {
                        continue;
                    }
                    if !args.thorough() && (x + s * 3 + t * 5 + ki) % 4 != 0 {
                        continue;
                    }
                    ord = (ord + 1) % 3;
                    let route = if (x + s + t + ki) % 2 == 0 { Route::Chan(x) } else { Route::Ref(x) };
                    cases.push(Case { kind: kind.clone(), s, t, route, order: ord });
                }
            }
        }
    }
    cases
}

// ------------------------------------------------------------------------------------------------
// scenarios without a model line: lazy force, module promotion, spawn, spawn_on, whole-VM drop

/// Scenario bookkeeping: every scenario unit announces itself (progress file) before it starts, so
/// that a death of the process is attributed to the exact unit, and a restarted child skips the
/// units already done.  The class of a unit that exercises an OPEN known finding carries the
/// finding's name (`module-cell`, `vm-drop-closure`, `vm-drop-record`).
struct Scen {
    next: usize,
    start: usize,
    progress: std::path::PathBuf,
}
static SCEN: std::sync::Mutex<Option<Scen>> = std::sync::Mutex::new(None);

/// Returns false when the unit was already done by an earlier child.
fn scen_begin(class: &str) -> bool {
    let mut g = SCEN.lock().unwrap();
    match g.as_mut() {
        Some(sc) => {
            let n = sc.next;
            sc.next += 1;
            if n < sc.start {
                return false;
            }
            std::fs::write(&sc.progress, format!("scenario {} {}", n, class)).ok();
            // self-test of the attribution: C13_TEST_ABORT=<class> kills the process in the first unit of that class
            if std::env::var("C13_TEST_ABORT").map(|c| c == class).unwrap_or(false) && !sc.progress.with_file_name("test_abort_done").exists() {
                std::fs::write(sc.progress.with_file_name("test_abort_done"), "x").ok();
                std::process::abort();
            }
            true
        }
        None => true,
    }
}
/// The class of the unit in progress is known better now (same unit number).
fn scen_reclass(class: &str) {
    let g = SCEN.lock().unwrap();
    if let Some(sc) = g.as_ref() {
        std::fs::write(&sc.progress, format!("scenario {} {}", sc.next - 1, class)).ok();
        if std::env::var("C13_TEST_ABORT").map(|c| c == class).unwrap_or(false) && !sc.progress.with_file_name("test_abort_done").exists() {
            std::fs::write(sc.progress.with_file_name("test_abort_done"), "x").ok();
            std::process::abort();
        }
    }
}

fn is_cell_kind(name: &str) -> bool {
    name.starts_with("reference") || name.starts_with("lazy") || name.starts_with("corpus-reference")
}

fn scenario_json(name: &str, detail: &str) -> serde_json::Value {
    serde_json::json!({"scenario": name, "detail": detail})
}

/// module promotion: the value of a module is cloned into the global heap.  `cells`: only the kinds
/// whose value is a Reference / Lazy (the open known finding), or only the others.
fn module_promotions(f: &mut Forest, out: &mut Out, args: &Args, cells: bool) {
    let kinds = fixed_kinds();
    for (i, kind) in kinds.iter().enumerate() {
        if kind.name == "channel-record" || is_cell_kind(&kind.name) != cells {
            continue;
        }
        for tn in ["R", "A", "AA"] {
            if !args.thorough() && tn != "R" && i % 3 != 0 {
                continue;
            }
            if !scen_begin(if cells { "module-cell" } else { "module-promotion" }) {
                continue;
            }
            let ti = f.th(tn);
            let module = format!("c13mod_{}_{}", tn.to_lowercase(), i);
            let case = scenario_json("module-promotion", &format!("module {} = {} loaded by thread {}", module, kind.name, tn));
            out.hist.add("scenario:module-promotion");
            let th = f.ths[ti].thread.clone();
            if let Err(e) = th.load_script(&module, &kind.src) {
                out.violation("c13:scenario-error:load-script", "load_script failed", &case, "ok", &format!("{}", e));
                continue;
            }
            match th.get_global::<OpaqueValue<&gluon::Thread, Hole>>(&module) {
                Ok(v) => {
                    let g = verif::graph(v.get_value());
                    let hroot = f.root(f.ths[ti].heap);
                    check_owned(f, &g, hroot, "module", &case, out, "promotion");
                    out.n += 1;
                }
                Err(e) => out.violation("c13:scenario-error:get-global", "get_global failed", &case, "ok", &format!("{}", e)),
            }
        }
    }
}

fn scenarios(f: &mut Forest, out: &mut Out, args: &Args) {
    let kinds = fixed_kinds();
    // --- lazy force: lazy owned by x, forced in a descendant s; the result is cloned into x's heap
    for (x, s) in [("R", "A"), ("R", "AA"), ("A", "AB"), ("A", "A"), ("U", "UA")] {
        let (xi, si) = (f.th(x), f.th(s));
        for body in ["{ v = append \"l\" \"z\", w = [append \"a\" \"b\"] }", "let r = { v = 1 } in { f = \\y -> keep r y, r }", "[[1], [2]]"] {
            if !scen_begin("lazy-force") {
                continue;
            }
            let case = scenario_json("lazy-force", &format!("lazy in {} forced in {}: {}", x, s, body));
            out.hist.add("scenario:lazy-force");
            let src = format!("{}lazy (\\_ -> {})", HDR, body);
            let l = match f.ths[xi].thread.run_expr::<Val>("mklazy", &src) {
                Ok(v) => v.0.into_inner(),
                Err(e) => {
                    out.violation("c13:scenario-error:lazy", "could not build the lazy value", &case, "ok", &format!("{}", e));
                    continue;
                }
            };
            let force = f.helper(si, "force");
            let forced = call1_pure(&force, l.clone());
            match forced {
                Ok(w) => {
                    let gl = verif::graph(l.get_value());
                    check_owned(f, &gl, f.ths[xi].heap, "lazy-cell", &case, out, "force");
                    let gw = verif::graph(w.get_value());
                    check_owned(f, &gw, f.ths[si].heap, "lazy-result", &case, out, "force");
                    f.ths[si].thread.collect();
                    f.ths[xi].thread.collect();
                    let gl2 = verif::graph(l.get_value());
                    check_owned(f, &gl2, f.ths[xi].heap, "lazy-cell", &case, out, "force,collect-forcer,collect-owner");
                    if shape(&gl) != shape(&gl2) {
                        out.violation("c13:lazy-changed", "a forced lazy value renders differently after collections", &case, &shape(&gl), &shape(&gl2));
                    }
                    out.n += 1;
                }
                Err(e) => out.violation("c13:scenario-error:lazy-force", "force failed", &case, "ok", &e),
            }
        }
    }
    module_promotions(f, out, args, false);
    // --- spawn: the action is shared with the child; the child sends fresh values to the parent's channel
    if scen_begin("spawn") {
        let case = scenario_json("spawn", "parent A spawns a child that sends a fresh record through A's channel");
        out.hist.add("scenario:spawn");
        let src = format!(
            "{}let {{ channel, send, recv }} = import! std.channel\nlet {{ spawn, resume }} = import! std.thread\nlet payload = {{ s = append \"sp\" \"awn\", arr = [append \"x\" \"y\"] }}\ndo ch = channel {{ fresh = \"\", payload }}\ndo child = spawn (\n        do _ = send ch.sender {{ fresh = append \"from\" \"child\", payload }}\n        wrap ())\ndo _ = resume child\ndo r = recv ch.receiver\nwrap {{ r, child }}",
            HDR
        );
        let ai = f.th("A");
        match f.ths[ai].thread.run_expr::<Val>("spawn", &src) {
            Ok((v, _)) => {
                let v = v.into_inner();
                let g = verif::graph(v.get_value());
                check_owned(f, &g, f.ths[ai].heap, "spawn", &case, out, "spawn+send");
                f.ths[ai].thread.collect();
                let g2 = verif::graph(v.get_value());
                check_owned(f, &g2, f.ths[ai].heap, "spawn", &case, out, "spawn+send,collect-parent");
                if shape(&g) != shape(&g2) {
                    out.violation("c13:spawn-changed", "value received from a spawned child changed after a collection", &case, &shape(&g), &shape(&g2));
                }
                out.n += 1;
            }
            Err(e) => out.violation("c13:scenario-error:spawn", "spawn scenario failed", &case, "ok", &format!("{}", e)),
        }
        check_walks(f, &case, out, "after-spawn");
    }
    // --- spawn_on: the action (allocated by the caller) is run by another thread
    for (caller, target) in [("A", "AA"), ("AA", "A"), ("A", "B")] {
        if !scen_begin("spawn_on") {
            continue;
        }
        let case = scenario_json("spawn_on", &format!("thread {} runs `spawn_on {}` with an action closing over fresh data", caller, target));
        out.hist.add("scenario:spawn_on");
        let (ci, ti) = (f.th(caller), f.th(target));
        let src = format!("{}let {{ spawn_on }} = import! std.thread\n\\target ->\n    let fresh = {{ s = append \"spawn\" \"_on\", k = 1 }}\n    do action = spawn_on target (flat_map (\\_ -> wrap {{ got = fresh, n = 2 }}) (wrap ()))\n    action", HDR);
        let th = f.ths[ci].thread.clone();
        th.get_database_mut().run_io(false);
        let fun = th.run_expr::<Val>("spawn_on", &src);
        th.get_database_mut().run_io(true);
        let fun = match fun {
            Ok(v) => v.0.into_inner(),
            Err(e) => {
                out.violation("c13:scenario-error:spawn_on-compile", "spawn_on scenario does not compile", &case, "ok", &format!("{}", e));
                continue;
            }
        };
        let mut g: OwnedFunction<fn(RootedThread) -> IO<Val>> = OwnedFunction::from_value(fun.vm(), fun.get_variant());
        let target_thread = f.ths[ti].thread.clone();
        // spawn_on hands out a future that is woken from another task: needs a real executor
        let res = catch_unwind(AssertUnwindSafe(|| {
            let rt = tokio::runtime::Builder::new_current_thread().enable_all().build().expect("tokio runtime");
            rt.block_on(async { tokio::time::timeout(std::time::Duration::from_secs(20), g.call_async(target_thread)).await })
        }));
        let res = match res {
            Ok(Ok(r)) => Ok(r),
            Ok(Err(_)) => {
                out.violation("c13:scenario-timeout:spawn_on", "spawn_on did not finish within 20 s", &case, "finishes", "timeout");
                continue;
            }
            Err(p) => Err(p),
        };
        match res {
            Ok(Ok(IO::Value(v))) => {
                let gv = verif::graph(v.get_value());
                if std::env::var("C13_DEBUG").is_ok() {
                    eprintln!("spawn_on {} -> {}: root {:?}", caller, target, gv.root);
                    for n in &gv.nodes {
                        eprintln!("   {:#x} owner {:?} gen {} {} {:?} {:?}", n.addr, f.heap_of_gc(n.owner), n.generation, n.kind, n.label, n.edges);
                    }
                }
                check_owned(f, &gv, f.ths[ci].heap, &format!("spawn_on-{}", f.rel(ci, ti)), &case, out, "spawn_on");
                out.n += 1;
            }
            Ok(Ok(IO::Exception(e))) => out.hist.add(&format!("spawn_on-exception:{}", esc(&e).chars().take(40).collect::<String>())),
            Ok(Err(e)) => out.hist.add(&format!("spawn_on-error:{}", esc(&format!("{}", e)).chars().take(40).collect::<String>())),
            Err(_) => out.violation("c13:scenario-panic:spawn_on", "spawn_on panicked", &case, "no panic", "panic"),
        }
        check_walks(f, &case, out, &format!("after-spawn_on-{}", f.rel(ci, ti)));
        for th in f.ths.iter().rev() {
            th.thread.collect();
        }
        let ev = verif::take_events();
        if !ev.is_empty() {
            out.violation(&format!("c13:spawn_on-dangling:{}", f.rel(ci, ti)), "a collection after spawn_on reached a freed object", &case, "no event", &ev.join(" ; "));
        }
        check_walks(f, &case, out, &format!("after-spawn_on-collect-{}", f.rel(ci, ti)));
    }
}

/// Whole-VM drop: a value is moved from a fresh VM into thread `t`, then the sending VM is dropped
/// entirely; the received copy must not reach any freed object.
fn vm_drop_cases(f: &mut Forest, out: &mut Out, args: &Args) {
    let kinds = fixed_kinds();
    for (i, kind) in kinds.iter().enumerate() {
        if kind.name == "channel-record" {
            continue;
        }
        for tn in ["R", "AA"] {
            if !args.thorough() && tn == "AA" && i % 4 != 0 {
                continue;
            }
            if !scen_begin("vm-drop-setup") {
                continue;
            }
            let ti = f.th(tn);
            let case = serde_json::json!({"kind": kind.name, "src": kind.src, "s": "fresh-vm", "t": tn, "route": if i % 2 == 0 { "reroot" } else { "push" }, "order": "drop-sender-vm", "rel": "unrelated"});
            out.hist.add("scenario:vm-drop");
            if std::env::var("C13_DEBUG").is_ok() {
                eprintln!("vm-drop {} -> {}", kind.name, tn);
            }
            let w;
            let sh_src;
            let known_class;
            {
                let vm = new_vm();
                let child = vm.new_thread().unwrap();
                let sender = if i % 3 == 0 { &child } else { &vm };
                let v = match sender.run_expr::<Val>("value", &kind.src) {
                    Ok(v) => v.0.into_inner(),
                    Err(_) => continue,
                };
                let g_src = verif::graph(v.get_value());
                sh_src = shape(&g_src);
                // what the value holds decides which open finding a later touch of it belongs to
                known_class = if g_src.nodes.iter().any(|n| n.kind == "closure" || n.kind == "bytecode") {
                    Some("vm-drop-closure")
                } else if g_src.nodes.iter().any(|n| !n.names.is_empty()) {
                    Some("vm-drop-record")
                } else {
                    None
                };
                scen_reclass(known_class.unwrap_or("vm-drop-plain"));
                w = if i % 2 == 0 {
                    v.re_root(f.ths[ti].thread.clone()).map_err(|e| format!("{}", e))
                } else {
                    let id = f.helper(ti, "id");
                    call1_pure(&id, v.clone())
                };
                // everything of the sending VM goes out of scope here
            }
            let w = match w {
                Ok(w) => w,
                Err(_) => continue,
            };
            let g = verif::graph(w.get_value());
            check_owned(f, &g, f.ths[ti].heap, "unrelated", &case, out, "drop-sender-vm");
            if !g.nodes.iter().any(|n| n.freed) && !shape(&g).contains("FREED-NAMES") && shape(&g) != sh_src {
                out.violation("c13:changed-after-vm-drop", "the received value renders differently after the sending VM was dropped", &case, &sh_src, &shape(&g));
            }
            out.n += 1;
            if known_class.is_some() {
                // the receiver now holds a value that points into a VM that is gone (open finding):
                // nothing later may run on this forest
                drop(w);
                std::mem::forget(std::mem::replace(f, Forest::new()));
            }
        }
    }
}

// ------------------------------------------------------------------------------------------------

fn open(args: &Args, name: &str, append: bool) -> std::io::BufWriter<std::fs::File> {
    let f = std::fs::OpenOptions::new().create(true).write(true).append(append).truncate(!append).open(args.out.join(name)).expect("open out file");
    std::io::BufWriter::new(f)
}

fn child_main(args: &Args, start: usize) {
    let scen_start: usize = args.extra.get("scen").and_then(|s| s.parse().ok()).unwrap_or(0);
    verif::set_quarantine(true);
    verif::set_stride(0);
    let mut f = Forest::new();
    let cases = case_list(&f, args);
    let mut out = Out {
        model_in: open(args, "model_in.txt", true),
        impl_out: open(args, "impl_out.txt", true),
        cases: open(args, "cases.txt", true),
        viol: open(args, "violations.jsonl", true),
        hist: Hist::default(),
        distinct: HashSet::new(),
        n: 0,
        nviol: 0,
        seen_viol: HashSet::new(),
        explained: HashSet::new(),
    };
    // keys already reported by an earlier child
    if let Ok(text) = std::fs::read_to_string(args.out.join("violations.jsonl")) {
        for l in text.lines() {
            if let Ok(v) = serde_json::from_str::<serde_json::Value>(l) {
                if let Some(k) = v["key"].as_str() {
                    out.seen_viol.insert(k.to_string());
                }
            }
        }
    }
    let mut it = Intern::default();
    let progress = args.out.join("progress.txt");
    for (i, c) in cases.iter().enumerate() {
        if i < start {
            continue;
        }
        std::fs::write(&progress, format!("{}", i)).unwrap();
        if i % 50 == 0 {
            out.flush();
        }
        // a long-lived VM accumulates file maps and quarantined blocks: renew the forest regularly
        if i > start && i % 1500 == 0 {
            f = Forest::new();
        }
        let r = catch_unwind(AssertUnwindSafe(|| run_case(&mut f, c, &mut it, &mut out, i % 97 == 0)));
        if r.is_err() {
            let case = serde_json::json!({"kind": c.kind.name, "src": c.kind.src, "s": f.ths[c.s].name, "t": f.ths[c.t].name, "route": c.route.name(&f), "order": c.order});
            out.emit("skip", "panic", &case);
            out.violation(&format!("c13:panic:{}:{}", c.route.family(), c.kind.name), "the transfer panicked", &case, "no panic", "panic");
            f = Forest::new();
        }
    }
    out.flush();
    {
        // what the transfer cases counted is safe whatever happens in the scenario phase
        let mut fpart = std::fs::OpenOptions::new().create(true).append(true).open(args.out.join("stats_parts.jsonl")).unwrap();
        writeln!(fpart, "{}", serde_json::json!({"n": out.n, "nviol": out.nviol, "distinct": out.distinct.len(), "hist": out.hist.to_json()})).unwrap();
        out.n = 0;
        out.nviol = 0;
        out.distinct.clear();
        out.hist = Hist::default();
    }
    *SCEN.lock().unwrap() = Some(Scen { next: 0, start: scen_start, progress: progress.clone() });
    std::fs::write(&progress, "scenario-phase").unwrap();
    let r = catch_unwind(AssertUnwindSafe(|| {
        // units that exercise an open known finding come last, each on a forest nothing else uses
        scenarios(&mut f, &mut out, args);
        std::mem::forget(std::mem::replace(&mut f, Forest::new()));
        module_promotions(&mut f, &mut out, args, true);
        std::mem::forget(std::mem::replace(&mut f, Forest::new()));
        vm_drop_cases(&mut f, &mut out, args);
    }));
    *SCEN.lock().unwrap() = None;
    if r.is_err() {
        out.violation("c13:panic:scenarios", "a scenario panicked", &serde_json::json!({}), "no panic", "panic");
    }
    out.flush();
    // merge stats with those of earlier children
    let path = args.out.join("stats_parts.jsonl");
    let mut fpart = std::fs::OpenOptions::new().create(true).append(true).open(path).unwrap();
    writeln!(fpart, "{}", serde_json::json!({"n": out.n, "nviol": out.nviol, "distinct": out.distinct.len(), "hist": out.hist.to_json()})).unwrap();
    std::fs::write(&progress, "done").unwrap();
    // the forests may hold values of the open findings: do not run their destructors
    fpart.flush().ok();
    std::mem::forget(f);
    std::process::exit(0);
}

fn replay(path: &str) {
    let v: serde_json::Value = serde_json::from_str(&std::fs::read_to_string(path).expect("replay file")).expect("json");
    let case = &v["case"];
    verif::set_quarantine(true);
    let mut f = Forest::new();
    println!("key: {}", v["key"]);
    println!("case: {}", case);
    if case["scenario"].is_string() || case["s"].as_str() == Some("fresh-vm") {
        println!("(scenario: re-running all scenarios)");
        let dir = std::path::Path::new(env!("CARGO_MANIFEST_DIR")).join("../.cache/replay-c13");
    std::fs::create_dir_all(&dir).ok();
        let args = Args { tier: "quick".into(), seed: 1, out: dir, replay: None, extra: BTreeMap::new(), rest: vec![] };
        let mut out = Out {
            model_in: open(&args, "c13-replay-model_in.txt", false),
            impl_out: open(&args, "c13-replay-impl_out.txt", false),
            cases: open(&args, "c13-replay-cases.txt", false),
            viol: open(&args, "c13-replay-violations.jsonl", false),
            hist: Hist::default(),
            distinct: HashSet::new(),
            n: 0,
            nviol: 0,
            seen_viol: HashSet::new(),
        explained: HashSet::new(),
        };
        scenarios(&mut f, &mut out, &args);
        module_promotions(&mut f, &mut out, &args, true);
        vm_drop_cases(&mut f, &mut out, &args);
        out.flush();
        let text = std::fs::read_to_string(args.out.join("c13-replay-violations.jsonl")).unwrap_or_default();
        let hit = text.lines().any(|l| l.contains(v["key"].as_str().unwrap_or("?")));
        println!("{}", text);
        println!("reproduced: {}", hit);
        return;
    }
    let kind = Kind { name: case["kind"].as_str().unwrap_or("?").into(), src: case["src"].as_str().expect("case.src").into() };
    let s = f.th(case["s"].as_str().expect("s"));
    let t = f.th(case["t"].as_str().expect("t"));
    let r = case["route"].as_str().expect("route");
    let route = if r == "reroot" {
        Route::Reroot
    } else if r == "push" {
        Route::Push
    } else if let Some(x) = r.strip_prefix("chan:") {
        Route::Chan(f.th(x))
    } else {
        Route::Ref(f.th(r.strip_prefix("ref:").expect("route")))
    };
    let c = Case { kind, s, t, route, order: case["order"].as_u64().unwrap_or(0) as u8 };
    let dir = std::path::Path::new(env!("CARGO_MANIFEST_DIR")).join("../.cache/replay-c13");
    std::fs::create_dir_all(&dir).ok();
    let args = Args { tier: "quick".into(), seed: 1, out: dir, replay: None, extra: BTreeMap::new(), rest: vec![] };
    let mut out = Out {
        model_in: open(&args, "c13-replay-model_in.txt", false),
        impl_out: open(&args, "c13-replay-impl_out.txt", false),
        cases: open(&args, "c13-replay-cases.txt", false),
        viol: open(&args, "c13-replay-violations.jsonl", false),
        hist: Hist::default(),
        distinct: HashSet::new(),
        n: 0,
        nviol: 0,
        seen_viol: HashSet::new(),
        explained: HashSet::new(),
    };
    let mut it = Intern::default();
    run_case(&mut f, &c, &mut it, &mut out, true);
    out.flush();
    println!("model_in: {}", std::fs::read_to_string(args.out.join("c13-replay-model_in.txt")).unwrap_or_default().trim());
    println!("impl_out: {}", std::fs::read_to_string(args.out.join("c13-replay-impl_out.txt")).unwrap_or_default().trim());
    let text = std::fs::read_to_string(args.out.join("c13-replay-violations.jsonl")).unwrap_or_default();
    println!("violations observed now:\n{}", text);
    println!("reproduced: {}", text.lines().any(|l| l.contains(v["key"].as_str().unwrap_or("?"))));
}

fn main() {
    let args = Args::parse();
    if let Some(path) = &args.replay {
        replay(path);
        return;
    }
    if args.rest.iter().any(|a| a == "child") {
        let start = args.extra.get("start").and_then(|s| s.parse().ok()).unwrap_or(0);
        child_main(&args, start);
        return;
    }
    // parent: run the cases in a child process with a watchdog; a crash (poisoned memory, abort in
    // an extern "C" primitive) is attributed to the case in progress and the run continues after it
    for n in ["model_in.txt", "impl_out.txt", "cases.txt", "violations.jsonl", "stats_parts.jsonl", "progress.txt"] {
        let _ = std::fs::remove_file(args.out.join(n));
    }
    let exe = std::env::current_exe().unwrap();
    let mut start = 0usize;
    let mut scen = 0usize;
    let mut crashes = 0;
    let budget = std::time::Duration::from_secs(if args.thorough() { 3000 } else { 600 });
    loop {
        let mut child = std::process::Command::new(&exe)
            .args(["--tier", &args.tier, "--seed", &args.seed.to_string(), "--out", args.out.to_str().unwrap(), "child", &format!("start={}", start), &format!("scen={}", scen)])
            .stdout(std::process::Stdio::null())
            .spawn()
            .expect("spawn child");
        let t0 = std::time::Instant::now();
        let status = loop {
            match child.try_wait().unwrap() {
                Some(st) => break Some(st),
                None => {
                    if t0.elapsed() > budget {
                        let _ = child.kill();
                        let _ = child.wait();
                        break None;
                    }
                    std::thread::sleep(std::time::Duration::from_millis(50));
                }
            }
        };
        let progress = std::fs::read_to_string(args.out.join("progress.txt")).unwrap_or_default();
        if status.map(|s| s.success()).unwrap_or(false) && progress == "done" {
            break;
        }
        crashes += 1;
        let what = match status {
            Some(st) => format!("child process died: {}", st),
            None => "child process hung (watchdog)".to_string(),
        };
        let idx: Option<usize> = progress.parse().ok();
        let mut viol = open(&args, "violations.jsonl", true);
        match idx {
            Some(i) => {
                // realign the three line files to i entries, then add the crashed case
                let lines = |n: &str| std::fs::read_to_string(args.out.join(n)).unwrap_or_default().lines().map(|s| s.to_string()).collect::<Vec<_>>();
                let done = lines("cases.txt").len().min(lines("model_in.txt").len()).min(lines("impl_out.txt").len());
                for n in ["model_in.txt", "impl_out.txt", "cases.txt"] {
                    let mut l = lines(n);
                    l.truncate(done);
                    let mut w = open(&args, n, false);
                    for x in l {
                        writeln!(w, "{}", x).unwrap();
                    }
                    let filler = match n {
                        "model_in.txt" => "skip",
                        "impl_out.txt" => "crash",
                        _ => "{\"crashed\":true}",
                    };
                    writeln!(w, "{}", filler).unwrap();
                }
                writeln!(viol, "{}", serde_json::json!({"key": format!("c13:crash:case-{}", i), "what": what, "case": {"index": i, "seed": args.seed, "tier": args.tier}, "expected": "no crash", "observed": what})).unwrap();
                start = i + 1;
            }
            None => {
                // "scenario <n> <class>": the unit in progress; go on after it
                let parts: Vec<&str> = progress.split_whitespace().collect();
                match (parts.first(), parts.get(1).and_then(|x| x.parse::<usize>().ok()), parts.get(2)) {
                    (Some(&"scenario"), Some(n), Some(class)) => {
                        writeln!(
                            viol,
                            "{}",
                            serde_json::json!({"key": format!("c13:crash:scenario:{}", class), "what": format!("{} during scenario unit {} of class `{}`", what, n, class),
                                "case": {"scenario": class, "unit": n, "seed": args.seed, "tier": args.tier}, "expected": "no crash", "observed": what})
                        )
                        .unwrap();
                        start = usize::MAX / 2;
                        scen = n + 1;
                    }
                    _ => {
                        writeln!(viol, "{}", serde_json::json!({"key": "c13:crash:scenario-phase", "what": what, "case": {"progress": progress}, "expected": "no crash", "observed": what})).unwrap();
                        break;
                    }
                }
            }
        }
        if crashes >= 8 {
            break;
        }
    }
    // merge stats
    let mut n = 0u64;
    let mut nviol = 0u64;
    let mut distinct = 0u64;
    let mut hist = Hist::default();
    if let Ok(text) = std::fs::read_to_string(args.out.join("stats_parts.jsonl")) {
        for l in text.lines() {
            if let Ok(v) = serde_json::from_str::<serde_json::Value>(l) {
                n += v["n"].as_u64().unwrap_or(0);
                nviol += v["nviol"].as_u64().unwrap_or(0);
                distinct += v["distinct"].as_u64().unwrap_or(0);
                if let Some(h) = v["hist"].as_object() {
                    for (k, c) in h {
                        hist.addn(k, c.as_u64().unwrap_or(0));
                    }
                }
            }
        }
    }
    gvh::out::write_json(
        &args.out.join("stats.json"),
        &serde_json::json!({
            "evaluations": n,
            "distinct_nontrivial": distinct,
            "violations_observed": nviol,
            "crashes": crashes,
            "rule": "one evaluation = one transfer of one value along one route between two threads of the forest (+ scenarios); distinct = distinct model input lines (source graph with owners x route), which excludes nothing trivial: immediates are 2 of the kinds",
            "hist": hist.to_json(),
        }),
    );
}
