//! C16 — compilation and evaluation are deterministic.
//!
//! Parent mode (default).  Generates the inputs (well-typed `gvh::mg` programs, ill-typed mutants of
//! them, programs over the standard library with the implicit prelude on, programs whose result has a
//! polymorphic type, the corpus), splits them into batches and evaluates every batch under a set of
//! HISTORIES, each history in its own child process (same executable, `child` argument, watchdog):
//!
//!   H1  seq            one long-lived VM per setting, inputs in order; run in 3 separate processes
//!   H2  seq:k=K        the same after K unrelated generated programs (well- and ill-typed), K in {5, 50}
//!   H3  perm / rev     the same inputs in permuted / reversed order on one VM
//!   H4  fresh          a fresh VM for every input
//!   H5  thread:child / thread:os   on a child thread (`new_thread`) of the VM / on another OS thread
//!   H6  twice          every input evaluated twice in a row (both observations recorded)
//!   H7  toggle         ONE VM for both settings, `implicit_prelude` switched per input
//!
//! The observation of one evaluation is the tuple
//!   value   canonical value + effect log, or the error class
//!   type    `Display` of the type reported by `run_expr` / `typecheck_str`
//!   diag    `Error::emit_string()` (full text)
//!   display `Display` of the error
//! compared BYTE FOR BYTE between all histories of the same (name, source, settings).  Nothing is
//! canonicalised: no harness path and no timing occurs in these texts (module names are the file
//! names given to the VM).
//!
//! Phase 1 evaluates every input alone on a fresh VM (this is history `fresh:r=0`).  The child writes
//! a progress marker before and after each evaluation and carries a watchdog (CPU time of one
//! evaluation), so an input on which the implementation dies or hangs EVEN ALONE is attributed
//! exactly; such inputs are deterministic failures of another property (front end totality / host
//! safety), they are excluded from phase 2 and listed in determinism.json `excluded_inputs`.  Phase 2
//! runs the other histories over the surviving inputs; a process that dies in phase 2 on an input
//! that evaluates alone is a finding (`nondeterministic-value:dies-only-in-some-histories`).
//!
//! For every input whose observations differ the parent builds a two-run minimal reproduction:
//! it takes the exact evaluation sequence of the deviating history (written by the child), checks
//! whether the deviation is reproducible, and delta-debugs the sequence of earlier compilations down
//! to a minimal one (each probe in a fresh process).  The difference is keyed by its class
//! (`nondeterministic-<value|type|diagnostic>:<class>`, see `diff_class`).
//!
//! Second tie: the grouping model of coq/theories/Lang/Rename.v (`group_by_key`) against the real
//! match compilation (vm/src/core/mod.rs compile_constructor / compile_literal): generated `match`
//! expressions are compiled with the real pipeline, the order of the alternatives of the resulting
//! core `match` is read off and compared with the model's prediction (model_in.txt / impl_out.txt
//! lines `group …`).  Third: well-typed first-order MiniGluon inputs are also predicted by the
//! extracted evaluator (lines `prog …`), on the original and on an injectively renamed copy.
//!
//! Output files in --out: inputs-<b>.tsv, obs-*.tsv, trace-*.tsv, determinism.json, model_in.txt,
//! impl_out.txt, cases.txt, stats.json.
use gluon::vm::api::{Hole, OpaqueValue};
use gluon::{RootedThread, ThreadExt};
use gvh::mg::{self, ast::*, generate::GenConfig, print::Style};
use gvh::out::{fnv, Args, Hist};
use gvh::rng::Rng;
use std::collections::{BTreeMap, BTreeSet};
use std::io::Write;
use std::path::{Path, PathBuf};
use std::time::{Duration, Instant};

// ------------------------------------------------------------------------------------------
// inputs
// ------------------------------------------------------------------------------------------

#[derive(Clone, Debug, PartialEq)]
enum Kind {
    /// `run_expr`
    Run,
    /// `typecheck_str`
    Tc,
}

#[derive(Clone, Debug)]
struct Input {
    id: usize,
    group: String,
    kind: Kind,
    prelude: bool,
    name: String,
    src: String,
}

fn hex(s: &str) -> String {
    let mut o = String::with_capacity(s.len() * 2);
    for b in s.bytes() {
        o.push_str(&format!("{:02x}", b));
    }
    if o.is_empty() {
        o.push('-');
    }
    o
}
fn unhex(s: &str) -> String {
    if s == "-" {
        return String::new();
    }
    let b: Vec<u8> = (0..s.len() / 2).map(|i| u8::from_str_radix(&s[2 * i..2 * i + 2], 16).unwrap_or(b'?')).collect();
    String::from_utf8_lossy(&b).into_owned()
}

impl Input {
    fn to_line(&self) -> String {
        format!(
            "{}\t{}\t{}\t{}\t{}\t{}",
            self.id,
            self.group,
            if self.kind == Kind::Run { "run" } else { "tc" },
            if self.prelude { 1 } else { 0 },
            self.name,
            hex(&self.src)
        )
    }
    fn from_line(l: &str) -> Option<Input> {
        let p: Vec<&str> = l.split('\t').collect();
        if p.len() != 6 {
            return None;
        }
        Some(Input {
            id: p[0].parse().ok()?,
            group: p[1].to_string(),
            kind: if p[2] == "run" { Kind::Run } else { Kind::Tc },
            prelude: p[3] == "1",
            name: p[4].to_string(),
            src: unhex(p[5]),
        })
    }
    fn key(&self) -> String {
        format!("{}|{}|{}|{}", self.name, if self.kind == Kind::Run { "run" } else { "tc" }, self.prelude, self.src)
    }
}

fn read_inputs(path: &Path) -> Vec<Input> {
    std::fs::read_to_string(path).expect("inputs file").lines().filter_map(Input::from_line).collect()
}
fn write_inputs(path: &Path, xs: &[Input]) {
    let mut f = std::io::BufWriter::new(std::fs::File::create(path).expect("create inputs"));
    for x in xs {
        writeln!(f, "{}", x.to_line()).unwrap();
    }
}

fn gen_cfg(rng: &mut Rng) -> GenConfig {
    let mut cfg = GenConfig::default();
    // the two switches that trigger known defects of other properties (C01) stay off: a compiler
    // panic may poison VM state, which is C06's subject, not this property's
    cfg.features.multi_record_alts = false;
    cfg.features.update_reorder = false;
    cfg.max_depth = 3 + rng.below(3) as u32;
    cfg.max_size = 20 + rng.below(50) as u32;
    cfg
}

// ---- mutation -----------------------------------------------------------------------------

/// Applies `f` to the `n`-th sub-expression (pre-order) of `e`.
fn with_nth(e: &mut Expr, n: &mut i64, f: &mut dyn FnMut(&mut Expr)) {
    if *n < 0 {
        return;
    }
    if *n == 0 {
        *n = -1;
        f(e);
        return;
    }
    *n -= 1;
    match e {
        Expr::Lit(_) | Expr::Var(_) | Expr::Error(_) => {}
        Expr::Lam(_, b) => with_nth(b, n, f),
        Expr::App(g, args) => {
            with_nth(g, n, f);
            for a in args {
                with_nth(a, n, f)
            }
        }
        Expr::Let(_, a, b) | Expr::Prim(_, a, b) | Expr::And(a, b) | Expr::Or(a, b) | Expr::Seq(a, b) | Expr::ArrayIndex(a, b) => {
            with_nth(a, n, f);
            with_nth(b, n, f)
        }
        Expr::Rec(bs, b) => {
            for r in bs {
                with_nth(&mut r.body, n, f)
            }
            with_nth(b, n, f)
        }
        Expr::If(a, b, c) => {
            with_nth(a, n, f);
            with_nth(b, n, f);
            with_nth(c, n, f)
        }
        Expr::Record(fs, base) => {
            for (_, x) in fs {
                with_nth(x, n, f)
            }
            if let Some(b) = base {
                with_nth(b, n, f)
            }
        }
        Expr::Proj(x, _) | Expr::ArrayLen(x) | Expr::Eff(x) | Expr::Ann(x, _) => with_nth(x, n, f),
        Expr::Tuple(es) | Expr::Con(_, es) | Expr::Array(es) => {
            for x in es {
                with_nth(x, n, f)
            }
        }
        Expr::Match(s, alts) => {
            with_nth(s, n, f);
            for (_, x) in alts {
                with_nth(x, n, f)
            }
        }
    }
}

const MUTATIONS: [&str; 20] = [
    "wide-record-missing-field",
    "wide-record-missing-field",
    "wide-record-mismatch",
    "several-undefined",
    "unbound-var",
    "fun-for-value",
    "string-for-value",
    "int-for-value",
    "unit-for-value",
    "self-apply",
    "empty-array",
    "bad-field",
    "record-of-fun",
    "unbound-ctor",
    "apply-value",
    "drop-alternative",
    "wrong-annotation",
    "unused-poly",
    "if-on-fun",
    "poly-result",
];

/// A record literal with 4..9 fields taken from a pool of names without the letters q, x, y, z;
/// `keep` (the replaced sub-expression) becomes the value of one field.
fn wide_record(r: u64, keep: Option<Expr>) -> Expr {
    const POOL: [&str; 14] = ["alpha", "beta", "gamma", "delta", "epsilon", "eta", "theta", "iota", "kappa", "lambda", "mu", "nu", "omicron", "rho"];
    let n = 4 + (r % 6) as usize;
    let start = ((r >> 8) % 14) as usize;
    let mut fs = Vec::new();
    let mut keep = keep;
    for i in 0..n {
        let name = POOL[(start + i * (1 + ((r >> 12) % 3) as usize)) % 14];
        if fs.iter().any(|(l, _): &(String, Expr)| l == name) {
            continue;
        }
        let v = if i == 1 && keep.is_some() { keep.take().unwrap() } else { int(i as i64) };
        fs.push((name.to_string(), v));
    }
    Expr::Record(fs, None)
}

fn idf() -> Expr {
    lam(&["q"], var("q"))
}

/// One mutation at a random position; returns false when it does not apply there.
fn mutate(p: &mut Program, which: &str, rng: &mut Rng) -> bool {
    let size = p.expr.size() as u64;
    let mut n = rng.below(size) as i64;
    let mut done = false;
    let r1 = rng.next_u64();
    let w = which.to_string();
    match which {
        "unused-poly" => {
            // a polymorphic binding nobody uses, around the whole program
            let e = std::mem::replace(&mut p.expr, unit());
            p.expr = match r1 % 3 {
                0 => let_("unused_id", idf(), e),
                1 => let_("unused_arr", Expr::Array(vec![]), e),
                _ => let_("unused_k", lam(&["a", "b"], var("a")), e),
            };
            return true;
        }
        "poly-result" => {
            // the program's value is thrown away, the result is a function whose type keeps
            // unresolved (generalised) variables
            let e = std::mem::replace(&mut p.expr, unit());
            let tail = match r1 % 5 {
                0 => idf(),
                1 => lam(&["a", "b"], var("a")),
                2 => lam(&["f", "g", "x"], app(var("f"), vec![app(var("g"), vec![var("x")])])),
                3 => Expr::Record(vec![("id".into(), idf()), ("k".into(), lam(&["a", "b"], var("b")))], None),
                _ => lam(&["r"], Expr::Proj(Box::new(var("r")), "fld".into())),
            };
            p.expr = let_("thrown_away", e, tail);
            return true;
        }
        _ => {}
    }
    with_nth(&mut p.expr, &mut n, &mut |e: &mut Expr| {
        let old = std::mem::replace(e, unit());
        let (new, ok) = match w.as_str() {
            "wide-record-missing-field" => {
                // `{ 4..9 fields }.missing`: none of the field names shares a letter with the missing one
                (Expr::Proj(Box::new(wide_record(r1, Some(old))), ["zzz", "xyz", "qq", "zq"][((r1 >> 20) % 4) as usize].to_string()), true)
            }
            "wide-record-mismatch" => {
                // a function that needs fields the wide record does not have
                let f = lam(&["w"], prim(PrimOp::IntAdd, Expr::Proj(Box::new(var("w")), "zzz".into()), Expr::Proj(Box::new(var("w")), "yyy".into())));
                (app(f, vec![wide_record(r1, Some(old))]), true)
            }
            "several-undefined" => (
                Expr::Record(
                    vec![("u1".into(), var("nope_a")), ("u2".into(), old), ("u3".into(), var("nope_b")), ("u4".into(), var("nope_c")), ("u5".into(), Expr::Con("NopeD".into(), vec![]))],
                    None,
                ),
                true,
            ),
            "unbound-var" => (var(["nope", "undefined_x", "y9"][(r1 % 3) as usize]), true),
            "fun-for-value" => (idf(), true),
            "string-for-value" => (Expr::Lit(Lit::Str("s".into())), true),
            "int-for-value" => (int(7), true),
            "unit-for-value" => (unit(), true),
            "self-apply" => (lam(&["w"], app(var("w"), vec![var("w")])), true),
            "empty-array" => (Expr::Array(vec![]), true),
            "bad-field" => (Expr::Proj(Box::new(old), "nofield".into()), true),
            "record-of-fun" => (Expr::Record(vec![("zz".into(), idf()), ("yy".into(), old)], None), true),
            "unbound-ctor" => (Expr::Con("Nope".into(), vec![old]), true),
            "apply-value" => (app(old, vec![idf(), int(1)]), true),
            "wrong-annotation" => (
                Expr::Ann(
                    Box::new(old),
                    match r1 % 3 {
                        0 => Ty::Fun(vec![Ty::Var("a".into())], Box::new(Ty::Str)),
                        1 => Ty::Record(vec![("x".into(), Ty::Int)]),
                        _ => Ty::Named("Opt".into(), vec![Ty::Var("b".into())]),
                    },
                ),
                true,
            ),
            "if-on-fun" => (Expr::If(Box::new(idf()), Box::new(old.clone()), Box::new(old)), true),
            "drop-alternative" => match old {
                Expr::Match(s, mut alts) if alts.len() > 1 => {
                    let k = (r1 % alts.len() as u64) as usize;
                    alts.remove(k);
                    (Expr::Match(s, alts), true)
                }
                o => (o, false),
            },
            _ => (old, false),
        };
        *e = new;
        done = ok;
    });
    done
}

/// Programs over the standard library, implicit prelude ON.  `{n}` / `{m}` are replaced by small ints.
const STD_TEMPLATES: [(&str, &str); 30] = [
    ("std-arith", "{n} + {m} * 3"),
    ("std-cmp", "if {n} < {m} then \"lt\" else \"ge\""),
    ("std-show", "show {n}"),
    ("std-eq-string", "\"a{n}\" == \"a{m}\""),
    ("std-list", "let list = import! std.list\nlist.of [{n}, {m}, 3]"),
    ("std-list-show", "let list = import! std.list\nshow (list.of [{n}, {m}])"),
    ("std-option", "let option = import! std.option\noption.unwrap_or {n} (Some {m})"),
    ("std-map", "let map = import! std.map\nlet m = map.insert \"k{n}\" {m} map.empty\nmap.find \"k{n}\" m"),
    ("std-string", "let string = import! std.string\nstring.len \"abc{n}\""),
    ("std-functor", "let { map } = import! std.functor\nlet option = import! std.option\nmap (\\x -> x + {n}) (Some {m})"),
    ("std-foldable", "let { foldl } = import! std.foldable\nlet list = import! std.list\nfoldl (\\a b -> a + b) {n} (list.of [1, 2, {m}])"),
    ("std-result", "let result = import! std.result\nresult.unwrap_ok (Ok {n})"),
    ("std-float", "let float = import! std.float\nfloat.from_int {n}"),
    ("std-char", "let char = import! std.char\nchar.is_alphabetic 'a'"),
    ("std-array", "let array = import! std.array\narray.len [{n}, {m}]"),
    // ill typed, prelude on: implicit resolution failures, mismatches against library types
    ("std-err-num-string", "{n} + \"a\""),
    ("std-err-show-fun", "show (\\x -> x)"),
    ("std-err-eq-fun", "(\\x -> x) == (\\y -> y)"),
    ("std-err-list-mix", "let list = import! std.list\nlist.of [{n}, \"b\"]"),
    ("std-err-unbound", "undefined_thing + {n}"),
    ("std-err-field", "let list = import! std.list\nlist.no_such_field {n}"),
    ("std-err-import", "let m = import! std.no_such_module_{n}\nm"),
    ("std-err-apply", "let option = import! std.option\noption.unwrap_or {n} {m} 3"),
    ("std-err-ambiguous", "\\x y -> x == y"),
    ("std-err-two", "let a = {n} + \"x\"\nlet b = show (\\z -> z)\n(a, b, c_unbound)"),
    // polymorphic results, prelude on
    ("std-poly-compose", "\\f g x -> f (g x)"),
    ("std-poly-num", "\\x -> x + x"),
    ("std-poly-show", "\\x -> show x"),
    ("std-poly-list", "let list = import! std.list\nlist.of []"),
    ("std-poly-map", "let { map } = import! std.functor\nmap"),
];

/// Diagnostics that ENUMERATE: several candidates, several fields, several errors, abbreviated
/// (`...`) renderings of long types.  (group, prelude, source); seed independent.
const WIDE5: &str = "{ alpha = 1, beta = 2, gamma = 3, delta = 4, epsilon = 5 }";
const ENUM_TEMPLATES: [(&str, bool, &str); 44] = [
    // --- a missing field on a record with > 3 other fields whose names tie in similarity
    ("enum-field-missing-5", false, "let r = { alpha = 1, beta = 2, gamma = 3, delta = 4, epsilon = 5 }\nr.zzz"),
    ("enum-field-missing-8", false, "let r = { alpha = 1, beta = \"b\", gamma = 3, delta = 4, epsilon = 5, eta = (), theta = 7, iota = 8 }\nr.xyz"),
    ("enum-field-missing-12", false, "let r = { aa = 1, bb = 2, cc = 3, dd = 4, ee = 5, ff = 6, gg = 7, hh = 8, ii = 9, jj = 10, kk = 11, ll = 12 }\nr.zq"),
    ("enum-field-missing-close", false, "let r = { alpha = 1, alphb = 2, alphc = 3, alphd = 4, alphe = 5 }\nr.alph"),
    ("enum-field-missing-nested", false, "let r = { inner = { alpha = 1, beta = 2, gamma = 3, delta = 4, epsilon = 5 }, other = 1 }\nr.inner.zzz"),
    ("enum-field-missing-lambda", false, "let f r : { alpha : Int, beta : Int, gamma : Int, delta : Int, epsilon : Int } -> Int = r.zzz\nf"),
    ("enum-field-missing-types", false, "type A = Int\ntype B = Int\ntype C = Int\ntype D = Int\nlet r = { A, B, C, D, alpha = 1, beta = 2 }\nr.zzz"),
    ("enum-field-missing-twice", false, "let r = { alpha = 1, beta = 2, gamma = 3, delta = 4, epsilon = 5 }\n(r.zzz, r.yyy)"),
    ("enum-field-missing-3-control", false, "let r = { alpha = 1, beta = 2, gamma = 3 }\nr.zzz"),
    // --- `lacks the following fields`, record against record
    ("enum-lacks-fields-2", false, "let f r = r.zzz #Int+ r.yyy\nf { alpha = 1, beta = 2, gamma = 3, delta = 4, epsilon = 5 }"),
    ("enum-lacks-fields-5", false, "let f r = r.alpha #Int+ r.beta #Int+ r.gamma #Int+ r.delta #Int+ r.epsilon\nf { zzz = 1 }"),
    ("enum-lacks-annot", false, "let r : { alpha : Int, beta : Int, gamma : Int, delta : Int, epsilon : Int, zzz : Int } = { alpha = 1, beta = 2, gamma = 3, delta = 4, epsilon = 5 }\nr"),
    ("enum-extra-annot", false, "let r : { zzz : Int } = { alpha = 1, beta = 2, gamma = 3, delta = 4, epsilon = 5, zzz = 6 }\nr"),
    ("enum-record-pattern", false, "match { alpha = 1, beta = 2, gamma = 3, delta = 4, epsilon = 5 } with\n| { zzz } -> zzz"),
    ("enum-record-pattern-2", false, "let { zzz, yyy } = { alpha = 1, beta = 2, gamma = 3, delta = 4, epsilon = 5 }\nzzz"),
    ("enum-record-vs-record", false, "let f x : { alpha : Int, beta : Int, gamma : Int, delta : Int, epsilon : Int } -> Int = x.alpha\nf { eta = 1, theta = 2, iota = 3, kappa = 4, mu = 5 }"),
    ("enum-record-field-types", false, "let f x : { alpha : Int, beta : Int, gamma : Int, delta : Int, epsilon : Int } -> Int = x.alpha\nf { alpha = \"a\", beta = \"b\", gamma = \"c\", delta = \"d\", epsilon = \"e\" }"),
    ("enum-record-update-missing", false, "let r = { alpha = 1, beta = 2, gamma = 3, delta = 4, epsilon = 5 }\n{ zzz = 1, .. r }.yyy"),
    // --- long types the renderer abbreviates or wraps
    ("enum-long-record-int", false, "let r = { aa = 1, bb = 2, cc = 3, dd = 4, ee = 5, ff = 6, gg = 7, hh = 8, ii = 9, jj = 10, kk = 11, ll = 12 }\nr #Int+ 1"),
    ("enum-long-record-call", false, "let r = { aa = 1, bb = \"2\", cc = 3, dd = (), ee = 5, ff = \\x -> x, gg = 7, hh = [1], ii = 9, jj = 'c', kk = 11, ll = 12.0 }\nr 1 2"),
    ("enum-long-variant", false, "type V = | V0 Int | V1 String | V2 | V3 Int Int | V4 () | V5 Char | V6 Float | V7 V | V8 | V9 Int\nlet x : V = 1\nx"),
    ("enum-long-variant-field", false, "type V = | V0 Int | V1 String | V2 | V3 Int Int | V4 () | V5 Char | V6 Float | V7 V | V8 | V9 Int\nV2.zzz"),
    ("enum-long-function", false, "let f a b c d e g h i j k = (a, b, c, d, e, g, h, i, j, k)\nf.zzz"),
    ("enum-many-unsolved", false, "let f a b c d e g = { a, b, c, d, e, g }\n(f 1).zzz"),
    ("enum-many-unsolved-2", false, "\\a b c d e g h -> (a b, c d, e g h).zzz"),
    ("enum-many-unsolved-if", false, "if (\\a b c d e g -> { a, b, c, d, e, g }) then 1 else 2"),
    // --- several independent errors in one program: the order of the list
    ("enum-errors-undefined-5", false, "{ a = nope1, b = nope2, c = nope3, d = nope4, e = nope5 }"),
    ("enum-errors-mixed", false, "let a = nope1\nlet b = 1 #Int+ \"s\"\nlet c = (\\x -> x) 1 2\nlet d = { alpha = 1 }.zzz\n{ a, b, c, d, e = nope3 }"),
    ("enum-errors-in-record", false, "{ a = 1 #Int+ \"a\", b = 2 #Int+ \"b\", c = 3 #Int+ \"c\", d = 4 #Int+ \"d\", e = 5 #Int+ \"e\", f = 6 #Int+ \"f\" }"),
    ("enum-errors-in-rec", false, "rec let f x = g x \"a\" nope1\nrec let g x = f x 1 nope2\nrec let h x = nope3 (f x) (g x)\n{ f, g, h }"),
    ("enum-errors-undefined-types", false, "let f x : Nope1 -> Nope2 -> Nope3 = x\nlet g y : Nope4 = y\n{ f, g }"),
    ("enum-errors-undefined-ctors", false, "type T = | A Int | B\nmatch A 1 with\n| Nope1 x -> x\n| Nope2 -> 1\n| Nope3 y z -> y\n| B -> 2"),
    ("enum-duplicate-fields", false, "{ alpha = 1, beta = 2, alpha = 3, beta = 4, gamma = 5, gamma = 6 }"),
    // --- kinds
    ("enum-kind-too-many", false, "type Opt a = | None | Some a\nlet x : Opt Int Int = None\nx"),
    ("enum-kind-int-app", false, "let x : Int Int String = 1\nx"),
    ("enum-kind-missing-arg", false, "type Pair a b = | P a b\ntype Bad = { x : Pair Int, y : Pair, z : Pair Int Int Int }\nlet v : Bad = { x = 1, y = 2, z = 3 }\nv"),
    // --- implicit arguments with many candidates, library records with many fields (prelude on)
    ("enum-std-field-list", true, "let list = import! std.list\nlist.zqx"),
    ("enum-std-field-string", true, "let string = import! std.string\nstring.zqx 1"),
    ("enum-std-field-map", true, "let map = import! std.map\nmap.zqx"),
    ("enum-std-field-prelude-types", true, "let types = import! std.types\ntypes.zqx"),
    ("enum-std-implicit-ambiguous", true, "let f x y = x + y\n(f, undefined_q + 1, undefined_r < 2, undefined_s == undefined_s)"),
    ("enum-std-implicit-none", true, "type Foo = | Foo\n(Foo + Foo, show Foo, Foo == Foo, Foo < Foo)"),
    ("enum-std-implicit-fun", true, "(show (\\x -> x), (\\x -> x) == (\\y -> y), (\\x -> x) + 1)"),
    ("enum-std-many-errors", true, "let list = import! std.list\nlet a = list.zqx\nlet b = 1 + \"a\"\nlet c = nope1\nlet d = show (\\x -> x)\n{ a, b, c, d }"),
];

/// Records with the SAME field names in DIFFERENT orders across programs, read BY NAME
/// (row-polymorphic getters -> GetField, record patterns, host-side `lookup_field`): the run-time
/// record shape (vm/src/gc.rs Gc::get_type_info) is shared state of a VM, so the value of a later
/// program must not depend on which order an earlier program used.  Seed independent, prelude off,
/// always `run_expr`; the sequential histories see them in this order, `rev` in the opposite one.
const SHAPE_TEMPLATES: [(&str, &str); 44] = [
    ("shape-xy", "let r = { x = 1, y = 2 }\nlet get_x r = r.x\nlet get_y r = r.y\n{ x = get_x r, y = get_y r, sum = get_x r #Int+ get_y r }"),
    ("shape-yx", "let r = { y = 30, x = 4 }\nlet get_x r = r.x\nlet get_y r = r.y\n{ x = get_x r, y = get_y r, sum = get_x r #Int+ get_y r }"),
    ("shape-xy-tuple", "let r = { x = 5, y = 6 }\nlet get_x r = r.x\nlet get_y r = r.y\n(get_x r, get_y r)"),
    ("shape-yx-tuple", "let r = { y = 7, x = 8 }\nlet get_x r = r.x\nlet get_y r = r.y\n(get_x r, get_y r)"),
    ("shape-xy-first-only", "let r = { x = 11, y = 12 }\nlet get_x r = r.x\nget_x r"),
    ("shape-yx-first-only", "let r = { y = 13, x = 14 }\nlet get_x r = r.x\nget_x r"),
    ("shape-xy-host", "{ x = 21, y = 22 }"),
    ("shape-yx-host", "{ y = 23, x = 24 }"),
    ("shape-xy-strings", "let r = { x = \"ex\", y = \"why\" }\nlet get_x r = r.x\nlet get_y r = r.y\n(get_y r, get_x r)"),
    ("shape-yx-strings", "let r = { y = \"why\", x = \"ex\" }\nlet get_x r = r.x\nlet get_y r = r.y\n(get_y r, get_x r)"),
    ("shape-3-abc", "let r = { a = 1, b = 20, c = 300 }\nlet get_a r = r.a\nlet get_b r = r.b\nlet get_c r = r.c\n(get_a r, get_b r, get_c r)"),
    ("shape-3-acb", "let r = { a = 2, c = 301, b = 21 }\nlet get_a r = r.a\nlet get_b r = r.b\nlet get_c r = r.c\n(get_a r, get_b r, get_c r)"),
    ("shape-3-bac", "let r = { b = 22, a = 3, c = 302 }\nlet get_a r = r.a\nlet get_b r = r.b\nlet get_c r = r.c\n(get_a r, get_b r, get_c r)"),
    ("shape-3-bca", "let r = { b = 23, c = 303, a = 4 }\nlet get_a r = r.a\nlet get_b r = r.b\nlet get_c r = r.c\n(get_a r, get_b r, get_c r)"),
    ("shape-3-cab", "let r = { c = 304, a = 5, b = 24 }\nlet get_a r = r.a\nlet get_b r = r.b\nlet get_c r = r.c\n(get_a r, get_b r, get_c r)"),
    ("shape-3-cba", "let r = { c = 305, b = 25, a = 6 }\nlet get_a r = r.a\nlet get_b r = r.b\nlet get_c r = r.c\n(get_a r, get_b r, get_c r)"),
    ("shape-4-abcd", "let r = { a = 10, b = 20, c = 30, d = 40 }\nlet g_a r = r.a\nlet g_b r = r.b\nlet g_c r = r.c\nlet g_d r = r.d\n(g_a r, g_b r, g_c r, g_d r)"),
    ("shape-4-dcba", "let r = { d = 41, c = 31, b = 21, a = 11 }\nlet g_a r = r.a\nlet g_b r = r.b\nlet g_c r = r.c\nlet g_d r = r.d\n(g_a r, g_b r, g_c r, g_d r)"),
    ("shape-4-badc", "let r = { b = 22, a = 12, d = 42, c = 32 }\nlet g_a r = r.a\nlet g_b r = r.b\nlet g_c r = r.c\nlet g_d r = r.d\n(g_a r, g_b r, g_c r, g_d r)"),
    ("shape-4-cdab", "let r = { c = 33, d = 43, a = 13, b = 23 }\nlet g_a r = r.a\nlet g_b r = r.b\nlet g_c r = r.c\nlet g_d r = r.d\n(g_a r, g_b r, g_c r, g_d r)"),
    ("shape-4-bcda", "let r = { b = 24, c = 34, d = 44, a = 14 }\nlet g_a r = r.a\nlet g_b r = r.b\nlet g_c r = r.c\nlet g_d r = r.d\n(g_a r, g_b r, g_c r, g_d r)"),
    ("shape-5-abcde", "let r = { a = 100, b = 200, c = 300, d = 400, e = 500 }\nlet g_a r = r.a\nlet g_e r = r.e\nlet g_c r = r.c\n{ a = g_a r, c = g_c r, e = g_e r }"),
    ("shape-5-edcba", "let r = { e = 501, d = 401, c = 301, b = 201, a = 101 }\nlet g_a r = r.a\nlet g_e r = r.e\nlet g_c r = r.c\n{ a = g_a r, c = g_c r, e = g_e r }"),
    ("shape-5-bacde", "let r = { b = 202, a = 102, c = 302, d = 402, e = 502 }\nlet g_a r = r.a\nlet g_e r = r.e\nlet g_c r = r.c\n{ a = g_a r, c = g_c r, e = g_e r }"),
    ("shape-5-cdeab", "let r = { c = 303, d = 403, e = 503, a = 103, b = 203 }\nlet g_a r = r.a\nlet g_e r = r.e\nlet g_c r = r.c\n{ a = g_a r, c = g_c r, e = g_e r }"),
    ("shape-5-aebdc", "let r = { a = 104, e = 504, b = 204, d = 404, c = 304 }\nlet g_a r = r.a\nlet g_e r = r.e\nlet g_c r = r.c\n{ a = g_a r, c = g_c r, e = g_e r }"),
    ("shape-nested-xy", "let r = { inner = { x = 1, y = 2 }, k = 3 }\nlet get r = r.inner.x\nlet get2 r = r.inner.y\n(get r, get2 r, r.k)"),
    ("shape-nested-yx", "let r = { k = 3, inner = { y = 2, x = 1 } }\nlet get r = r.inner.x\nlet get2 r = r.inner.y\nlet getk r = r.k\n(get r, get2 r, getk r)"),
    ("shape-fn-xy", "let mk a b = { x = a, y = b }\nlet get_x r = r.x\nlet get_y r = r.y\nlet r = mk 41 42\n(get_x r, get_y r)"),
    ("shape-fn-yx", "let mk a b = { y = b, x = a }\nlet get_x r = r.x\nlet get_y r = r.y\nlet r = mk 43 44\n(get_x r, get_y r)"),
    ("shape-fn-poly-xy", "let mk a b = { x = a, y = b }\nlet get_x r = r.x\nlet get_y r = r.y\n(get_x (mk 1 \"s\"), get_y (mk \"t\" 2))"),
    ("shape-fn-poly-yx", "let mk a b = { y = b, x = a }\nlet get_x r = r.x\nlet get_y r = r.y\n(get_x (mk 1 \"s\"), get_y (mk \"t\" 2))"),
    ("shape-update-xy", "let base = { x = 1, y = 2 }\nlet r = { x = 10, .. base }\nlet get_x r = r.x\nlet get_y r = r.y\n(get_x r, get_y r)"),
    ("shape-update-yx", "let base = { y = 2, x = 1 }\nlet r = { x = 10, .. base }\nlet get_x r = r.x\nlet get_y r = r.y\n(get_x r, get_y r)"),
    ("shape-update-add-xy", "let base = { y = 2 }\nlet r = { x = 10, .. base }\nlet get_x r = r.x\nlet get_y r = r.y\n(get_x r, get_y r)"),
    ("shape-update-add-yx", "let base = { x = 2 }\nlet r = { y = 10, .. base }\nlet get_x r = r.x\nlet get_y r = r.y\n(get_x r, get_y r)"),
    ("shape-pat-xy", "let r = { x = 51, y = 52 }\nlet f r =\n    let { x } = r\n    x\nlet g r =\n    match r with\n    | { y } -> y\n(f r, g r)"),
    ("shape-pat-yx", "let r = { y = 53, x = 54 }\nlet f r =\n    let { x } = r\n    x\nlet g r =\n    match r with\n    | { y } -> y\n(f r, g r)"),
    ("shape-pat-direct-xy", "match { x = 61, y = 62 } with\n| { x, y } -> x #Int- y"),
    ("shape-pat-direct-yx", "match { y = 63, x = 64 } with\n| { x, y } -> x #Int- y"),
    ("shape-variant-xy", "type Opt a = | None | Some a\nlet get_x r = r.x\nmatch Some { x = 71, y = 72 } with\n| Some r -> get_x r\n| None -> 0"),
    ("shape-variant-yx", "type Opt a = | None | Some a\nlet get_x r = r.x\nmatch Some { y = 73, x = 74 } with\n| Some r -> get_x r\n| None -> 0"),
    ("shape-both-in-one", "let a = { x = 81, y = 82 }\nlet b = { y = 83, x = 84 }\nlet get_x r = r.x\nlet get_y r = r.y\n(get_x a, get_y a, get_x b, get_y b)"),
    ("shape-both-in-one-rev", "let b = { y = 83, x = 84 }\nlet a = { x = 81, y = 82 }\nlet get_x r = r.x\nlet get_y r = r.y\n(get_x a, get_y a, get_x b, get_y b)"),
];

/// Programs whose reported type is polymorphic (prelude off).
const POLY_TEMPLATES: [(&str, &str); 28] = [
    ("poly-id", "\\x -> x"),
    ("poly-k", "\\x y -> x"),
    ("poly-compose", "\\f g x -> f (g x)"),
    ("poly-flip", "\\f a b -> f b a"),
    ("poly-record", "{ id = \\x -> x, k = \\x y -> x, n = {n} }"),
    ("poly-let", "let id x = x\nid"),
    ("poly-let-pair", "let id x = x\n(id, id {n}, id \"s\")"),
    ("poly-array", "[]"),
    ("poly-row", "\\r -> r.a"),
    ("poly-row2", "\\r -> r.a #Int+ r.b"),
    ("poly-row-nested", "\\r -> r.a.b"),
    ("poly-variant", "type Opt a = | None | Some a\nNone"),
    ("poly-variant-fn", "type Opt a = | None | Some a\n\\x -> Some x"),
    ("poly-apply", "\\f x -> f x x"),
    ("poly-many", "\\a b c d e f g h -> (a, b, c, d, e, f, g, h)"),
    ("poly-annot", "let f : forall a b . a -> b -> a = \\x y -> x\nf"),
    ("poly-rec", "rec let f x = g x\nrec let g x = f x\n{ f, g }"),
    // ill typed ones that print unsolved variables
    ("poly-err-occurs", "\\x -> x x"),
    ("poly-err-if", "if (\\x -> x) then {n} else {m}"),
    ("poly-err-apply-int", "(\\x -> x) {n} {m}"),
    ("poly-err-field", "(\\x -> x).fld"),
    ("poly-err-occurs2", "let f g = g g {n}\nf"),
    ("poly-err-row", "let f r = r.a #Int+ r.b\nf { a = {n} }"),
    // the same type name with another shape than the MiniGluon programs declare (long-lived VMs see both)
    ("shape-clash-ok", "type T = | A String | Z Int\nmatch A \"x{n}\" with\n| A s -> s\n| Z _ -> \"z\""),
    ("shape-clash-err", "type T = | A String | Z Int\nA {n}"),
    ("shape-clash-opt", "type Opt a = | Some a a | None\nSome {n} \"s\""),
    ("no-header-if", "if {n} #Int< {m} then {n} else {m}"),
    ("poly-err-mismatch", "let f x y = x\nlet g : String -> () = f {n}\ng"),
];

fn fill(t: &str, rng: &mut Rng) -> String {
    t.replace("{n}", &rng.range(0, 9).to_string()).replace("{m}", &rng.range(0, 9).to_string())
}

struct Generated {
    inputs: Vec<Input>,
    /// for well-typed MiniGluon inputs: (input id, s-expression of the program, program) — model prediction
    model: Vec<(usize, String, Program)>,
    /// ids of trivial inputs (a MiniGluon program that is a bare literal or binds nothing, unmutated)
    trivial: BTreeSet<usize>,
    hist: Hist,
}

fn corpus_dir() -> PathBuf {
    PathBuf::from(std::env::var("VERIF_DIR").unwrap_or_else(|_| "/verif".into())).join("corpus").join("C16")
}

fn generate_inputs(seed: u64, n_total: usize, n_std: usize) -> Generated {
    let mut rng = Rng::new(seed ^ 0xC16);
    let mut inputs: Vec<Input> = Vec::new();
    let mut model = Vec::new();
    let mut trivial = BTreeSet::new();
    let mut hist = Hist::default();
    let mut seen: BTreeSet<String> = BTreeSet::new();
    let mut push = |inputs: &mut Vec<Input>, hist: &mut Hist, group: &str, kind: Kind, prelude: bool, src: String, rng: &mut Rng| -> Option<usize> {
        let id = inputs.len();
        // a third of the inputs share the module name "test" (as a REPL re-uses one name), the
        // others have a name of their own
        let name = if rng.below(3) == 0 { "test".to_string() } else { format!("m{}", id) };
        let inp = Input { id, group: group.to_string(), kind, prelude, name, src };
        if !seen.insert(format!("{}|{}", inp.prelude, inp.src)) {
            return None;
        }
        hist.add(&format!("group:{}", group.split(':').next().unwrap_or(group)));
        if group.starts_with("mg-mut:") {
            hist.add(group);
        }
        inputs.push(inp);
        Some(id)
    };
    // corpus first
    if let Ok(rd) = std::fs::read_dir(corpus_dir()) {
        let mut files: Vec<PathBuf> = rd.filter_map(|e| e.ok().map(|e| e.path())).filter(|p| p.extension().map(|x| x == "glu").unwrap_or(false)).collect();
        files.sort();
        for f in files {
            if let Ok(text) = std::fs::read_to_string(&f) {
                // first line `// prelude` switches the implicit prelude on
                let prelude = text.starts_with("// prelude");
                push(&mut inputs, &mut hist, "corpus", Kind::Run, prelude, text, &mut rng);
            }
        }
    }
    // diagnostics that enumerate (seed independent, always all of them)
    let _ = WIDE5;
    for (g, prelude, t) in ENUM_TEMPLATES.iter() {
        // the type checker's message is the subject: mostly `run_expr`, a third `typecheck_str`
        let kind = if rng.below(3) == 0 { Kind::Tc } else { Kind::Run };
        push(&mut inputs, &mut hist, g, kind, *prelude, t.to_string(), &mut rng);
    }
    // same field names in different orders, read by name (seed independent, always all of them)
    for (g, t) in SHAPE_TEMPLATES.iter() {
        push(&mut inputs, &mut hist, g, Kind::Run, false, t.to_string(), &mut rng);
    }
    // polymorphic-type programs and standard library programs
    for (g, t) in POLY_TEMPLATES.iter() {
        let kind = if rng.below(2) == 0 { Kind::Run } else { Kind::Tc };
        push(&mut inputs, &mut hist, g, kind, false, fill(t, &mut rng), &mut rng);
    }
    let mut k = 0;
    while k < n_std {
        let (g, t) = STD_TEMPLATES[k % STD_TEMPLATES.len()];
        let kind = if rng.below(4) == 0 { Kind::Tc } else { Kind::Run };
        push(&mut inputs, &mut hist, g, kind, true, fill(t, &mut rng), &mut rng);
        k += 1;
    }
    // MiniGluon programs and their mutants
    let mut guard = 0;
    while inputs.len() < n_total && guard < n_total * 20 {
        guard += 1;
        let cfg = gen_cfg(&mut rng);
        let p = mg::generate::gen_program(&mut rng, &cfg);
        let style = if rng.below(2) == 0 { Style::layout() } else { Style::explicit() };
        let src = mg::print::to_gluon(&p, &style);
        let kind = if rng.below(5) == 0 { Kind::Tc } else { Kind::Run };
        if let Some(id) = push(&mut inputs, &mut hist, "mg-ok", kind.clone(), false, src, &mut rng) {
            if kind == Kind::Run && p.ty.is_first_order(&p.types) {
                model.push((id, mg::sexp::program_to_sexp(&p), p.clone()));
            }
            if !p.nontrivial() {
                trivial.insert(id);
            }
        }
        // 1..3 mutants of it
        let nm = 1 + rng.below(3);
        for _ in 0..nm {
            let mut q = p.clone();
            let mut kinds = Vec::new();
            let steps = 1 + rng.below(3);
            for _ in 0..steps {
                let which = *rng.pick(&MUTATIONS);
                if mutate(&mut q, which, &mut rng) {
                    kinds.push(which);
                }
            }
            if kinds.is_empty() {
                continue;
            }
            let src = mg::print::to_gluon(&q, &style);
            let kind = if rng.below(3) == 0 { Kind::Tc } else { Kind::Run };
            push(&mut inputs, &mut hist, &format!("mg-mut:{}", kinds[0]), kind, false, src, &mut rng);
        }
    }
    Generated { inputs, model, trivial, hist }
}

/// Unrelated work for history H2: well-typed and ill-typed programs from another seed.
fn filler_programs(seed: u64, k: usize, prelude: bool) -> Vec<Input> {
    let mut rng = Rng::new(seed ^ 0xF111E5);
    let mut out = Vec::new();
    while out.len() < k {
        let i = out.len();
        let (group, src) = if prelude && rng.below(3) == 0 {
            let (g, t) = *rng.pick(&STD_TEMPLATES);
            (g.to_string(), fill(t, &mut rng))
        } else if rng.below(6) == 0 {
            let (g, t) = *rng.pick(&POLY_TEMPLATES);
            (g.to_string(), fill(t, &mut rng))
        } else {
            let cfg = gen_cfg(&mut rng);
            let mut p = mg::generate::gen_program(&mut rng, &cfg);
            let mut g = "filler-ok".to_string();
            if rng.below(2) == 0 {
                let which = *rng.pick(&MUTATIONS);
                if mutate(&mut p, which, &mut rng) {
                    g = format!("filler-mut:{}", which);
                }
            }
            (g, mg::print::to_gluon(&p, &Style::layout()))
        };
        // some fillers reuse the shared module name of the inputs
        let name = if rng.below(4) == 0 { "test".to_string() } else { format!("filler{}", i) };
        out.push(Input { id: usize::MAX, group, kind: if rng.below(4) == 0 { Kind::Tc } else { Kind::Run }, prelude, name, src });
    }
    out
}

// ------------------------------------------------------------------------------------------
// observation
// ------------------------------------------------------------------------------------------

#[derive(Clone, Debug, PartialEq, Eq)]
struct Obs {
    value: String,
    ty: String,
    diag: String,
    display: String,
    /// empty when rendering the SAME error value a second (and third) time in the same process
    /// (`emit_string` and `Display`) gives the same text; otherwise what differed and both texts
    rerender: String,
}

const COMPONENTS: [&str; 5] = ["value", "type", "diag", "display", "rerender"];
/// separates the two renderings inside `Obs::rerender`
const RERENDER_SEP: &str = "\n=====second-rendering=====\n";

impl Obs {
    fn get(&self, c: &str) -> &str {
        match c {
            "value" => &self.value,
            "type" => &self.ty,
            "diag" => &self.diag,
            "rerender" => &self.rerender,
            _ => &self.display,
        }
    }
    fn to_fields(&self) -> String {
        format!("{}\t{}\t{}\t{}\t{}", hex(&self.value), hex(&self.ty), hex(&self.diag), hex(&self.display), hex(&self.rerender))
    }
    fn from_fields(p: &[&str]) -> Obs {
        Obs { value: unhex(p[0]), ty: unhex(p[1]), diag: unhex(p[2]), display: unhex(p[3]), rerender: unhex(p[4]) }
    }
    fn to_json(&self) -> serde_json::Value {
        serde_json::json!({"value": self.value, "type": self.ty, "diag": self.diag, "display": self.display, "rerender": self.rerender})
    }
}

fn new_vm(prelude: bool) -> RootedThread {
    mg::run::new_vm_with(&mg::run::VmOptions { prelude, optimize: None })
}

fn log_str(l: &[i64]) -> String {
    let mut s = String::from("(log");
    for x in l {
        s.push(' ');
        s.push_str(&x.to_string());
    }
    s.push(')');
    s
}

fn err_obs(e: &gluon::Error, log: &[i64]) -> Obs {
    use mg::run::{ErrKind, Outcome};
    let k = mg::run::classify(e);
    let value = match &k {
        ErrKind::Parse(_) | ErrKind::Typecheck(_) | ErrKind::HostPanic(_) | ErrKind::Other(_) => {
            format!("(err {} {})", Outcome::Err(k.clone(), vec![]).class(), log_str(log))
        }
        _ => Outcome::Err(k.clone(), log.to_vec()).canonical(),
    };
    let emit = |e: &gluon::Error| match e.emit_string() {
        Ok(s) => s,
        Err(x) => format!("<emit_string failed: {}>", x),
    };
    let diag = emit(e);
    let display = format!("{}", e);
    // the same error value rendered again, twice, in the same process
    let mut rerender = String::new();
    for _ in 0..2 {
        let d2 = emit(e);
        if d2 != diag && rerender.is_empty() {
            rerender = format!("emit_string{}{}{}{}", RERENDER_SEP, diag, RERENDER_SEP, d2);
        }
        let p2 = format!("{}", e);
        if p2 != display && rerender.is_empty() {
            rerender = format!("Display{}{}{}{}", RERENDER_SEP, display, RERENDER_SEP, p2);
        }
    }
    Obs { value, ty: String::new(), diag, display, rerender }
}

/// One evaluation of `inp` on `vm` (which must have the input's prelude setting).
fn observe(vm: &RootedThread, inp: &Input) -> Obs {
    mg::run::log_clear();
    let r = std::panic::catch_unwind(std::panic::AssertUnwindSafe(|| match inp.kind {
        Kind::Run => match vm.run_expr::<OpaqueValue<RootedThread, Hole>>(&inp.name, &inp.src) {
            Ok((v, ty)) => {
                let mut val = mg::value::canon(vm, v.get_variant());
                // a record result is ALSO read field by field from the host side, by name
                // (`Data::lookup_field`, what the marshalling API of an embedder does)
                {
                    use gluon::base::types::TypeExt;
                    use gluon::vm::api::ValueRef;
                    if let ValueRef::Data(d) = v.get_variant().as_ref() {
                        let mut by_name = String::new();
                        for f in ty.remove_forall().row_iter() {
                            let name = f.name.declared_name();
                            match d.lookup_field(vm, name) {
                                Some(x) => by_name.push_str(&format!(" ({} {})", name, mg::value::canon(vm, x))),
                                None => by_name.push_str(&format!(" ({} <absent>)", name)),
                            }
                        }
                        if !by_name.is_empty() {
                            val.push_str(&format!(" (by-name{})", by_name));
                        }
                    }
                }
                let log = mg::run::log_take();
                Obs { value: format!("(val {} {})", val, log_str(&log)), ty: format!("{}", ty), diag: String::new(), display: String::new(), rerender: String::new() }
            }
            Err(e) => {
                let log = mg::run::log_take();
                err_obs(&e, &log)
            }
        },
        Kind::Tc => match vm.typecheck_str(&inp.name, &inp.src, None) {
            Ok((_e, ty)) => Obs { value: "(typechecked)".into(), ty: format!("{}", ty), diag: String::new(), display: String::new(), rerender: String::new() },
            Err(e) => err_obs(&e, &[]),
        },
    }));
    match r {
        Ok(o) => o,
        Err(p) => {
            let msg = if let Some(s) = p.downcast_ref::<String>() {
                s.clone()
            } else if let Some(s) = p.downcast_ref::<&str>() {
                s.to_string()
            } else {
                "panic".to_string()
            };
            mg::run::log_clear();
            Obs { value: "(err hostpanic)".into(), ty: String::new(), diag: format!("host panic: {}", msg), display: String::new(), rerender: String::new() }
        }
    }
}

// ------------------------------------------------------------------------------------------
// child: one history over one batch
// ------------------------------------------------------------------------------------------

struct Vms {
    off: Option<RootedThread>,
    on: Option<RootedThread>,
}
impl Vms {
    fn new() -> Vms {
        Vms { off: None, on: None }
    }
    fn get(&mut self, prelude: bool) -> RootedThread {
        let slot = if prelude { &mut self.on } else { &mut self.off };
        if slot.is_none() {
            *slot = Some(new_vm(prelude));
        }
        slot.as_ref().unwrap().clone()
    }
}

fn spec_param(spec: &str, key: &str) -> Option<u64> {
    spec.split(':').skip(1).find_map(|kv| kv.strip_prefix(&format!("{}=", key)).and_then(|v| v.parse().ok()))
}

fn shuffle<T>(xs: &mut Vec<T>, rng: &mut Rng) {
    for i in (1..xs.len()).rev() {
        let j = rng.below(i as u64 + 1) as usize;
        xs.swap(i, j);
    }
}

/// Runs the history `spec` over `inputs`; `emit(tag, input, obs)` is called per observation and
/// `trace(input)` per evaluation, in order.
fn run_history(spec: &str, inputs: &[Input], emit: &mut dyn FnMut(&str, &Input, &Obs), trace: &mut dyn FnMut(&str, &Input)) {
    let head = spec.split(':').next().unwrap_or("");
    match head {
        "seq" | "perm" | "rev" => {
            let mut order: Vec<&Input> = inputs.iter().collect();
            if head == "rev" {
                order.reverse();
            }
            if head == "perm" {
                let mut rng = Rng::new(spec_param(spec, "seed").unwrap_or(1));
                shuffle(&mut order, &mut rng);
            }
            let k = spec_param(spec, "k").unwrap_or(0) as usize;
            let fseed = spec_param(spec, "fseed").unwrap_or(7);
            let mut vms = Vms::new();
            let mut warmed = [false, false];
            for inp in order {
                let vm = vms.get(inp.prelude);
                if k > 0 && !warmed[inp.prelude as usize] {
                    warmed[inp.prelude as usize] = true;
                    for f in filler_programs(fseed, k, inp.prelude) {
                        trace("vm", &f);
                        let _ = observe(&vm, &f);
                    }
                }
                trace("vm", inp);
                let o = observe(&vm, inp);
                emit("", inp, &o);
            }
        }
        "fresh" => {
            for inp in inputs {
                let vm = new_vm(inp.prelude);
                let o = observe(&vm, inp);
                emit("", inp, &o);
            }
        }
        "twice" => {
            let mut vms = Vms::new();
            for inp in inputs {
                let vm = vms.get(inp.prelude);
                trace("vm", inp);
                let o1 = observe(&vm, inp);
                emit("first", inp, &o1);
                trace("vm", inp);
                let o2 = observe(&vm, inp);
                emit("second", inp, &o2);
            }
        }
        "thread" => {
            let os = spec.contains("os");
            let mut vms = Vms::new();
            for inp in inputs {
                let vm = vms.get(inp.prelude);
                trace(if os { "os-thread" } else { "child-thread" }, inp);
                let o = if os {
                    let vm2 = vm.clone();
                    let inp2 = inp.clone();
                    std::thread::Builder::new()
                        .stack_size(1 << 30)
                        .spawn(move || observe(&vm2, &inp2))
                        .expect("spawn")
                        .join()
                        .unwrap_or(Obs { value: "(err thread-died)".into(), ty: String::new(), diag: String::new(), display: String::new(), rerender: String::new() })
                } else {
                    match vm.new_thread() {
                        Ok(t) => observe(&t, inp),
                        Err(e) => Obs { value: "(err new_thread)".into(), ty: String::new(), diag: format!("{}", e), display: String::new(), rerender: String::new() },
                    }
                };
                emit("", inp, &o);
            }
        }
        "toggle" => {
            // one VM, the implicit-prelude setting switched to the input's setting before each input
            let vm = new_vm(false);
            for inp in inputs {
                vm.get_database_mut().set_implicit_prelude(inp.prelude);
                trace("toggle", inp);
                let o = observe(&vm, inp);
                emit("", inp, &o);
            }
        }
        other => panic!("unknown history {}", other),
    }
}

/// CPU seconds (user + system, all threads of the child) one evaluation may burn before the child's
/// watchdog aborts the process; wall-clock time is not used because the machine may be loaded.
/// The first evaluation on a VM with the implicit prelude compiles the prelude, hence the larger
/// allowance for prelude inputs.  A blocked (not spinning) evaluation is caught by the wall limit.
const EVAL_CPU_LIMIT_S: u64 = 20;
const EVAL_CPU_LIMIT_PRELUDE_S: u64 = 150;
const EVAL_WALL_LIMIT_S: u64 = 600;
const EVAL_LIMIT_S: u64 = EVAL_CPU_LIMIT_S;

/// CPU time of this process in milliseconds (/proc/self/stat utime + stime, 100 ticks per second).
fn cpu_ms() -> u64 {
    let s = std::fs::read_to_string("/proc/self/stat").unwrap_or_default();
    // the command name may contain spaces: fields start after the last ')'
    let rest = s.rsplit_once(')').map(|x| x.1).unwrap_or("");
    let f: Vec<&str> = rest.split_whitespace().collect();
    // rest starts at field 3 (state): utime = field 14, stime = field 15
    let ut: u64 = f.get(11).and_then(|x| x.parse().ok()).unwrap_or(0);
    let st: u64 = f.get(12).and_then(|x| x.parse().ok()).unwrap_or(0);
    (ut + st) * 10
}

/// child <inputs.tsv> <spec> <obs-out> <trace-out> <progress-out>
///
/// Every file is written incrementally: the trace line and a `B <id>` progress line BEFORE an
/// evaluation, the observation and an `E <id>` progress line after it, so that the parent can
/// attribute a death of the process (abort, stack overflow, watchdog) to the exact input.
fn child_main(rest: &[String]) {
    use std::sync::atomic::{AtomicU64, Ordering};
    use std::sync::Arc;
    let inputs = read_inputs(Path::new(&rest[0]));
    let spec = rest[1].clone();
    let obs = std::cell::RefCell::new(std::fs::File::create(&rest[2]).expect("obs out"));
    let tr = std::cell::RefCell::new(std::fs::File::create(&rest[3]).expect("trace out"));
    let progress = std::cell::RefCell::new(std::fs::File::create(&rest[4]).expect("progress out"));
    // watchdog: `started` = CPU ms (+1) at the start of the running evaluation, 0 when idle;
    // `limit` = its CPU allowance in ms; `started_wall` likewise in wall ms
    let started = Arc::new(AtomicU64::new(0));
    let started_wall = Arc::new(AtomicU64::new(0));
    let limit = Arc::new(AtomicU64::new(EVAL_CPU_LIMIT_S * 1000));
    let t0 = Instant::now();
    {
        let started = started.clone();
        let started_wall = started_wall.clone();
        let limit = limit.clone();
        let wd_path = format!("{}.watchdog", rest[4]);
        std::thread::spawn(move || loop {
            std::thread::sleep(Duration::from_millis(250));
            let s = started.load(Ordering::SeqCst);
            let w = started_wall.load(Ordering::SeqCst);
            if s != 0 && w != 0 {
                let cpu = cpu_ms().saturating_sub(s);
                let wall = (t0.elapsed().as_millis() as u64).saturating_sub(w);
                if cpu > limit.load(Ordering::SeqCst) || wall > EVAL_WALL_LIMIT_S * 1000 {
                    let _ = std::fs::write(&wd_path, format!("cpu {} ms, wall {} ms\n", cpu, wall));
                    std::process::abort();
                }
            }
        });
    }
    // optional 6th argument: CPU allowance in seconds (phase 2 is more generous than the filter pass,
    // so that an input just under the filter's limit cannot die of the watchdog later)
    let base_limit: u64 = rest.get(5).and_then(|x| x.parse().ok()).unwrap_or(EVAL_CPU_LIMIT_S);
    let arm = |inp: &Input| {
        limit.store(if inp.prelude { EVAL_CPU_LIMIT_PRELUDE_S.max(base_limit) } else { base_limit } * 1000, Ordering::SeqCst);
        started_wall.store(t0.elapsed().as_millis() as u64 + 1, Ordering::SeqCst);
        started.store(cpu_ms() + 1, Ordering::SeqCst);
    };
    let disarm = || {
        started.store(0, Ordering::SeqCst);
        started_wall.store(0, Ordering::SeqCst);
    };
    // fresh-VM histories do not call `trace`: mark the evaluation from `emit`'s counterpart below
    let fresh = spec.starts_with("fresh");
    if fresh {
        for inp in &inputs {
            writeln!(progress.borrow_mut(), "B {}", inp.id).unwrap();
            let vm = new_vm(inp.prelude);
            arm(inp);
            let o = observe(&vm, inp);
            disarm();
            writeln!(obs.borrow_mut(), "{}\t-\t{}", inp.id, o.to_fields()).unwrap();
            writeln!(progress.borrow_mut(), "E {}", inp.id).unwrap();
            std::mem::forget(vm);
        }
        std::process::exit(0);
    }
    run_history(
        &spec,
        &inputs,
        &mut |tag, inp, o| {
            disarm();
            writeln!(obs.borrow_mut(), "{}\t{}\t{}", inp.id, if tag.is_empty() { "-" } else { tag }, o.to_fields()).unwrap();
            writeln!(progress.borrow_mut(), "E {}", inp.id).unwrap();
        },
        &mut |how, inp| {
            writeln!(tr.borrow_mut(), "{}\t{}", how, inp.to_line()).unwrap();
            if inp.id != usize::MAX {
                writeln!(progress.borrow_mut(), "B {}", inp.id).unwrap();
            }
            arm(inp);
        },
    );
    // leave without running destructors of VMs (faster, and a crash in teardown is not our subject)
    std::process::exit(0);
}

/// seqchild <sequence.tsv> <obs-out>: evaluates the sequence (trace format) in order, one VM per
/// setting (or one toggled VM when the entries say `toggle`), prints the observation of the LAST entry.
fn seqchild_main(rest: &[String]) {
    let text = std::fs::read_to_string(&rest[0]).expect("sequence");
    let entries: Vec<(String, Input)> = text
        .lines()
        .filter_map(|l| {
            let (how, r) = l.split_once('\t')?;
            Some((how.to_string(), Input::from_line(r)?))
        })
        .collect();
    let mut vms = Vms::new();
    let toggled = new_vm_lazy();
    let mut last = None;
    for (how, inp) in &entries {
        let o = match how.as_str() {
            "toggle" => {
                let vm = toggled.get();
                vm.get_database_mut().set_implicit_prelude(inp.prelude);
                observe(&vm, inp)
            }
            "child-thread" => {
                let vm = vms.get(inp.prelude);
                match vm.new_thread() {
                    Ok(t) => observe(&t, inp),
                    Err(_) => observe(&vm, inp),
                }
            }
            "os-thread" => {
                let vm = vms.get(inp.prelude);
                let inp2 = inp.clone();
                std::thread::Builder::new().stack_size(1 << 30).spawn(move || observe(&vm, &inp2)).expect("spawn").join().expect("join")
            }
            _ => observe(&vms.get(inp.prelude), inp),
        };
        last = Some(o);
    }
    let o = last.expect("empty sequence");
    std::fs::write(&rest[1], o.to_fields()).expect("write obs");
    std::process::exit(0);
}

struct LazyVm(std::cell::RefCell<Option<RootedThread>>);
fn new_vm_lazy() -> LazyVm {
    LazyVm(std::cell::RefCell::new(None))
}
impl LazyVm {
    fn get(&self) -> RootedThread {
        let mut s = self.0.borrow_mut();
        if s.is_none() {
            *s = Some(new_vm(false));
        }
        s.as_ref().unwrap().clone()
    }
}

// ------------------------------------------------------------------------------------------
// parent: job scheduling
// ------------------------------------------------------------------------------------------

struct Job {
    label: String,
    args: Vec<String>,
    timeout: Duration,
}
impl Job {
    /// the last argument of every child invocation is an output path: stderr goes next to it
    fn stderr_path(&self) -> String {
        // `child`: the progress path (5th argument); `seqchild`: the observation path (last argument)
        let a = if self.args.first().map(|x| x == "child").unwrap_or(false) { &self.args[5] } else { self.args.last().expect("job args") };
        format!("{}.stderr", a)
    }
}

/// Runs the jobs with at most `workers` concurrent child processes; returns label -> (ok, note).
fn run_jobs(jobs: Vec<Job>, workers: usize) -> BTreeMap<String, (bool, String)> {
    let exe = std::env::current_exe().expect("current_exe");
    let mut res = BTreeMap::new();
    let mut queue: std::collections::VecDeque<Job> = jobs.into();
    let mut running: Vec<(Job, std::process::Child, Instant)> = Vec::new();
    while !queue.is_empty() || !running.is_empty() {
        while running.len() < workers && !queue.is_empty() {
            let j = queue.pop_front().unwrap();
            // stderr goes to a file (a pipe nobody drains would block a chatty child)
            let errpath = j.stderr_path();
            let errfile = std::fs::File::create(&errpath).expect("child stderr file");
            let ch = std::process::Command::new(&exe)
                .args(&j.args)
                .stdout(std::process::Stdio::null())
                .stderr(errfile)
                .spawn()
                .expect("spawn child");
            running.push((j, ch, Instant::now()));
        }
        let mut i = 0;
        let mut progressed = false;
        while i < running.len() {
            let done = match running[i].1.try_wait() {
                Ok(Some(st)) => Some((st.success(), format!("exit {:?}", st.code()))),
                Ok(None) => {
                    if running[i].2.elapsed() > running[i].0.timeout {
                        let _ = running[i].1.kill();
                        let _ = running[i].1.wait();
                        Some((false, "timeout (watchdog)".to_string()))
                    } else {
                        None
                    }
                }
                Err(e) => Some((false, format!("wait failed: {}", e))),
            };
            if let Some((ok, mut note)) = done {
                let (j, mut ch, _) = running.swap_remove(i);
                let _ = &mut ch;
                if !ok {
                    let err = std::fs::read_to_string(j.stderr_path()).unwrap_or_default();
                    let tail: String = err.chars().rev().take(600).collect::<String>().chars().rev().collect();
                    note = format!("{}: {}", note, tail);
                }
                res.insert(j.label, (ok, note));
                progressed = true;
            } else {
                i += 1;
            }
        }
        if !progressed {
            std::thread::sleep(Duration::from_millis(5));
        }
    }
    res
}

fn read_obs(path: &Path) -> Vec<(usize, String, Obs)> {
    let mut v = Vec::new();
    if let Ok(text) = std::fs::read_to_string(path) {
        for l in text.lines() {
            let p: Vec<&str> = l.split('\t').collect();
            if p.len() == 7 {
                if let Ok(id) = p[0].parse() {
                    v.push((id, p[1].to_string(), Obs::from_fields(&p[2..])));
                }
            }
        }
    }
    v
}

// ------------------------------------------------------------------------------------------
// classification of a difference
// ------------------------------------------------------------------------------------------

fn tokens(s: &str) -> Vec<String> {
    let mut out = Vec::new();
    let mut cur = String::new();
    for c in s.chars() {
        if c.is_alphanumeric() || c == '_' {
            cur.push(c);
        } else {
            if !cur.is_empty() {
                out.push(std::mem::take(&mut cur));
            }
            if !c.is_whitespace() {
                out.push(c.to_string());
            }
        }
    }
    if !cur.is_empty() {
        out.push(cur);
    }
    out
}

fn slug(s: &str) -> String {
    let mut o = String::new();
    for c in s.chars() {
        if c.is_ascii_alphanumeric() {
            o.push(c.to_ascii_lowercase());
        } else if !o.ends_with('-') {
            o.push('-');
        }
    }
    o.trim_matches('-').chars().take(48).collect::<String>().trim_matches('-').to_string()
}

/// headline of a diagnostic: the first `error…` line without numbers
fn headline(diag: &str) -> String {
    let l = diag.lines().find(|l| !l.trim().is_empty()).unwrap_or("");
    let l: String = l.chars().filter(|c| !c.is_ascii_digit()).collect();
    slug(&l)
}

/// A stable description of how two texts differ.
fn diff_class(a: &str, b: &str) -> String {
    let ta = tokens(a);
    let tb = tokens(b);
    let is_tyvar = |t: &str| {
        let letters: String = t.chars().take_while(|c| c.is_ascii_lowercase()).collect();
        let rest = &t[letters.len()..];
        letters.len() == 1 && rest.chars().all(|c| c.is_ascii_digit())
    };
    if ta.len() == tb.len() {
        let pairs: Vec<(&String, &String)> = ta.iter().zip(tb.iter()).filter(|(x, y)| x != y).collect();
        if !pairs.is_empty() {
            // `implicit?<N>`: the name the parser gives an implicit-import binding (`{ …, ? }`),
            // N = absolute byte position of the `?` (parser/src/grammar.lalrpop AtomicPattern)
            let idx: Vec<usize> = (0..ta.len()).filter(|i| ta[*i] != tb[*i]).collect();
            if idx.iter().all(|&i| {
                i >= 2 && ta[i - 2] == "implicit" && ta[i - 1] == "?" && ta[i].chars().all(|c| c.is_ascii_digit()) && tb[i].chars().all(|c| c.is_ascii_digit())
            }) {
                return "implicit-import-position".to_string();
            }
            if pairs.iter().all(|(x, y)| is_tyvar(x) && is_tyvar(y)) {
                return "unsolved-type-variable-id".to_string();
            }
            if pairs.iter().all(|(x, y)| x.chars().all(|c| c.is_ascii_digit()) && y.chars().all(|c| c.is_ascii_digit())) {
                return "numeric-id".to_string();
            }
            let strip = |t: &str| t.trim_end_matches(|c: char| c.is_ascii_digit()).to_string();
            if pairs.iter().all(|(x, y)| strip(x) == strip(y)) {
                return "identifier-numeric-suffix".to_string();
            }
        }
    }
    // the lines that differ are renderings of a type abbreviated with `...` (the renderer keeps only
    // some fields / constructors: check/src/unify_type.rs similarity_filter, base/src/types Filter)
    {
        let la: Vec<&str> = a.lines().collect();
        let lb: Vec<&str> = b.lines().collect();
        if la.len() == lb.len() && !la.is_empty() {
            let d: Vec<(&&str, &&str)> = la.iter().zip(lb.iter()).filter(|(x, y)| x != y).collect();
            if !d.is_empty() && d.iter().all(|(x, y)| x.contains("...") && y.contains("...")) {
                return "fields-shown-in-abbreviated-type".to_string();
            }
        }
    }
    let mut la: Vec<&str> = a.lines().collect();
    let mut lb: Vec<&str> = b.lines().collect();
    la.sort();
    lb.sort();
    if la == lb {
        return "line-order".to_string();
    }
    let mut sa = ta.clone();
    let mut sb = tb.clone();
    sa.sort();
    sb.sort();
    if sa == sb {
        return "token-order".to_string();
    }
    if a.is_empty() || b.is_empty() {
        return "present-vs-absent".to_string();
    }
    "text".to_string()
}

// ------------------------------------------------------------------------------------------
// reproduction: minimal pair of histories
// ------------------------------------------------------------------------------------------

struct Repro<'a> {
    dir: &'a Path,
    counter: usize,
    probes: usize,
}

impl<'a> Repro<'a> {
    /// observation of the last entry of `seq`, evaluated in a fresh process
    fn probe(&mut self, seq: &[(String, Input)]) -> Option<Obs> {
        self.counter += 1;
        self.probes += 1;
        let f = self.dir.join(format!("probe-{}.tsv", self.counter));
        let o = self.dir.join(format!("probe-{}.obs", self.counter));
        let mut text = String::new();
        for (how, inp) in seq {
            text.push_str(&format!("{}\t{}\n", how, inp.to_line()));
        }
        std::fs::write(&f, text).ok()?;
        let r = run_jobs(
            vec![Job { label: "p".into(), args: vec!["seqchild".into(), f.to_string_lossy().into(), o.to_string_lossy().into()], timeout: Duration::from_secs(120) }],
            1,
        );
        let ok = r.get("p").map(|x| x.0).unwrap_or(false);
        let res = if ok {
            std::fs::read_to_string(&o).ok().and_then(|t| {
                let p: Vec<&str> = t.trim_end_matches('\n').split('\t').collect();
                if p.len() == 5 { Some(Obs::from_fields(&p)) } else { None }
            })
        } else {
            None
        };
        let _ = std::fs::remove_file(&f);
        let _ = std::fs::remove_file(&o);
        res
    }
}

/// Delta-debugs the prefix of `seq` (everything before the last entry) while `bad(obs)` holds.
fn minimise(r: &mut Repro, seq: Vec<(String, Input)>, bad: &dyn Fn(&Obs) -> bool, budget: usize) -> Vec<(String, Input)> {
    let last = seq.last().unwrap().clone();
    let mut prefix: Vec<(String, Input)> = seq[..seq.len() - 1].to_vec();
    let start = r.probes;
    let test = |r: &mut Repro, p: &[(String, Input)]| -> bool {
        let mut s = p.to_vec();
        s.push(last.clone());
        match r.probe(&s) {
            Some(o) => bad(&o),
            None => false,
        }
    };
    // quick wins: empty prefix, each single entry
    let mut chunk = prefix.len().max(1);
    while chunk >= 1 && !prefix.is_empty() && r.probes - start < budget {
        let mut i = 0;
        let mut removed_any = false;
        while i < prefix.len() && r.probes - start < budget {
            let end = (i + chunk).min(prefix.len());
            let mut cand = prefix[..i].to_vec();
            cand.extend_from_slice(&prefix[end..]);
            if test(r, &cand) {
                prefix = cand;
                removed_any = true;
            } else {
                i = end;
            }
        }
        if chunk == 1 && !removed_any {
            break;
        }
        if chunk > 1 {
            chunk = (chunk + 1) / 2;
        } else if !removed_any {
            break;
        }
    }
    prefix.push(last);
    prefix
}

fn seq_to_json(seq: &[(String, Input)]) -> serde_json::Value {
    serde_json::Value::Array(
        seq.iter()
            .map(|(how, i)| {
                serde_json::json!({"how": how, "name": i.name, "kind": if i.kind == Kind::Run {"run"} else {"tc"}, "prelude": i.prelude, "source": i.src, "group": i.group})
            })
            .collect(),
    )
}
fn seq_from_json(v: &serde_json::Value) -> Vec<(String, Input)> {
    v.as_array()
        .map(|a| {
            a.iter()
                .map(|e| {
                    (
                        e["how"].as_str().unwrap_or("vm").to_string(),
                        Input {
                            id: 0,
                            group: e["group"].as_str().unwrap_or("").to_string(),
                            kind: if e["kind"].as_str() == Some("tc") { Kind::Tc } else { Kind::Run },
                            prelude: e["prelude"].as_bool().unwrap_or(false),
                            name: e["name"].as_str().unwrap_or("test").to_string(),
                            src: e["source"].as_str().unwrap_or("").to_string(),
                        },
                    )
                })
                .collect()
        })
        .unwrap_or_default()
}

fn read_trace(path: &Path) -> Vec<(String, Input)> {
    std::fs::read_to_string(path)
        .map(|t| {
            t.lines()
                .filter_map(|l| {
                    let (how, r) = l.split_once('\t')?;
                    Some((how.to_string(), Input::from_line(r)?))
                })
                .collect()
        })
        .unwrap_or_default()
}

// ------------------------------------------------------------------------------------------
// grouping tie: order of the alternatives the real match compiler produces
// ------------------------------------------------------------------------------------------

mod grouping {
    use super::*;
    use gluon::compiler_pipeline::Compileable;
    use gluon::vm::core::{Alternative, Expr as CExpr, Literal as CLit, Named, Pattern as CPattern};

    /// The alternatives of the first core `match` whose scrutinee is the variable `scrut`.
    fn find_match<'a>(e: &'a CExpr<'a>, scrut: &str, out: &mut Option<Vec<String>>) {
        if out.is_some() {
            return;
        }
        match e {
            CExpr::Match(s, alts) => {
                let is = match s {
                    CExpr::Ident(id, _) => id.name.declared_name() == scrut,
                    _ => false,
                };
                if is {
                    *out = Some(alts.iter().map(|a: &Alternative| pat_key(&a.pattern)).collect());
                    return;
                }
                find_match(s, scrut, out);
                for a in alts.iter() {
                    find_match(a.expr, scrut, out);
                }
            }
            CExpr::Let(b, body) => {
                match &b.expr {
                    Named::Expr(x) => find_match(x, scrut, out),
                    Named::Recursive(cs) => {
                        for c in cs.iter() {
                            find_match(c.expr, scrut, out)
                        }
                    }
                }
                find_match(body, scrut, out);
            }
            CExpr::Call(f, args) => {
                find_match(f, scrut, out);
                for a in args.iter() {
                    find_match(a, scrut, out)
                }
            }
            CExpr::Data(_, args, _) => {
                for a in args.iter() {
                    find_match(a, scrut, out)
                }
            }
            CExpr::Cast(x, _) => find_match(x, scrut, out),
            CExpr::Const(..) | CExpr::Ident(..) => {}
        }
    }

    fn pat_key(p: &CPattern) -> String {
        match p {
            CPattern::Constructor(id, _) => id.name.declared_name().to_string(),
            CPattern::Ident(_) => "_".to_string(),
            CPattern::Record { .. } => "{}".to_string(),
            CPattern::Literal(l) => match l {
                CLit::Int(i) => i.to_string(),
                CLit::Byte(b) => format!("{}b", b),
                CLit::Char(c) => format!("c{}", *c as u32),
                CLit::String(s) => format!("s{}", s),
                CLit::Float(f) => format!("f{}", f),
            },
        }
    }

    /// Compiles `src` (prelude off) and returns the keys of the alternatives of the core match on `scrut`.
    pub fn alt_order(vm: &RootedThread, name: &str, src: &str, scrut: &str) -> Result<Vec<String>, String> {
        let r = std::panic::catch_unwind(std::panic::AssertUnwindSafe(|| {
            let mut db = vm.get_database();
            let mut compiler = vm.module_compiler(&mut db);
            let r = futures::executor::block_on(src.compile(&mut compiler, vm, name, src, None));
            match r {
                Ok(cv) => {
                    let mut out = None;
                    find_match(cv.core_expr.value.expr(), scrut, &mut out);
                    Ok(out)
                }
                Err(e) => Err(format!("{}", e)),
            }
        }));
        match r {
            Ok(Ok(Some(v))) => Ok(v),
            Ok(Ok(None)) => Err("no match on the scrutinee in the core expression".into()),
            Ok(Err(e)) => Err(e),
            Err(_) => Err("host panic".into()),
        }
    }
}

/// A grouping case: constructor (or literal) keys of the alternatives in source order.
struct GroupCase {
    /// "ctor" | "lit"
    what: &'static str,
    /// number of constructors of the matched type (0 for literals)
    n_ctors: usize,
    keys: Vec<String>,
    /// trailing catch-all alternative in the source
    catch_all: bool,
    src: String,
}

/// `match` over `type E = | K0 Int | K1 Int | … | K5 Int` with nested literal patterns (so that a
/// constructor can occur in several alternatives), or over Int literals.
fn gen_group_case(rng: &mut Rng) -> GroupCase {
    let n_alts = 1 + rng.below(7) as usize;
    if rng.below(3) == 0 {
        // literal keys; an alternative may repeat an earlier literal (then it is unreachable, but it
        // is still a row of the equation matrix and lands in the earlier literal's group)
        let pool = [0i64, 1, 2, 3, 10, 255];
        let mut keys = Vec::new();
        let mut src = String::from("let scrut_v = 1 #Int+ 1\nmatch scrut_v with\n");
        for i in 0..n_alts {
            let k = *rng.pick(&pool);
            keys.push(k.to_string());
            src.push_str(&format!("| {} -> {}\n", k, i));
        }
        src.push_str("| _ -> 99\n");
        GroupCase { what: "lit", n_ctors: 0, keys, catch_all: true, src }
    } else {
        let n_ctors = 2 + rng.below(5) as usize;
        let mut src = String::from("type E = ");
        for c in 0..n_ctors {
            src.push_str(&format!("| K{} Int ", c));
        }
        src.push_str("\nlet scrut_v : E = K0 1\nmatch scrut_v with\n");
        let mut keys = Vec::new();
        for i in 0..n_alts {
            let c = rng.below(n_ctors as u64);
            keys.push(format!("K{}", c));
            src.push_str(&format!("| K{} {} -> {}\n", c, i, i));
        }
        let catch_all = true;
        src.push_str("| _ -> 99\n");
        GroupCase { what: "ctor", n_ctors, keys, catch_all, src }
    }
}

// ------------------------------------------------------------------------------------------
// main
// ------------------------------------------------------------------------------------------

fn history_specs(seed: u64) -> Vec<String> {
    vec![
        "seq:r=0".to_string(),
        "seq:r=1".to_string(),
        "seq:r=2".to_string(),
        format!("seq:k=5:fseed={}", seed.wrapping_add(11)),
        format!("seq:k=50:fseed={}", seed.wrapping_add(12)),
        format!("perm:seed={}", seed.wrapping_add(21)),
        format!("perm:seed={}", seed.wrapping_add(22)),
        "rev".to_string(),
        "fresh:r=0".to_string(),
        "fresh:r=1".to_string(),
        "thread:child".to_string(),
        "thread:os".to_string(),
        "twice".to_string(),
        "toggle".to_string(),
    ]
}

fn fname(s: &str) -> String {
    s.chars().map(|c| if c.is_ascii_alphanumeric() { c } else { '_' }).collect()
}

fn replay_main(path: &str) {
    let v: serde_json::Value = serde_json::from_str(&std::fs::read_to_string(path).expect("replay file")).expect("json");
    let case = &v["case"];
    let dir = PathBuf::from(std::env::var("VERIF_DIR").unwrap_or_else(|_| "/verif".into())).join(".cache").join("run").join("c16-replay");
    std::fs::create_dir_all(&dir).ok();
    let mut r = Repro { dir: &dir, counter: 0, probes: 0 };
    if let Some(src) = case["group"]["source"].as_str() {
        let vm = new_vm(false);
        let mut seen = BTreeSet::new();
        for k in 0..8 {
            let o = match grouping::alt_order(&vm, &format!("replay{}", k), src, "scrut_v") {
                Ok(v) => v.join(" "),
                Err(e) => format!("error {}", e),
            };
            println!("compilation {}: {}", k, o);
            seen.insert(o);
        }
        println!("{}", if seen.len() > 1 { "REPRODUCED: the order of the alternatives varies between compilations of the same source" } else { "not reproduced" });
        return;
    }
    let a = seq_from_json(&case["history_a"]);
    let b = seq_from_json(&case["history_b"]);
    if a.is_empty() || b.is_empty() {
        println!("replay: the file has no history pair (obligation-level replay); re-run ./check C16");
        return;
    }
    let mut differs = false;
    for round in 0..3 {
        let oa = r.probe(&a);
        let ob = r.probe(&b);
        println!("round {}:", round);
        match (&oa, &ob) {
            (Some(x), Some(y)) => {
                for (h, o) in [("A", x), ("B", y)] {
                    if !o.rerender.is_empty() {
                        differs = true;
                        println!("  history {}: the same error value rendered twice gives different texts:\n{}", h, o.rerender);
                    }
                }
                for c in &COMPONENTS[..4] {
                    let c = *c;
                    if x.get(c) != y.get(c) {
                        differs = true;
                        println!("  {} differs\n  --- history A ({} evaluations)\n{}\n  --- history B ({} evaluations)\n{}", c, a.len(), x.get(c), b.len(), y.get(c));
                    }
                }
                if x == y {
                    println!("  identical observations");
                }
            }
            _ => println!("  a probe failed: A={:?} B={:?}", oa.is_some(), ob.is_some()),
        }
    }
    println!("{}", if differs { "REPRODUCED: the observations of the same (source, settings) differ" } else { "not reproduced" });
}

fn main() {
    // the compiler recurses deeply on nested programs (debug build): run everything on a big stack
    let h = std::thread::Builder::new().stack_size(1 << 30).spawn(real_main).expect("spawn main thread");
    if h.join().is_err() {
        std::process::exit(101);
    }
}

fn real_main() {
    let raw: Vec<String> = std::env::args().skip(1).collect();
    // Rust panics inside the compiler are caught and recorded as an outcome; the default hook would
    // print (and symbolise) a backtrace for each of them
    std::panic::set_hook(Box::new(|_| {}));
    match raw.first().map(|s| s.as_str()) {
        Some("child") => return child_main(&raw[1..]),
        Some("seqchild") => return seqchild_main(&raw[1..]),
        _ => {}
    }
    let args = Args::parse();
    if let Some(p) = &args.replay {
        return replay_main(p);
    }
    let t0 = Instant::now();
    let thorough = args.thorough();
    let n_total: usize = args.extra.get("n").and_then(|s| s.parse().ok()).unwrap_or(if thorough { 5000 } else { 400 });
    let n_std: usize = args.extra.get("std").and_then(|s| s.parse().ok()).unwrap_or(if thorough { 240 } else { 24 });
    let batch_size: usize = args.extra.get("batch").and_then(|s| s.parse().ok()).unwrap_or(if thorough { 500 } else { 400 });
    let workers: usize = args.extra.get("workers").and_then(|s| s.parse().ok()).unwrap_or(8);
    let child_timeout = Duration::from_secs(if thorough { 900 } else { 170 });

    let generated = generate_inputs(args.seed, n_total, n_std);
    let inputs = &generated.inputs;
    let by_id: BTreeMap<usize, &Input> = inputs.iter().map(|i| (i.id, i)).collect();

    let mut hist = generated.hist;
    // ---- batches × histories, each in its own process
    let specs = history_specs(args.seed);
    let mut table: BTreeMap<usize, Vec<(String, Obs)>> = BTreeMap::new();
    let mut failed_jobs = Vec::new();
    let mut evaluations = 0u64;
    let mut n_jobs = 0usize;
    // inputs on which the implementation dies or hangs even alone on a fresh VM (deterministically):
    // not this property's subject (C09/C06), excluded from the histories and listed in the evidence
    let mut excluded: Vec<serde_json::Value> = Vec::new();
    let mut excluded_ids: BTreeSet<usize> = BTreeSet::new();
    // inputs on which a child died in some history although they evaluate alone
    let mut crash_findings: Vec<(usize, String, String, String)> = Vec::new();

    struct Pending {
        label: String,
        spec: String,
        attempt: usize,
        inputs: Vec<Input>,
    }
    let mk_job = |p: &Pending, out: &Path, timeout: Duration, cpu_limit: u64| -> Job {
        let stem = format!("{}.{}", fname(&p.label), p.attempt);
        let f = out.join(format!("in-{}.tsv", stem));
        write_inputs(&f, &p.inputs);
        Job {
            label: p.label.clone(),
            args: vec![
                "child".into(),
                f.to_string_lossy().into(),
                p.spec.clone(),
                out.join(format!("obs-{}.tsv", stem)).to_string_lossy().into(),
                out.join(format!("trace-{}.tsv", stem)).to_string_lossy().into(),
                out.join(format!("progress-{}.tsv", stem)).to_string_lossy().into(),
                cpu_limit.to_string(),
            ],
            timeout,
        }
    };
    // the input a dead child was evaluating: last `B id` of the progress file without an `E id`
    let culprit = |out: &Path, p: &Pending| -> Option<usize> {
        let stem = format!("{}.{}", fname(&p.label), p.attempt);
        let text = std::fs::read_to_string(out.join(format!("progress-{}.tsv", stem))).ok()?;
        let last = text.lines().last()?;
        last.strip_prefix("B ").and_then(|x| x.parse().ok())
    };
    let death_reason = |out: &Path, p: &Pending, note: &str| -> String {
        let stem = format!("{}.{}", fname(&p.label), p.attempt);
        if out.join(format!("progress-{}.tsv.watchdog", stem)).exists() {
            format!("no answer within {} s of CPU time (watchdog)", EVAL_LIMIT_S)
        } else if note.contains("overflowed its stack") {
            "stack overflow of the host (1 GiB stack)".to_string()
        } else {
            format!("process died: {}", note.chars().take(200).collect::<String>().replace('\n', " | "))
        }
    };

    // phase 1 — filter: every input alone on a fresh VM (this is also history `fresh:r=0`)
    let slices = (workers * 2).max(1);
    let mut pending: Vec<Pending> = Vec::new();
    {
        let per = (inputs.len() + slices - 1) / slices;
        for (k, chunk) in inputs.chunks(per.max(1)).enumerate() {
            pending.push(Pending { label: format!("fresh:r=0@s{}", k), spec: "fresh:r=0".into(), attempt: 0, inputs: chunk.to_vec() });
        }
    }
    while !pending.is_empty() {
        let jobs: Vec<Job> = pending.iter().map(|p| mk_job(p, &args.out, child_timeout, EVAL_CPU_LIMIT_S)).collect();
        n_jobs += jobs.len();
        let res = run_jobs(jobs, workers);
        let mut next = Vec::new();
        for p in pending {
            let stem = format!("{}.{}", fname(&p.label), p.attempt);
            for (id, _tag, o) in read_obs(&args.out.join(format!("obs-{}.tsv", stem))) {
                evaluations += 1;
                table.entry(id).or_default().push(("fresh:r=0".to_string(), o));
            }
            let (ok, note) = res.get(&p.label).cloned().unwrap_or((false, "no result".into()));
            if ok {
                continue;
            }
            match culprit(&args.out, &p) {
                Some(x) if p.attempt < 200 => {
                    let inp = by_id[&x];
                    let reason = death_reason(&args.out, &p, &note);
                    hist.add("excluded:dies-or-hangs-alone");
                    excluded.push(serde_json::json!({"id": x, "group": inp.group, "kind": if inp.kind == Kind::Run {"run"} else {"tc"}, "prelude": inp.prelude, "name": inp.name, "source": inp.src, "reason": reason}));
                    excluded_ids.insert(x);
                    let rest: Vec<Input> = p.inputs.iter().skip_while(|i| i.id != x).skip(1).cloned().collect();
                    if !rest.is_empty() {
                        next.push(Pending { label: p.label.clone(), spec: p.spec.clone(), attempt: p.attempt + 1, inputs: rest });
                    }
                }
                _ => failed_jobs.push(serde_json::json!({"history": p.label, "note": note})),
            }
        }
        pending = next;
    }
    let t_filter = t0.elapsed().as_secs_f64();

    // phase 2 — the other histories over the surviving inputs, batch by batch
    let survivors: Vec<Input> = inputs.iter().filter(|i| !excluded_ids.contains(&i.id)).cloned().collect();
    let mut pending: Vec<Pending> = Vec::new();
    for (b, chunk) in survivors.chunks(batch_size).enumerate() {
        for sp in specs.iter().filter(|sp| sp.as_str() != "fresh:r=0") {
            pending.push(Pending { label: format!("{}@{}", sp, b), spec: sp.clone(), attempt: 0, inputs: chunk.to_vec() });
        }
    }
    let mut final_stem: BTreeMap<String, String> = BTreeMap::new();
    while !pending.is_empty() {
        let jobs: Vec<Job> = pending.iter().map(|p| mk_job(p, &args.out, child_timeout, 4 * EVAL_CPU_LIMIT_S)).collect();
        n_jobs += jobs.len();
        let res = run_jobs(jobs, workers);
        let mut next = Vec::new();
        for p in pending {
            let stem = format!("{}.{}", fname(&p.label), p.attempt);
            let (ok, note) = res.get(&p.label).cloned().unwrap_or((false, "no result".into()));
            if ok {
                final_stem.insert(p.label.clone(), stem);
                continue;
            }
            match culprit(&args.out, &p) {
                Some(x) if p.attempt < 20 => {
                    // the input evaluates alone but the process died in this history: history-dependent
                    crash_findings.push((x, p.label.clone(), death_reason(&args.out, &p, &note), stem.clone()));
                    let rest: Vec<Input> = p.inputs.iter().filter(|i| i.id != x).cloned().collect();
                    next.push(Pending { label: p.label.clone(), spec: p.spec.clone(), attempt: p.attempt + 1, inputs: rest });
                }
                _ => {
                    final_stem.insert(p.label.clone(), stem);
                    failed_jobs.push(serde_json::json!({"history": p.label, "note": note}));
                }
            }
        }
        pending = next;
    }
    for (label, stem) in &final_stem {
        for (id, tag, o) in read_obs(&args.out.join(format!("obs-{}.tsv", stem))) {
            evaluations += 1;
            let l = if tag == "-" { label.clone() } else { format!("{}#{}", label, tag) };
            table.entry(id).or_default().push((l, o));
        }
    }
    let t_hist = t0.elapsed().as_secs_f64();

    // ---- compare
    let mut differing: Vec<(usize, String, String, String)> = Vec::new(); // (input, component, ref history, deviating history)
    let mut n_compared = 0u64;
    let mut incomplete = 0u64;
    // observations in which the SAME error value rendered differently twice in one process
    let mut rerender_hits: Vec<(usize, String)> = Vec::new();
    let mut n_rerender = 0u64;
    for (id, obs) in &table {
        if obs.len() < specs.len() {
            incomplete += 1;
        }
        // reference: the first `fresh` observation when present, else the first one
        let rf = obs.iter().find(|(l, _)| l.starts_with("fresh")).unwrap_or(&obs[0]);
        let mut seen_comp = BTreeSet::new();
        for (l, o) in obs {
            n_compared += 1;
            if !o.rerender.is_empty() && rerender_hits.len() < 50 && !rerender_hits.iter().any(|(i, _): &(usize, String)| i == id) {
                rerender_hits.push((*id, l.clone()));
            }
            if !o.rerender.is_empty() {
                n_rerender += 1;
            }
            for c in &COMPONENTS[..4] {
                let c = *c;
                if o.get(c) != rf.1.get(c) && seen_comp.insert(c) {
                    differing.push((*id, c.to_string(), rf.0.clone(), l.clone()));
                }
            }
        }
        let o = &rf.1;
        let cls = if o.value.starts_with("(val") {
            "outcome:value"
        } else if o.value.starts_with("(typechecked") {
            "outcome:typechecked"
        } else if o.value.contains("typecheck") {
            "outcome:type-error"
        } else if o.value.contains("parse") {
            "outcome:parse-error"
        } else if o.value.contains("hostpanic") {
            "outcome:host-panic"
        } else {
            "outcome:runtime-error"
        };
        hist.add(cls);
        if o.ty.contains("forall") {
            hist.add("type:polymorphic");
        }
    }

    // ---- reproduce and minimise (per class, a few representatives)
    let repro_dir = args.out.join("repro");
    std::fs::create_dir_all(&repro_dir).ok();
    let mut repro = Repro { dir: &repro_dir, counter: 0, probes: 0 };
    let mut findings: Vec<serde_json::Value> = Vec::new();
    let mut per_class: BTreeMap<String, usize> = BTreeMap::new();
    let mut reproduced: BTreeSet<(usize, String)> = BTreeSet::new();
    let mut class_total: BTreeMap<String, usize> = BTreeMap::new();
    for (id, comp, ref_l, dev_l) in &differing {
        let obs = &table[id];
        let ro = &obs.iter().find(|(l, _)| l == ref_l).unwrap().1;
        let dv = &obs.iter().find(|(l, _)| l == dev_l).unwrap().1;
        let kindname = match comp.as_str() {
            "value" => "value",
            "type" => "type",
            _ => "diagnostic",
        };
        let class = diff_class(ro.get(comp), dv.get(comp));
        let key = format!("nondeterministic-{}:{}", kindname, class);
        *class_total.entry(key.clone()).or_insert(0) += 1;
        // `display` is a second rendering of the same error: one reproduction per (input, class)
        if !reproduced.insert((*id, key.clone())) {
            continue;
        }
        let cnt = per_class.entry(key.clone()).or_insert(0);
        if *cnt >= 2 {
            continue;
        }
        *cnt += 1;
        let inp = by_id[id];
        // the evaluation sequence of the deviating history up to and including this input
        let dev_hist = dev_l.split('#').next().unwrap().to_string();
        let trace = read_trace(&args.out.join(format!("trace-{}.tsv", final_stem.get(&dev_hist).cloned().unwrap_or_else(|| fname(&dev_hist)))));
        let mut seq_b: Vec<(String, Input)> = Vec::new();
        let second = dev_l.ends_with("#second");
        let mut hits = 0;
        for (how, t) in &trace {
            seq_b.push((how.clone(), t.clone()));
            if t.id == *id {
                hits += 1;
                if !second || hits == 2 {
                    break;
                }
            }
        }
        if seq_b.is_empty() || seq_b.last().map(|x| x.1.id) != Some(*id) {
            seq_b = vec![("vm".to_string(), inp.clone())];
        }
        let seq_a = vec![("vm".to_string(), inp.clone())];
        // is the reference itself stable (fresh VM, fresh process, 3 times)?
        let fresh_obs: Vec<Option<Obs>> = (0..3).map(|_| repro.probe(&seq_a)).collect();
        let fresh_stable = fresh_obs.iter().all(|o| o.is_some() && o.as_ref().map(|x| x.get(comp)) == fresh_obs[0].as_ref().map(|x| x.get(comp)));
        let mut note;
        let (ha, hb, ta, tb);
        if !fresh_stable {
            // process-level nondeterminism: the same single evaluation differs between processes
            let x = fresh_obs.iter().flatten().next().cloned();
            let y = fresh_obs.iter().flatten().find(|o| Some(o.get(comp)) != x.as_ref().map(|x| x.get(comp))).cloned();
            note = "the same single evaluation on a fresh VM differs between processes".to_string();
            ha = seq_a.clone();
            hb = seq_a.clone();
            ta = x.map(|o| o.get(comp).to_string()).unwrap_or_default();
            tb = y.map(|o| o.get(comp).to_string()).unwrap_or_default();
        } else {
            let base = fresh_obs[0].clone().unwrap();
            let base_text = base.get(comp).to_string();
            let comp2 = comp.clone();
            let bt = base_text.clone();
            let bad = move |o: &Obs| o.get(&comp2) != bt;
            let full = repro.probe(&seq_b);
            if full.as_ref().map(|o| bad(o)).unwrap_or(false) {
                let min = minimise(&mut repro, seq_b.clone(), &bad, if thorough { 400 } else { 120 });
                let ob = repro.probe(&min);
                note = format!("history-dependent: minimised from {} to {} evaluations", seq_b.len(), min.len());
                ha = seq_a.clone();
                tb = ob.map(|o| o.get(comp).to_string()).unwrap_or_else(|| dv.get(comp).to_string());
                hb = min;
                ta = base_text;
            } else {
                note = "observed in the history run but not reproduced when the recorded sequence was replayed in a fresh process".to_string();
                ha = seq_a.clone();
                hb = seq_b.clone();
                ta = ro.get(comp).to_string();
                tb = dv.get(comp).to_string();
                // a second look: replay 3 more times
                for _ in 0..3 {
                    if let Some(o) = repro.probe(&seq_b) {
                        if bad(&o) {
                            note = "reproduced only intermittently when the recorded sequence is replayed (schedule/ASLR dependent)".to_string();
                        }
                    }
                }
            }
        }
        findings.push(serde_json::json!({
            "key": key,
            "class": class,
            "component": comp,
            "headline": headline(&ro.diag),
            "input": {"id": id, "group": inp.group, "name": inp.name, "kind": if inp.kind == Kind::Run {"run"} else {"tc"}, "prelude": inp.prelude, "source": inp.src},
            "reference_history": ref_l,
            "deviating_history": dev_l,
            "note": note,
            "history_a": seq_to_json(&ha),
            "history_b": seq_to_json(&hb),
            "text_a": ta,
            "text_b": tb,
        }));
    }

    for (x, label) in &rerender_hits {
        let inp = by_id[x];
        let o = &table[x].iter().find(|(l, _)| l == label).unwrap().1;
        let parts: Vec<&str> = o.rerender.split(RERENDER_SEP).collect();
        let (what, first, second) = (parts.first().copied().unwrap_or(""), parts.get(1).copied().unwrap_or(""), parts.get(2).copied().unwrap_or(""));
        let class = diff_class(first, second);
        let key = format!("nondeterministic-diagnostic:{}", class);
        *class_total.entry(key.clone()).or_insert(0) += 1;
        let cnt = per_class.entry(format!("rerender|{}", key)).or_insert(0);
        if *cnt >= 2 {
            continue;
        }
        *cnt += 1;
        let one = vec![("vm".to_string(), inp.clone())];
        findings.push(serde_json::json!({
            "key": key,
            "class": class,
            "component": format!("{} of one error value, rendered twice in the same process", what),
            "headline": headline(first),
            "input": {"id": x, "group": inp.group, "name": inp.name, "kind": if inp.kind == Kind::Run {"run"} else {"tc"}, "prelude": inp.prelude, "source": inp.src},
            "reference_history": format!("{} (first rendering)", label),
            "deviating_history": format!("{} (second rendering of the same error value)", label),
            "note": "the same error value renders to different texts in one process: the rendering itself is not a function of the error",
            "history_a": seq_to_json(&one),
            "history_b": seq_to_json(&one),
            "text_a": first,
            "text_b": second,
        }));
    }
    for (x, label, reason, stem) in crash_findings.iter().take(5) {
        let inp = by_id[x];
        let trace = read_trace(&args.out.join(format!("trace-{}.tsv", stem)));
        let mut seq_b: Vec<(String, Input)> = Vec::new();
        for (how, t) in &trace {
            seq_b.push((how.clone(), t.clone()));
        }
        findings.push(serde_json::json!({
            "key": "nondeterministic-value:dies-only-in-some-histories",
            "class": "dies-only-in-some-histories",
            "component": "value",
            "headline": "",
            "input": {"id": x, "group": inp.group, "name": inp.name, "kind": if inp.kind == Kind::Run {"run"} else {"tc"}, "prelude": inp.prelude, "source": inp.src},
            "reference_history": "fresh:r=0",
            "deviating_history": label,
            "note": format!("evaluates alone on a fresh VM, but the process died in history {}: {}", label, reason),
            "history_a": seq_to_json(&[("vm".to_string(), inp.clone())]),
            "history_b": seq_to_json(&seq_b),
            "text_a": table.get(x).and_then(|v| v.first()).map(|o| o.1.value.clone()).unwrap_or_default(),
            "text_b": reason,
        }));
    }

    // ---- model ties: evaluator prediction + grouping
    let mut model_in = args.file("model_in.txt");
    let mut impl_out = args.file("impl_out.txt");
    let mut cases = args.file("cases.txt");
    let mut n_model = 0u64;
    {
        // (a) first-order well-typed MiniGluon programs: typed canonical outcome, one VM.  The
        // reference semantics is the one of the UNOPTIMISED pipeline (what the optimiser may drop is
        // C04's subject), so this VM has `optimize` off.
        let unopt = mg::run::VmOptions { prelude: false, optimize: Some(false) };
        let mut vm = mg::run::new_vm_with(&unopt);
        let mut count = 0;
        for (id, sx, p) in &generated.model {
            if count % 1000 == 999 {
                vm = mg::run::new_vm_with(&unopt);
            }
            count += 1;
            let inp = by_id[id];
            let o = mg::run::run_program(&vm, p, &inp.src);
            if matches!(o.class(), "typecheck" | "parse" | "hostpanic" | "other" | "stackoverflow" | "oom") {
                // ≈0.3 % of generated programs are refused by the real checker (README of mg): skip
                hist.add(&format!("model-skip:{}", o.class()));
                continue;
            }
            // the untyped observation of the histories must tell the same story (value class)
            writeln!(model_in, "prog {}", sx).unwrap();
            writeln!(impl_out, "{}", o.canonical()).unwrap();
            writeln!(cases, "{}", inp.src.replace('\n', " ⏎ ")).unwrap();
            n_model += 1;
        }
    }
    let mut n_group = 0u64;
    let mut group_findings = 0;
    let mut group_distinct = BTreeSet::new();
    {
        let n = if thorough { 3000 } else { 400 };
        let mut rng = Rng::new(args.seed ^ 0x6120);
        let mut vm = new_vm(false);
        for i in 0..n {
            if i % 800 == 799 {
                vm = new_vm(false);
            }
            let c = gen_group_case(&mut rng);
            let render = |got: Result<Vec<String>, String>| match got {
                Ok(v) => v.join(" "),
                Err(e) => format!("error {}", e.replace('\n', " | ")),
            };
            // compiled twice (two module names): every std HashMap instance has its own random
            // state, so an order that leaked from the map would differ between the two
            let line = render(grouping::alt_order(&vm, &format!("grp{}", i), &c.src, "scrut_v"));
            let line2 = render(grouping::alt_order(&vm, &format!("grp{}b", i), &c.src, "scrut_v"));
            if line != line2 && group_findings < 3 {
                group_findings += 1;
                findings.push(serde_json::json!({
                    "key": format!("nondeterministic-match-order:{}", c.what),
                    "class": c.what,
                    "component": "order of the alternatives of the compiled match",
                    "headline": "",
                    "input": {"id": i, "group": "grouping", "name": format!("grp{}", i), "kind": "compile", "prelude": false, "source": c.src},
                    "reference_history": "first compilation",
                    "deviating_history": "second compilation on the same VM",
                    "note": "two compilations of the same source emit the alternatives in different orders",
                    "history_a": [],
                    "history_b": [],
                    "group_case": {"source": c.src, "scrutinee": "scrut_v"},
                    "text_a": line,
                    "text_b": line2,
                }));
            }
            let _ = c.catch_all;
            writeln!(model_in, "group {} {} {}", c.what, c.n_ctors, c.keys.join(" ")).unwrap();
            writeln!(impl_out, "{}", line).unwrap();
            writeln!(cases, "{}", c.src.replace('\n', " ⏎ ")).unwrap();
            group_distinct.insert(fnv(c.keys.join(" ").as_bytes()));
            n_group += 1;
        }
    }
    model_in.flush().unwrap();
    impl_out.flush().unwrap();
    cases.flush().unwrap();

    // ---- stats
    let distinct: BTreeSet<u64> = inputs.iter().filter(|i| !generated.trivial.contains(&i.id)).map(|i| fnv(i.key().as_bytes())).collect();
    let samples: Vec<serde_json::Value> = [0usize, inputs.len() / 3, inputs.len() / 2, inputs.len() - 1]
        .iter()
        .filter_map(|i| inputs.get(*i))
        .map(|i| {
            let o = table.get(&i.id).and_then(|v| v.first()).map(|x| x.1.to_json());
            serde_json::json!({"group": i.group, "name": i.name, "prelude": i.prelude, "source": i.src, "observation": o, "histories": table.get(&i.id).map(|v| v.len())})
        })
        .collect();
    gvh::out::write_json(
        &args.out.join("determinism.json"),
        &serde_json::json!({
            "inputs": inputs.len(),
            "histories": specs,
            "jobs": n_jobs,
            "failed_jobs": failed_jobs,
            "observations": evaluations,
            "comparisons": n_compared,
            "inputs_with_incomplete_histories": incomplete,
            "excluded_inputs": excluded,
            "wall_filter_s": t_filter,
            "differing": differing.len(),
            "rerender_differences": n_rerender,
            "class_totals": class_total,
            "findings": findings,
            "probes": repro.probes,
        }),
    );
    gvh::out::write_json(
        &args.out.join("stats.json"),
        &serde_json::json!({
            "evaluations": evaluations + n_model + n_group,
            "distinct_nontrivial": distinct.len() + group_distinct.len(),
            "rule": "one case = (module name, entry point run_expr|typecheck_str, prelude setting, source text), distinct by FNV of that tuple; an unmutated MiniGluon program that is a single node or binds no variable (Program::nontrivial() false) is trivial and not counted; templates, mutants and corpus files always contain a binder, an application or an import; grouping cases distinct by key sequence; evaluations = observations over all histories + model-predicted programs + grouping cases",
            "trivial_inputs": generated.trivial.len(),
            "hist": hist.to_json(),
            "inputs": inputs.len(),
            "histories_per_input": specs.len() + 1,
            "observations": evaluations,
            "model_programs": n_model,
            "group_cases": n_group,
            "samples": samples,
            "wall_histories_s": t_hist,
            "wall_total_s": t0.elapsed().as_secs_f64(),
        }),
    );
    println!(
        "c16: {} inputs x {} histories = {} observations, {} differing (input, component) pairs, {} findings, {} failed jobs, {:.1}s",
        inputs.len(),
        specs.len(),
        evaluations,
        differing.len(),
        findings.len(),
        failed_jobs.len(),
        t0.elapsed().as_secs_f64()
    );
}
