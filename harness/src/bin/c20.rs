//! C20 — editor queries are total and agree with the typechecker.
//!
//! Generates small programs (let / lambda / record / match / application / infix / tuple / array /
//! type declarations with known binders), runs the real front end on them (parse_partial + rename
//! + metadata + reparse_infix + Typecheck, errors tolerated, as completion/tests/support does) in
//! three variants — complete, truncated after every token, one token deleted — and at EVERY byte
//! offset 0..=len (BytePos 1..=len+1) calls
//!   gluon_completion::{complete, find, suggest, symbol, find_all_symbols, signature_help,
//!                      get_metadata, suggest_metadata, completion(SpanAt)}  (+ all_symbols once)
//! under catch_unwind.  The typed AST is exported as the span tree `FindVisitor` walks
//! (coq/theories/Front/Spans.v) and every observation is written in the line protocol of
//! coq/extract/c20/driver.ml:
//!   model_in.txt   `T <vid> <tree>` / `Q <pos> <ty> sg=.. fx=..`
//!   impl_out.txt   `T <vid>` / `r=.. m=.. e=.. ty=ok sc=ok`   (what the implementation answered)
//!   cases.txt      human readable rendering of each line (source text, offset, type text, names)
//!   panics.jsonl   one line per distinct (query, panic location): smallest program + offset
//!   direct.jsonl   identifiers whose reported type differs from TypedIdent.typ (direct oracle)
//!   stats.json
use gluon_base::ast::{self, Expr, Literal, Pattern, PatternField, SpannedExpr, SpannedPattern, Visitor};
use gluon_base::fnv::FnvMap;
use gluon_base::kind::{ArcKind, Kind, KindEnv};
use gluon_base::metadata::{Metadata, MetadataEnv};
use gluon_base::pos::{BytePos, HasSpan, Span};
use gluon_base::resolve;
use gluon_base::symbol::{Symbol, SymbolModule, SymbolRef, Symbols};
use gluon_base::types::{Alias, ArcType, Field, NullInterner, PrimitiveEnv, Type, TypeCache, TypeEnv, TypeExt};
use gluon_completion as completion;
use gvh::out::{Args, Hist, fnv};
use gvh::rng::Rng;
use std::cell::RefCell;
use std::collections::{BTreeMap, HashMap, HashSet};
use std::io::Write;
use std::panic::{AssertUnwindSafe, catch_unwind};
use std::sync::Arc;

// ------------------------------------------------------------------------------------------
// environment (the checker's view of the outside world): Bool / True / False only
// ------------------------------------------------------------------------------------------
struct Env {
    bool_alias: Alias<Symbol, ArcType>,
}
impl Env {
    fn new(symbols: &mut Symbols) -> Env {
        let bool_sym = symbols.simple_symbol("Bool");
        // a proper variant (the self-referential `Bool = Bool` of the test-suite's MockEnv makes
        // resolve::remove_aliases spin when a Bool is applied like a function)
        let false_sym = symbols.simple_symbol("False");
        let true_sym = symbols.simple_symbol("True");
        let bool_ty: ArcType = Type::variant(vec![Field::ctor(false_sym, Vec::<ArcType>::new()), Field::ctor(true_sym, Vec::<ArcType>::new())]);
        Env { bool_alias: Alias::new(bool_sym, Vec::new(), bool_ty) }
    }
}
impl KindEnv for Env {
    fn find_kind(&self, id: &SymbolRef) -> Option<ArcKind> {
        match id.definition_name() {
            "Bool" => Some(Kind::typ()),
            _ => None,
        }
    }
}
impl TypeEnv for Env {
    type Type = ArcType;
    fn find_type(&self, id: &SymbolRef) -> Option<ArcType> {
        match id.definition_name() {
            "False" | "True" => Some(self.bool_alias.as_type().clone()),
            _ => None,
        }
    }
    fn find_type_info(&self, id: &SymbolRef) -> Option<Alias<Symbol, ArcType>> {
        match id.definition_name() {
            "Bool" => Some(self.bool_alias.clone()),
            _ => None,
        }
    }
}
impl PrimitiveEnv for Env {
    fn get_bool(&self) -> ArcType {
        self.bool_alias.as_type().clone()
    }
}
impl MetadataEnv for Env {
    fn get_metadata(&self, _id: &SymbolRef) -> Option<Arc<Metadata>> {
        None
    }
}
impl completion::CompletionEnv for Env {
    fn list_types(&self, _consume: &mut dyn FnMut(&Symbol, &ArcType)) {}
}

// ------------------------------------------------------------------------------------------
// program generator
// ------------------------------------------------------------------------------------------
#[derive(Clone, PartialEq, Debug)]
enum Ty {
    Int,
    Bool,
    Str,
    Unit,
    T, // the declared variant type `T`
    Fun(Vec<Ty>, Box<Ty>),
    Rec(Vec<(String, Ty)>),
    Tup(Vec<Ty>),
    Arr(Box<Ty>),
}

struct Gen<'r> {
    rng: &'r mut Rng,
    has_t: bool,
    /// the expression being generated starts a binding's right-hand side or the program body, so
    /// it may span several lines (gluon does not parse several alternatives on one line)
    line_ok: bool,
    fresh: usize,
    feat: &'r mut Hist,
}

const NAMES: [&str; 14] = ["a", "ab", "abc", "x", "xs", "x1", "y", "f", "foo", "g", "n", "r", "rec1", "t"];

impl<'r> Gen<'r> {
    fn name(&mut self) -> String {
        self.fresh += 1;
        if self.rng.chance(2, 3) {
            // deliberately re-used / prefix-sharing names (shadowing, prefix filter)
            (*self.rng.pick(&NAMES)).to_string()
        } else {
            format!("{}{}", self.rng.pick(&NAMES), self.fresh)
        }
    }
    fn simple_ty(&mut self) -> Ty {
        match self.rng.below(if self.has_t { 6 } else { 5 }) {
            0 | 1 => Ty::Int,
            2 => Ty::Bool,
            3 => Ty::Str,
            4 => Ty::Rec(vec![("x".into(), Ty::Int), ("y".into(), Ty::Int)]),
            _ => Ty::T,
        }
    }
    fn any_ty(&mut self, depth: u32) -> Ty {
        if depth == 0 {
            return self.simple_ty();
        }
        match self.rng.below(9) {
            0 => Ty::Fun(vec![self.simple_ty()], Box::new(self.simple_ty())),
            1 => {
                let n = 1 + self.rng.below(3) as usize;
                let fields = ["x", "y", "zed", "abc"];
                Ty::Rec((0..n).map(|i| (fields[i].to_string(), self.any_ty(depth - 1))).collect())
            }
            2 => Ty::Tup(vec![self.simple_ty(), self.simple_ty()]),
            3 => Ty::Arr(Box::new(Ty::Int)),
            4 => Ty::Unit,
            _ => self.simple_ty(),
        }
    }
    fn vars_of<'a>(&self, scope: &'a [(String, Ty)], ty: &Ty) -> Vec<&'a (String, Ty)> {
        // innermost binding of each name only (shadowing)
        let mut seen = HashSet::new();
        let mut out = vec![];
        for v in scope.iter().rev() {
            if seen.insert(v.0.clone()) && v.1 == *ty {
                out.push(v);
            }
        }
        out
    }
    /// an expression of type `ty`, printed on one line
    fn expr(&mut self, scope: &[(String, Ty)], ty: &Ty, depth: u32) -> String {
        let top = self.line_ok;
        self.line_ok = false;
        // variables first
        let vars = self.vars_of(scope, ty);
        if !vars.is_empty() && (depth == 0 || self.rng.chance(2, 5)) {
            self.feat.add("var");
            return self.rng.pick(&vars).0.clone();
        }
        if depth > 0 {
            // type-generic constructs
            match self.rng.below(16) {
                0 => {
                    self.feat.add("let-in");
                    let t1 = self.any_ty(1);
                    let n = self.name();
                    let e1 = self.expr(scope, &t1, depth - 1);
                    let mut sc = scope.to_vec();
                    sc.push((n.clone(), t1));
                    let e2 = self.expr(&sc, ty, depth - 1);
                    return format!("(let {} = {} in {})", n, e1, e2);
                }
                1 => {
                    self.feat.add("lambda-app");
                    let t1 = self.simple_ty();
                    let n = self.name();
                    let mut sc = scope.to_vec();
                    sc.push((n.clone(), t1.clone()));
                    let body = self.expr(&sc, ty, depth - 1);
                    let arg = self.expr(scope, &t1, depth - 1);
                    return format!("(\\{} -> {}) {}", n, body, self.atom(arg));
                }
                2 => {
                    self.feat.add("if");
                    let c = self.expr(scope, &Ty::Bool, depth - 1);
                    let a = self.expr(scope, ty, depth - 1);
                    let b = self.expr(scope, ty, depth - 1);
                    return format!("(if {} then {} else {})", c, a, b);
                }
                3 => {
                    // projection out of a record variable or literal
                    let recs: Vec<(String, Vec<(String, Ty)>)> = scope
                        .iter()
                        .filter_map(|(n, t)| match t {
                            Ty::Rec(fs) if fs.iter().any(|f| f.1 == *ty) => Some((n.clone(), fs.clone())),
                            _ => None,
                        })
                        .collect();
                    if !recs.is_empty() {
                        self.feat.add("projection");
                        let (n, fs) = self.rng.pick(&recs).clone();
                        let f = fs.iter().find(|f| f.1 == *ty).unwrap();
                        return format!("{}.{}", n, f.0);
                    }
                }
                4 if self.has_t && top => {
                    self.feat.add("match-variant");
                    let scrut = self.expr(scope, &Ty::T, depth - 1);
                    let n1 = self.name();
                    let n2 = self.name();
                    let n3 = self.name();
                    let mut s1 = scope.to_vec();
                    s1.push((n1.clone(), Ty::Int));
                    let e1 = self.expr(&s1, ty, depth - 1);
                    let e2 = self.expr(scope, ty, depth - 1);
                    let mut s3 = scope.to_vec();
                    s3.push((n2.clone(), Ty::Int));
                    s3.push((n3.clone(), Ty::Int));
                    let e3 = self.expr(&s3, ty, depth - 1);
                    return format!("(match {} with\n        | A {} -> {}\n        | B -> {}\n        | C {} {} -> {})", scrut, n1, e1, e2, n2, n3, e3);
                }
                5 => {
                    self.feat.add("match-tuple");
                    let n1 = self.name();
                    let n2 = self.name();
                    let a = self.expr(scope, &Ty::Int, depth - 1);
                    let b = self.expr(scope, &Ty::Bool, depth - 1);
                    let mut sc = scope.to_vec();
                    sc.push((n1.clone(), Ty::Int));
                    sc.push((n2.clone(), Ty::Bool));
                    let body = self.expr(&sc, ty, depth - 1);
                    return format!("(match ({}, {}) with | ({}, {}) -> {})", a, b, n1, n2, body);
                }
                6 => {
                    self.feat.add("match-record");
                    let n1 = self.name();
                    let a = self.expr(scope, &Ty::Int, depth - 1);
                    let b = self.expr(scope, &Ty::Int, depth - 1);
                    let mut sc = scope.to_vec();
                    sc.push(("x".into(), Ty::Int));
                    sc.push((n1.clone(), Ty::Int));
                    let body = self.expr(&sc, ty, depth - 1);
                    return format!("(match {{ x = {}, y = {} }} with | {{ x, y = {} }} -> {})", a, b, n1, body);
                }
                7 if top => {
                    self.feat.add("match-literal");
                    let a = self.expr(scope, &Ty::Int, depth - 1);
                    let n1 = self.name();
                    let e1 = self.expr(scope, ty, depth - 1);
                    let mut sc = scope.to_vec();
                    sc.push((n1.clone(), Ty::Int));
                    let e2 = self.expr(&sc, ty, depth - 1);
                    return format!("(match {} with\n        | 0 -> {}\n        | {} -> {})", a, e1, n1, e2);
                }
                8 => {
                    // apply a function variable returning ty
                    let fs: Vec<(String, Vec<Ty>)> = scope
                        .iter()
                        .filter_map(|(n, t)| match t {
                            Ty::Fun(args, r) if **r == *ty => Some((n.clone(), args.clone())),
                            _ => None,
                        })
                        .collect();
                    if !fs.is_empty() {
                        self.feat.add("app-var");
                        let (n, args) = self.rng.pick(&fs).clone();
                        let mut s = n;
                        for a in &args {
                            let e = self.expr(scope, a, depth - 1);
                            s.push(' ');
                            s.push_str(&self.atom(e));
                        }
                        return s;
                    }
                }
                9 => {
                    self.feat.add("as-pattern");
                    let n1 = self.name();
                    let n2 = self.name();
                    let a = self.expr(scope, &Ty::Int, depth - 1);
                    let mut sc = scope.to_vec();
                    sc.push((n1.clone(), Ty::Tup(vec![Ty::Int, Ty::Int])));
                    sc.push((n2.clone(), Ty::Int));
                    let body = self.expr(&sc, ty, depth - 1);
                    return format!("(match ({}, 1) with | {} @ ({}, _) -> {})", a, n1, n2, body);
                }
                10 => {
                    self.feat.add("match-unit");
                    let body = self.expr(scope, ty, depth - 1);
                    return format!("(match () with | () -> {})", body);
                }
                _ => {}
            }
        }
        match ty {
            Ty::Int => {
                if depth > 0 && self.rng.chance(1, 2) {
                    self.feat.add("infix");
                    let op = *self.rng.pick(&["#Int+", "#Int-", "#Int*"]);
                    let a = self.expr(scope, &Ty::Int, depth - 1);
                    let b = self.expr(scope, &Ty::Int, depth - 1);
                    let sp = if self.rng.chance(1, 6) { "  " } else { " " };
                    format!("({}{}{}{}{})", a, sp, op, sp, b)
                } else {
                    self.feat.add("lit-int");
                    format!("{}", self.rng.below(100))
                }
            }
            Ty::Bool => {
                if depth > 0 && self.rng.chance(1, 2) {
                    self.feat.add("infix-cmp");
                    let op = *self.rng.pick(&["#Int<", "#Int=="]);
                    let a = self.expr(scope, &Ty::Int, depth - 1);
                    let b = self.expr(scope, &Ty::Int, depth - 1);
                    format!("({} {} {})", a, op, b)
                } else {
                    (*self.rng.pick(&["True", "False"])).to_string()
                }
            }
            Ty::Str => {
                self.feat.add("lit-string");
                format!("\"s{}\"", self.rng.below(10))
            }
            Ty::Unit => "()".to_string(),
            Ty::T => match self.rng.below(3) {
                0 => {
                    let a = self.expr(scope, &Ty::Int, depth.saturating_sub(1));
                    format!("(A {})", self.atom(a))
                }
                1 => "B".to_string(),
                _ => {
                    let a = self.expr(scope, &Ty::Int, depth.saturating_sub(1));
                    let b = self.expr(scope, &Ty::Int, depth.saturating_sub(1));
                    format!("(C {} {})", self.atom(a), self.atom(b))
                }
            },
            Ty::Fun(args, r) => {
                self.feat.add("lambda");
                let mut sc = scope.to_vec();
                let mut names = vec![];
                for a in args {
                    let n = self.name();
                    sc.push((n.clone(), a.clone()));
                    names.push(n);
                }
                let body = self.expr(&sc, r, depth.saturating_sub(1));
                format!("(\\{} -> {})", names.join(" "), body)
            }
            Ty::Rec(fs) => {
                self.feat.add("record");
                if fs.is_empty() {
                    return "{ }".into();
                }
                let mut parts = vec![];
                for (n, t) in fs {
                    // field punning when a variable of that name and type is in scope
                    if self.rng.chance(1, 4) && self.vars_of(scope, t).iter().any(|v| v.0 == *n) {
                        self.feat.add("record-pun");
                        parts.push(n.clone());
                    } else {
                        parts.push(format!("{} = {}", n, self.expr(scope, t, depth.saturating_sub(1))));
                    }
                }
                format!("{{ {} }}", parts.join(", "))
            }
            Ty::Tup(ts) => {
                self.feat.add("tuple");
                let es: Vec<String> = ts.iter().map(|t| self.expr(scope, t, depth.saturating_sub(1))).collect();
                format!("({})", es.join(", "))
            }
            Ty::Arr(t) => {
                self.feat.add("array");
                let n = self.rng.below(4);
                if n == 0 {
                    self.feat.add("array-empty");
                }
                let es: Vec<String> = (0..n).map(|_| self.expr(scope, t, depth.saturating_sub(1))).collect();
                format!("[{}]", es.join(", "))
            }
        }
    }
    /// an expression that starts a line-level position (right-hand side of a top-level binding)
    fn line_expr(&mut self, scope: &[(String, Ty)], ty: &Ty, depth: u32) -> String {
        self.line_ok = true;
        let e = self.expr(scope, ty, depth);
        self.line_ok = false;
        e
    }
    fn atom(&self, e: String) -> String {
        let simple = e.chars().all(|c| c.is_alphanumeric() || c == '_' || c == '.');
        if simple || (e.starts_with('(') && balanced_outer(&e, '(', ')')) || (e.starts_with('{') && e.ends_with('}')) || (e.starts_with('[') && e.ends_with(']')) || e.starts_with('"') {
            e
        } else {
            format!("({})", e)
        }
    }
    fn ty_src(&self, t: &Ty) -> String {
        match t {
            Ty::Int => "Int".into(),
            Ty::Bool => "Bool".into(),
            Ty::Str => "String".into(),
            Ty::Unit => "()".into(),
            Ty::T => "T".into(),
            Ty::Fun(a, r) => {
                let mut s = String::new();
                for x in a {
                    let xs = self.ty_src(x);
                    if matches!(x, Ty::Fun(..)) {
                        s.push_str(&format!("({}) -> ", xs));
                    } else {
                        s.push_str(&format!("{} -> ", xs));
                    }
                }
                s.push_str(&self.ty_src(r));
                s
            }
            Ty::Rec(fs) => format!("{{ {} }}", fs.iter().map(|(n, t)| format!("{} : {}", n, self.ty_src(t))).collect::<Vec<_>>().join(", ")),
            Ty::Tup(ts) => format!("({})", ts.iter().map(|t| self.ty_src(t)).collect::<Vec<_>>().join(", ")),
            Ty::Arr(t) => format!("Array {}", self.ty_src(t)),
        }
    }
    /// a whole program: optional type declaration, a few top-level bindings, a body
    fn program(&mut self) -> String {
        let mut out = String::new();
        let mut scope: Vec<(String, Ty)> = vec![];
        self.has_t = self.rng.chance(1, 2);
        if self.has_t {
            self.feat.add("type-decl");
            if self.rng.chance(1, 2) {
                out.push_str("type T = | A Int | B | C Int Int\n");
            } else {
                out.push_str("type T =\n    | A Int\n    | B\n    | C Int Int\n");
            }
        }
        let nb = 1 + self.rng.below(4);
        for _ in 0..nb {
            let d = 1 + self.rng.below(3) as u32;
            match self.rng.below(10) {
                0 | 1 => {
                    // function binding with arguments
                    self.feat.add("top:let-fn");
                    let nargs = 1 + self.rng.below(2) as usize;
                    let f = self.name();
                    let mut sc = scope.clone();
                    let mut args = vec![];
                    let mut tys = vec![];
                    for _ in 0..nargs {
                        let n = self.name();
                        let t = self.simple_ty();
                        sc.push((n.clone(), t.clone()));
                        args.push(n);
                        tys.push(t);
                    }
                    let rt = self.simple_ty();
                    let fty = Ty::Fun(tys.clone(), Box::new(rt.clone()));
                    let ann = if self.rng.chance(1, 3) {
                        self.feat.add("top:annotation");
                        format!(" : {}", self.ty_src(&fty))
                    } else {
                        String::new()
                    };
                    if self.rng.chance(1, 2) {
                        let body = self.line_expr(&sc, &rt, d);
                        out.push_str(&format!("let {} {}{} = {}\n", f, args.join(" "), ann, body));
                    } else {
                        // multi-line body with a nested layout block
                        self.feat.add("top:nested-block");
                        let n = self.name();
                        let t1 = self.simple_ty();
                        let e1 = self.line_expr(&sc, &t1, d);
                        sc.push((n.clone(), t1));
                        let body = self.line_expr(&sc, &rt, d);
                        out.push_str(&format!("let {} {}{} =\n    let {} = {}\n    {}\n", f, args.join(" "), ann, n, e1, body));
                    }
                    scope.push((f, fty));
                }
                2 => {
                    self.feat.add("top:rec-fn");
                    let f = self.name();
                    let n = self.name();
                    let fty = Ty::Fun(vec![Ty::Int], Box::new(Ty::Int));
                    let mut sc = scope.clone();
                    sc.push((f.clone(), fty.clone()));
                    sc.push((n.clone(), Ty::Int));
                    let body = self.expr(&sc, &Ty::Int, d);
                    out.push_str(&format!("rec let {} {} = if {} #Int< 1 then 0 else {} #Int+ {} ({} #Int- 1)\n", f, n, n, self.atom(body), f, n));
                    scope.push((f, fty));
                }
                3 => {
                    self.feat.add("top:let-record-pattern");
                    let a = self.expr(&scope, &Ty::Int, d);
                    let b = self.expr(&scope, &Ty::Bool, d);
                    let n2 = self.name();
                    out.push_str(&format!("let {{ x, y = {} }} = {{ x = {}, y = {} }}\n", n2, a, b));
                    scope.push(("x".into(), Ty::Int));
                    scope.push((n2, Ty::Bool));
                }
                4 => {
                    self.feat.add("top:let-tuple-pattern");
                    let a = self.expr(&scope, &Ty::Int, d);
                    let b = self.expr(&scope, &Ty::Str, d);
                    let n1 = self.name();
                    let n2 = self.name();
                    out.push_str(&format!("let ({}, {}) = ({}, {})\n", n1, n2, a, b));
                    scope.push((n1, Ty::Int));
                    scope.push((n2, Ty::Str));
                }
                5 => {
                    self.feat.add("top:rec-group");
                    let f = self.name();
                    let g = self.name();
                    let n = self.name();
                    let m = self.name();
                    let fty = Ty::Fun(vec![Ty::Int], Box::new(Ty::Int));
                    let mut sc = scope.clone();
                    sc.push((f.clone(), fty.clone()));
                    sc.push((g.clone(), fty.clone()));
                    let mut s1 = sc.clone();
                    s1.push((n.clone(), Ty::Int));
                    let e1 = self.expr(&s1, &Ty::Int, d);
                    let mut s2 = sc.clone();
                    s2.push((m.clone(), Ty::Int));
                    let e2 = self.expr(&s2, &Ty::Int, d);
                    out.push_str(&format!("rec\nlet {} {} = {}\nlet {} {} = {}\nin\n", f, n, e1, g, m, e2));
                    scope.push((f, fty.clone()));
                    scope.push((g, fty));
                }
                _ => {
                    self.feat.add("top:let-value");
                    let t = self.any_ty(2);
                    let n = self.name();
                    let e = self.line_expr(&scope, &t, d);
                    let ann = if self.rng.chance(1, 4) {
                        self.feat.add("top:annotation");
                        format!(" : {}", self.ty_src(&t))
                    } else {
                        String::new()
                    };
                    out.push_str(&format!("let {}{} = {}\n", n, ann, e));
                    scope.push((n, t));
                }
            }
            if self.rng.chance(1, 8) {
                out.push('\n');
            }
        }
        let t = self.any_ty(1);
        let d = 1 + self.rng.below(3) as u32;
        let body = self.line_expr(&scope, &t, d);
        out.push_str(&body);
        match self.rng.below(4) {
            0 => out.push('\n'),
            1 => out.push_str("  \n"),
            _ => {}
        }
        out
    }
}

fn ast_ctor_names(t: &ast::AstType<Symbol>, out: &mut Vec<String>) {
    match &**t {
        Type::Forall(_, inner) => ast_ctor_names(inner, out),
        Type::Variant(row) => {
            for f in gluon_base::types::row_iter(row) {
                out.push(f.name.value.declared_name().to_string());
            }
        }
        _ => {}
    }
}

fn balanced_outer(s: &str, open: char, close: char) -> bool {
    // does the first `open` match the last character?
    let mut depth = 0i32;
    let n = s.chars().count();
    for (i, c) in s.chars().enumerate() {
        if c == open {
            depth += 1;
        } else if c == close {
            depth -= 1;
            if depth == 0 {
                return i + 1 == n;
            }
        }
    }
    false
}

// ------------------------------------------------------------------------------------------
// front end
// ------------------------------------------------------------------------------------------
struct Checked {
    expr: ast::RootExpr<Symbol>,
    metadata: FnvMap<Symbol, Arc<Metadata>>,
    parse_ok: bool,
    check_ok: bool,
}

fn front_end(symbols: &mut Symbols, env: &Env, text: &str) -> Option<Checked> {
    let type_cache = TypeCache::new();
    let (mut expr, parse_ok) = {
        let mut module = SymbolModule::new("test".into(), symbols);
        match gluon_parser::parse_partial_root_expr(&mut module, &type_cache, text) {
            Ok(e) => (e, true),
            Err((Some(e), _)) => (e, false),
            Err((None, _)) => return None,
        }
    };
    let source = gluon_base::source::FileMap::new("test".into(), text.to_string());
    let (check_ok, metadata) = {
        let (arena, e) = expr.arena_expr();
        let arena = arena.borrow();
        gluon_check::rename::rename(&source, &mut SymbolModule::new("test".into(), symbols), arena, e);
        let (_, mut metadata) = gluon_check::metadata::metadata(env, e);
        let reparse_ok = gluon_parser::reparse_infix(arena, &metadata, &*symbols, e).is_ok();
        let ok = {
            let mut tc = gluon_check::typecheck::Typecheck::new("test".into(), symbols, env, &type_cache, &mut metadata, arena);
            tc.typecheck_expr(e).is_ok()
        };
        (ok && reparse_ok, metadata)
    };
    Some(Checked { expr, metadata, parse_ok, check_ok })
}

// ------------------------------------------------------------------------------------------
// span tree export (the view of FindVisitor, completion/src/lib.rs:410-720)
// ------------------------------------------------------------------------------------------
const P_LEAF: u32 = 0;
const P_SEL: u32 = 1;
const P_GATE: u32 = 2;
const P_INFIX: u32 = 3;
const P_PROJ: u32 = 4;
const P_ERR: u32 = 5;
const P_UNIT: u32 = 6;
const P_RECPAT: u32 = 7;
const P_FIELD: u32 = 8;
const P_CTOR: u32 = 9;
const P_TYPE: u32 = 10;
const P_OPAQUE: u32 = 11;
const P_BIND: u32 = 12;
const P_OPQLEAF: u32 = 13;
const P_ANCHOR: u32 = 14;
const P_OP: u32 = 15;
const B_LET: u32 = 1;
const B_LET_REC: u32 = 2;
const B_LET_ARG: u32 = 3;
const B_LAMBDA_ARG: u32 = 4;
const B_ALT: u32 = 5;
const B_TYPE: u32 = 6;
const B_CTOR: u32 = 7;
const B_DO: u32 = 8;
const V_EXPR: u32 = 0;
const V_PATTERN: u32 = 1;
const V_IDENT: u32 = 2;
const V_TYPE: u32 = 3;

fn kind(policy: u32, push: bool, force: bool, variant: u32) -> u32 {
    policy + 16 * (push as u32) + 32 * (force as u32) + 64 * variant
}

struct TNode {
    s: u32,
    e: u32,
    kind: u32,
    lab: u32,
    binders: Vec<(u32, u32, u32, u32)>, // name, sort, scope start, scope end
    children: Vec<TNode>,
}
impl TNode {
    fn new(sp: Span<BytePos>, kind: u32, lab: u32) -> TNode {
        TNode { s: sp.start().0, e: sp.end().0, kind, lab, binders: vec![], children: vec![] }
    }
    fn write(&self, out: &mut String) {
        use std::fmt::Write;
        write!(out, "( {} {} {} {} {}", self.s, self.e, self.kind, self.lab, self.binders.len()).unwrap();
        for b in &self.binders {
            write!(out, " {} {} {} {}", b.0, b.1, b.2, b.3).unwrap();
        }
        for c in &self.children {
            out.push(' ');
            c.write(out);
        }
        out.push_str(" )");
    }
    fn count(&self) -> usize {
        1 + self.children.iter().map(|c| c.count()).sum::<usize>()
    }
}

#[derive(Default)]
struct Interner {
    map: HashMap<String, u32>,
    names: Vec<String>,
}
impl Interner {
    fn id(&mut self, s: &str) -> u32 {
        if let Some(i) = self.map.get(s) {
            return *i;
        }
        self.names.push(s.to_string());
        let i = self.names.len() as u32; // 1-based, 0 = none
        self.map.insert(s.to_string(), i);
        i
    }
}

struct Exporter<'a> {
    source_span: Span<BytePos>,
    tok_starts: &'a [u32], // BytePos of every token start, ascending
    eof: u32,
    names: Interner,
    types: Interner,
    opaque_nodes: u32,
}

fn span(s: BytePos, e: BytePos) -> Span<BytePos> {
    Span::new(s, e)
}

impl<'a> Exporter<'a> {
    /// start of the first token at or after `pos` (else end of input): whitespace after the last
    /// token of a scope still belongs to it
    fn nts(&self, pos: u32) -> u32 {
        match self.tok_starts.binary_search(&pos) {
            Ok(_) => pos,
            Err(i) => self.tok_starts.get(i).copied().unwrap_or(self.eof).max(pos),
        }
    }
    fn ty_lab(&mut self, t: &ArcType) -> u32 {
        let s = format!("{}", t);
        self.types.id(&s)
    }
    fn is_macro_expanded(&self, sp: Span<BytePos>) -> bool {
        sp.start().0 == 0 || !self.source_span.contains(sp)
    }
    fn pat_names(&mut self, p: &SpannedPattern<Symbol>, out: &mut Vec<u32>) {
        match &p.value {
            Pattern::As(id, pat) => {
                out.push(self.names.id(id.value.declared_name()));
                self.pat_names(pat, out);
            }
            Pattern::Ident(id) => out.push(self.names.id(id.name.declared_name())),
            Pattern::Record { fields, .. } => {
                for f in fields.iter() {
                    match f {
                        PatternField::Type { name } => out.push(self.names.id(name.value.declared_name())),
                        PatternField::Value { name, value } => match value {
                            Some(v) => self.pat_names(v, out),
                            None => out.push(self.names.id(name.value.declared_name())),
                        },
                    }
                }
            }
            Pattern::Tuple { elems: args, .. } | Pattern::Constructor(_, args) => {
                for a in args.iter() {
                    self.pat_names(a, out);
                }
            }
            Pattern::Literal(_) | Pattern::Error => {}
        }
    }
    fn pat(&mut self, p: &SpannedPattern<Symbol>) -> TNode {
        match &p.value {
            Pattern::As(_, pat) => {
                let mut n = TNode::new(p.span, kind(P_SEL, true, false, V_PATTERN), 0);
                n.children.push(self.pat(pat));
                n
            }
            Pattern::Constructor(id, args) => {
                // :420 id_span = start .. start + id.as_ref().len()
                let mut n = TNode::new(p.span, kind(P_CTOR, true, false, V_PATTERN), 0);
                let a_end = BytePos(p.span.start().0 + id.as_ref().len() as u32);
                n.children.push(TNode::new(span(p.span.start(), a_end), kind(P_ANCHOR, false, false, V_PATTERN), 0));
                for a in args.iter() {
                    n.children.push(self.pat(a));
                }
                n
            }
            Pattern::Ident(id) => {
                let lab = self.ty_lab(&id.typ);
                TNode::new(p.span, kind(P_LEAF, true, false, V_PATTERN), lab)
            }
            Pattern::Literal(_) | Pattern::Error => TNode::new(p.span, kind(P_LEAF, true, false, V_PATTERN), 0),
            Pattern::Record { fields, .. } => {
                let mut n = TNode::new(p.span, kind(P_RECPAT, true, false, V_PATTERN), 0);
                for f in fields.iter() {
                    match f {
                        PatternField::Type { name } => {
                            let mut g = TNode::new(name.span, kind(P_FIELD, false, false, V_IDENT), 0);
                            g.children.push(TNode::new(name.span, kind(P_LEAF, false, false, V_IDENT), 0));
                            n.children.push(g);
                        }
                        PatternField::Value { name, value } => {
                            let end = value.as_ref().map_or(name.span.end(), |p| p.span.end());
                            let mut g = TNode::new(span(name.span.start(), end), kind(P_FIELD, false, false, V_IDENT), 0);
                            g.children.push(TNode::new(name.span, kind(P_LEAF, false, false, V_IDENT), 0));
                            if let Some(v) = value {
                                g.children.push(self.pat(v));
                            }
                            n.children.push(g);
                        }
                    }
                }
                n
            }
            Pattern::Tuple { elems, .. } => {
                let mut n = TNode::new(p.span, kind(P_SEL, true, false, V_PATTERN), 0);
                for a in elems.iter() {
                    n.children.push(self.pat(a));
                }
                n
            }
        }
    }
    fn ty_node(&mut self, sp: Span<BytePos>) -> TNode {
        TNode::new(sp, kind(P_TYPE, false, false, V_TYPE), 0)
    }
    fn expr(&mut self, e: &SpannedExpr<Symbol>, force: bool) -> TNode {
        if self.is_macro_expanded(e.span) {
            self.opaque_nodes += 1;
            return TNode::new(e.span, kind(P_OPAQUE, false, force, V_EXPR), 0);
        }
        let k = |p: u32| kind(p, true, force, V_EXPR);
        match &e.value {
            Expr::Ident(id) => {
                let lab = self.ty_lab(&id.typ);
                TNode::new(e.span, k(P_LEAF), lab)
            }
            Expr::Literal(l) => {
                let t = match l {
                    Literal::Int(_) => "Int",
                    Literal::Byte(_) => "Byte",
                    Literal::Float(_) => "Float",
                    Literal::String(_) => "String",
                    Literal::Char(_) => "Char",
                };
                let lab = self.types.id(t);
                TNode::new(e.span, k(P_LEAF), lab)
            }
            Expr::App { func, args, .. } => {
                let mut n = TNode::new(e.span, k(P_SEL), 0);
                n.children.push(self.expr(func, false));
                for a in args.iter() {
                    n.children.push(self.expr(a, false));
                }
                n
            }
            Expr::IfElse(p, t, f) => {
                let mut n = TNode::new(e.span, k(P_SEL), 0);
                n.children.push(self.expr(p, false));
                n.children.push(self.expr(t, false));
                n.children.push(self.expr(f, false));
                n
            }
            Expr::Match(scrut, alts) => {
                let mut n = TNode::new(e.span, k(P_SEL), 0);
                n.children.push(self.expr(scrut, true)); // :543 pushed unconditionally
                for alt in alts.iter() {
                    let mut g = TNode::new(span(alt.pattern.span.start(), alt.expr.span.end()), kind(P_SEL, false, false, V_EXPR), 0);
                    let mut names = vec![];
                    self.pat_names(&alt.pattern, &mut names);
                    let sc_end = self.nts(alt.expr.span.end().0);
                    for nm in names {
                        g.binders.push((nm, B_ALT, alt.pattern.span.start().0, sc_end));
                    }
                    g.children.push(self.pat(&alt.pattern));
                    g.children.push(self.expr(&alt.expr, false));
                    n.children.push(g);
                }
                n
            }
            Expr::Infix { lhs, op, rhs, .. } => {
                let mut n = TNode::new(e.span, k(P_INFIX), 0);
                n.children.push(self.expr(lhs, false));
                let lab = self.ty_lab(&op.value.typ);
                n.children.push(TNode::new(op.span, kind(P_OP, false, false, V_IDENT), lab));
                n.children.push(self.expr(rhs, false));
                n
            }
            Expr::LetBindings(bindings, body) => {
                let mut n = TNode::new(e.span, k(P_GATE), 0);
                let ext = self.nts(e.span.end().0);
                let mut names = vec![];
                let mut last_end = e.span.start().0;
                for b in bindings {
                    self.pat_names(&b.name, &mut names);
                    last_end = b.expr.span.end().0;
                    let mut g = TNode::new(span(b.name.span.start(), b.expr.span.end()), kind(P_SEL, false, false, V_EXPR), 0);
                    g.children.push(self.pat(&b.name));
                    let sc_end = self.nts(b.expr.span.end().0);
                    let first_arg = b.args.first().map(|a| a.name.span.start().0);
                    for a in b.args.iter() {
                        let lab = self.ty_lab(&a.name.value.typ);
                        g.children.push(TNode::new(a.name.span, kind(P_LEAF, false, false, V_IDENT), lab));
                        let nm = self.names.id(a.name.value.name.declared_name());
                        g.binders.push((nm, B_LET_ARG, first_arg.unwrap(), sc_end));
                    }
                    if let Some(t) = &b.typ {
                        g.children.push(self.ty_node(t.span()));
                    }
                    g.children.push(self.expr(&b.expr, false));
                    n.children.push(g);
                }
                let sc_start = if bindings.is_recursive() { e.span.start().0 } else { last_end + 1 };
                for nm in names {
                    n.binders.push((nm, if bindings.is_recursive() { B_LET_REC } else { B_LET }, sc_start, ext));
                }
                n.children.push(self.expr(body, false));
                n
            }
            Expr::TypeBindings(tbs, body) => {
                let mut n = TNode::new(e.span, k(P_SEL), 0);
                let ext = self.nts(e.span.end().0);
                for tb in tbs.iter() {
                    let mut g = TNode::new(tb.span(), kind(P_BIND, false, false, V_TYPE), 0);
                    g.children.push(TNode::new(tb.name.span, kind(P_LEAF, false, false, V_TYPE), 0));
                    g.children.push(self.ty_node(tb.alias.value.aliased_type().span()));
                    n.children.push(g);
                    let nm = self.names.id(tb.name.value.declared_name());
                    n.binders.push((nm, B_TYPE, e.span.start().0, ext));
                    // constructors of a variant type are values in scope (on_alias :206)
                    let mut ctors = vec![];
                    ast_ctor_names(tb.alias.value.aliased_type(), &mut ctors);
                    for c in ctors {
                        let nm = self.names.id(&c);
                        n.binders.push((nm, B_CTOR, e.span.start().0, ext));
                    }
                }
                n.children.push(self.expr(body, false));
                n
            }
            Expr::Projection(inner, _id, typ) => {
                let lab = self.ty_lab(typ);
                let mut n = TNode::new(e.span, kind(P_PROJ, true, force, V_IDENT), lab);
                n.children.push(self.expr(inner, false));
                n
            }
            Expr::Array(a) => {
                let mut n = TNode::new(e.span, k(P_SEL), 0);
                for x in a.exprs.iter() {
                    n.children.push(self.expr(x, false));
                }
                n
            }
            Expr::Record { types, exprs, base, .. } => {
                let mut n = TNode::new(e.span, k(P_SEL), 0);
                // field_iter (base/src/ast.rs:586): types and exprs merged by name start
                let mut items: Vec<(u32, usize, bool)> = vec![];
                for (i, t) in types.iter().enumerate() {
                    items.push((t.name.span.start().0, i, true));
                }
                for (i, x) in exprs.iter().enumerate() {
                    items.push((x.name.span.start().0, i, false));
                }
                // merge_by keeps the relative order inside each list; with sorted inputs this is a stable sort
                let mut ti = 0;
                let mut xi = 0;
                let mut merged = vec![];
                while ti < types.len() || xi < exprs.len() {
                    let take_t = if ti < types.len() && xi < exprs.len() {
                        types[ti].name.span.start() < exprs[xi].name.span.start()
                    } else {
                        ti < types.len()
                    };
                    if take_t {
                        merged.push((true, ti));
                        ti += 1;
                    } else {
                        merged.push((false, xi));
                        xi += 1;
                    }
                }
                let _ = items;
                for (is_t, i) in merged {
                    if is_t {
                        n.children.push(TNode::new(types[i].name.span, kind(P_OPQLEAF, false, false, V_IDENT), 0));
                    } else {
                        n.children.push(TNode::new(exprs[i].name.span, kind(P_LEAF, false, false, V_IDENT), 0));
                        if let Some(v) = &exprs[i].value {
                            n.children.push(self.expr(v, false));
                        }
                    }
                }
                if let Some(b) = base {
                    n.children.push(self.expr(b, false));
                }
                n
            }
            Expr::Lambda(l) => {
                let mut n = TNode::new(e.span, k(P_GATE), 0);
                let sc_end = self.nts(l.body.span.end().0);
                let first_arg = l.args.first().map(|a| a.name.span.start().0);
                for a in l.args.iter() {
                    let lab = self.ty_lab(&a.name.value.typ);
                    n.children.push(TNode::new(a.name.span, kind(P_LEAF, false, false, V_IDENT), lab));
                    let nm = self.names.id(a.name.value.name.declared_name());
                    n.binders.push((nm, B_LAMBDA_ARG, first_arg.unwrap(), sc_end));
                }
                n.children.push(self.expr(l.body, false));
                n
            }
            Expr::Tuple { elems: xs, .. } | Expr::Block(xs) => {
                if xs.is_empty() {
                    TNode::new(e.span, k(P_UNIT), 0)
                } else {
                    let mut n = TNode::new(e.span, k(P_SEL), 0);
                    for x in xs.iter() {
                        n.children.push(self.expr(x, false));
                    }
                    n
                }
            }
            Expr::Do(d) => {
                let mut n = TNode::new(e.span, k(P_SEL), 0);
                if let Some(id) = &d.id {
                    let mut names = vec![];
                    self.pat_names(id, &mut names);
                    let ext = self.nts(e.span.end().0);
                    for nm in names {
                        n.binders.push((nm, B_DO, d.body.span.start().0, ext));
                    }
                    n.children.push(self.pat(id));
                }
                n.children.push(self.expr(d.bound, false));
                n.children.push(self.expr(d.body, false));
                n
            }
            // inserted by the checker around an expression whose expected type was skolemised
            // (check/src/typecheck.rs:2624); same span as the expression it wraps.  FindVisitor
            // has `unimplemented!()` here (:717); the obvious repair descends into the wrapped
            // expression, which is what is modelled.
            Expr::Annotated(inner, _) => {
                let mut n = TNode::new(e.span, k(P_SEL), 0);
                n.children.push(self.expr(inner, false));
                n
            }
            Expr::MacroExpansion { .. } => {
                self.opaque_nodes += 1;
                TNode::new(e.span, k(P_OPAQUE), 0)
            }
            Expr::Error(_) => TNode::new(e.span, k(P_ERR), 0),
        }
    }
}

// ------------------------------------------------------------------------------------------
// independent identifier collection (direct oracle): every Expr::Ident / Pattern::Ident of the
// typed AST with the type the checker stored in it
// ------------------------------------------------------------------------------------------
struct Idents {
    out: Vec<(u32, u32, String, String)>,
}
impl<'a, 'ast> Visitor<'a, 'ast> for Idents {
    type Ident = Symbol;
    fn visit_expr(&mut self, e: &'a SpannedExpr<'ast, Symbol>) {
        match &e.value {
            Expr::Ident(id) => self.out.push((e.span.start().0, e.span.end().0, id.name.declared_name().to_string(), format!("{}", id.typ))),
            // implicit arguments are inserted by the checker and have no source position of their own
            Expr::App { func, args, .. } => {
                self.visit_expr(func);
                for a in args.iter() {
                    self.visit_expr(a);
                }
            }
            Expr::Infix { lhs, rhs, .. } => {
                self.visit_expr(lhs);
                self.visit_expr(rhs);
            }
            // `flat_map_id` is synthetic (it has the span of the whole `do`)
            Expr::Do(d) => {
                if let Some(id) = &d.id {
                    self.visit_pattern(id);
                }
                self.visit_expr(d.bound);
                self.visit_expr(d.body);
            }
            _ => ast::walk_expr(self, e),
        }
    }
    fn visit_pattern(&mut self, p: &'a SpannedPattern<'ast, Symbol>) {
        match &p.value {
            Pattern::Ident(id) => self.out.push((p.span.start().0, p.span.end().0, id.name.declared_name().to_string(), format!("{}", id.typ))),
            _ => ast::walk_pattern(self, &p.value),
        }
    }
}

// ------------------------------------------------------------------------------------------
// panic capture
// ------------------------------------------------------------------------------------------
thread_local! {
    static LAST_PANIC: RefCell<Option<(String, String)>> = RefCell::new(None);
}

fn guarded<T>(f: impl FnOnce() -> T) -> Result<T, (String, String)> {
    LAST_PANIC.with(|p| *p.borrow_mut() = None);
    match catch_unwind(AssertUnwindSafe(f)) {
        Ok(v) => Ok(v),
        Err(_) => Err(LAST_PANIC.with(|p| p.borrow_mut().take()).unwrap_or(("?".into(), "?".into()))),
    }
}

fn repo_relative(file: &str) -> String {
    match file.find("/repo/") {
        Some(i) => file[i + 6..].to_string(),
        None => file.to_string(),
    }
}

// ------------------------------------------------------------------------------------------
// progress file: what the (child) process is doing, so that the parent can attribute an abort
// (stack overflow, non-unwinding panic) or a hang to a program, a query and an offset
// ------------------------------------------------------------------------------------------
struct Progress {
    file: std::fs::File,
    fine: bool,
}
static PROGRESS: std::sync::Mutex<Option<Progress>> = std::sync::Mutex::new(None);

fn progress(phase: &str, function: &str, offset: u32, variant: &str, text: &str) {
    use std::io::{Seek, SeekFrom};
    if let Ok(mut g) = PROGRESS.lock() {
        if let Some(p) = g.as_mut() {
            let line = serde_json::json!({"phase": phase, "function": function, "offset": offset, "variant": variant,
                "hash": format!("{:016x}", fnv(text.as_bytes())), "program": text})
            .to_string();
            let _ = p.file.seek(SeekFrom::Start(0));
            let _ = p.file.set_len(0);
            let _ = p.file.write_all(line.as_bytes());
            let _ = p.file.flush();
        }
    }
}
fn fine_progress(function: &str, offset: u32, variant: &str, text: &str) {
    let fine = PROGRESS.lock().map(|g| g.as_ref().map_or(false, |p| p.fine)).unwrap_or(false);
    if fine {
        progress("query", function, offset, variant, text);
    }
}

// ------------------------------------------------------------------------------------------
// one program variant: front end, export, every offset x every query
// ------------------------------------------------------------------------------------------
#[derive(Default)]
struct Totals {
    positions: u64,
    queries: u64,
    variants: u64,
    no_ast: u64,
    pipeline_panics: u64,
    opaque_nodes: u64,
    ident_positions: u64,
    ident_not_reported: u64,
    tree_nodes: u64,
}

struct PanicRec {
    count: u64,
    program: String,
    offset: u32,
    message: String,
    variant: String,
    hash: u64,
}

struct Out {
    model_in: std::io::BufWriter<std::fs::File>,
    impl_out: std::io::BufWriter<std::fs::File>,
    cases: std::io::BufWriter<std::fs::File>,
    direct: std::io::BufWriter<std::fs::File>,
    notes: std::io::BufWriter<std::fs::File>,
    panics: BTreeMap<(String, String), PanicRec>,
    hist: Hist,
    totals: Totals,
    distinct: HashSet<u64>,
    nontrivial: u64,
    vid_prefix: String,
    next_vid: u64,
    direct_reported: u64,
}

fn esc(s: &str) -> String {
    s.replace('\\', "\\\\").replace('\n', "\\n").replace('\r', "\\r")
}

fn match_variant(m: &completion::Match) -> u32 {
    match m {
        completion::Match::Expr(_) => V_EXPR,
        completion::Match::Pattern(_) => V_PATTERN,
        completion::Match::Ident(..) => V_IDENT,
        completion::Match::Type(..) => V_TYPE,
    }
}

fn token_starts(text: &str) -> Vec<(u32, u32)> {
    let (toks, _) = gluon_parser::verif::tokens(text);
    let mut v: Vec<(u32, u32)> = toks
        .iter()
        .filter_map(|t| match t {
            Ok((s, e, _)) => Some((*s, *e)),
            Err(_) => None,
        })
        .filter(|(s, e)| e > s)
        .collect();
    v.sort();
    v
}

fn run_variant(out: &mut Out, symbols: &mut Symbols, env: &Env, text: &str, pid: u64, variant: &str, only_offset: Option<u32>, verbose: bool) {
    progress("front-end", "-", 0, variant, text);
    out.totals.variants += 1;
    let vkind = variant.split(':').next().unwrap_or(variant).to_string();
    out.hist.add(&format!("variant:{}", vkind));
    let hash = fnv(text.as_bytes());
    let checked = match guarded(|| front_end(symbols, env, text)) {
        Ok(Some(c)) => c,
        Ok(None) => {
            out.totals.no_ast += 1;
            out.hist.add(&format!("front-end:{}:no-ast", vkind));
            return;
        }
        Err((loc, msg)) => {
            // the front end itself panicked on this text: C09's business, recorded in the histogram
            out.totals.pipeline_panics += 1;
            out.hist.add(&format!("front-end:panic@{}", loc));
            if verbose {
                println!("front end panicked at {}: {}", loc, msg);
            }
            return;
        }
    };
    let status = if checked.parse_ok && checked.check_ok { "well-typed" } else if checked.parse_ok { "type-error" } else { "parse-error" };
    out.hist.add(&format!("front-end:{}:{}", vkind, status));
    let root = checked.expr.expr();
    let len = text.len() as u32;
    let source_span = Span::new(BytePos(1), BytePos(len + 1));
    let toks = token_starts(text);
    let tok_starts: Vec<u32> = toks.iter().map(|t| t.0).collect();
    let mut ex = Exporter { source_span, tok_starts: &tok_starts, eof: len + 1, names: Interner::default(), types: Interner::default(), opaque_nodes: 0 };
    progress("export", "-", 0, variant, text);
    let tree = match guarded(|| ex.expr(root, false)) {
        Ok(t) => t,
        Err((loc, msg)) => {
            out.hist.add(&format!("exporter-panic@{}", loc));
            if verbose {
                println!("exporter panicked at {}: {}", loc, msg);
            }
            return;
        }
    };
    out.totals.opaque_nodes += ex.opaque_nodes as u64;
    if ex.opaque_nodes > 0 && out.totals.opaque_nodes <= 20 {
        writeln!(out.notes, "{}", serde_json::json!({"note": "unmodelled-node", "program": text, "variant": variant})).unwrap();
    }
    out.totals.tree_nodes += tree.count() as u64;
    let vid = format!("{}{}", out.vid_prefix, out.next_vid);
    out.next_vid += 1;
    let mut line = String::new();
    tree.write(&mut line);
    writeln!(out.model_in, "T {} {}", vid, line).unwrap();
    writeln!(out.impl_out, "T {}", vid).unwrap();
    writeln!(out.cases, "T {} prog={} variant={} status={} hash={:016x} src={}", vid, pid, variant, status, hash, esc(text)).unwrap();
    if tree.count() >= 4 && out.distinct.insert(hash) {
        out.nontrivial += 1;
    }
    // identifiers for the direct oracle
    let mut idents = Idents { out: vec![] };
    idents.visit_expr(root);

    let mut note_panic = |out: &mut Out, func: &str, loc: String, msg: String, offset: u32| {
        let e = out.panics.entry((func.to_string(), loc)).or_insert(PanicRec {
            count: 0,
            program: text.to_string(),
            offset,
            message: msg.clone(),
            variant: variant.to_string(),
            hash,
        });
        e.count += 1;
        if text.len() < e.program.len() {
            e.program = text.to_string();
            e.offset = offset;
            e.message = msg;
            e.variant = variant.to_string();
            e.hash = hash;
        }
    };

    // position independent query
    progress("query", "all_symbols", 0, variant, text);
    out.totals.queries += 1;
    out.hist.add("query:all_symbols");
    if let Err((loc, msg)) = guarded(|| completion::all_symbols(source_span, root).len()) {
        note_panic(out, "all_symbols", loc, msg, 0);
    }

    for offset in 0..=len {
        if let Some(o) = only_offset {
            if o != offset {
                continue;
            }
        }
        let pos = BytePos(offset + 1);
        if offset == 0 {
            progress("query", "?", 0, variant, text);
        }
        out.totals.positions += 1;
        out.hist.add(&format!("positions:{}", vkind));
        let mut panicked = false;
        // 1. complete: the raw search result
        fine_progress("complete", offset, variant, text);
        out.totals.queries += 1;
        let found = guarded(|| {
            completion::complete(source_span, root, pos).map(|f| {
                let m = f.match_.as_ref().map(|m| (match_variant(m), m.span()));
                let sel_kind: &'static str = match (f.match_.as_ref(), f.enclosing_matches.last()) {
                    (Some(completion::Match::Expr(x)), _) => x.value.kind(),
                    (Some(completion::Match::Pattern(_)), _) => "Pattern",
                    (Some(completion::Match::Type(..)), _) => "Type",
                    (_, Some(completion::Match::Expr(x))) => x.value.kind(),
                    (_, Some(completion::Match::Pattern(_))) => "Pattern",
                    _ => "?",
                };
                let e = f.enclosing_matches.last().map(|m| m.span());
                // names admitted besides the lexical scope: fields of the record being projected /
                // matched (completion after a dot)
                let mut fx: Vec<String> = vec![];
                match f.enclosing_matches.last() {
                    Some(completion::Match::Expr(ctx)) => {
                        if let Expr::Projection(inner, _, _) = &ctx.value {
                            if let Ok(t) = ast::Typed::try_type_of(&**inner, env) {
                                let t = resolve::remove_aliases(env, NullInterner::new(), t);
                                for fld in t.row_iter() {
                                    fx.push(fld.name.declared_name().to_string());
                                }
                            }
                        }
                    }
                    Some(completion::Match::Pattern(p)) => {
                        if let Pattern::Record { typ, .. } = &p.value {
                            let t = resolve::remove_aliases(env, NullInterner::new(), typ.clone());
                            for fld in t.row_iter() {
                                fx.push(fld.name.declared_name().to_string());
                            }
                            for fld in t.type_field_iter() {
                                fx.push(fld.name.declared_name().to_string());
                            }
                        }
                    }
                    _ => {}
                }
                (m, e, fx, sel_kind)
            })
        });
        let found = match found {
            Ok(f) => Some(f),
            Err((loc, msg)) => {
                note_panic(out, "complete", loc, msg, offset);
                panicked = true;
                None
            }
        };
        // 2. find
        fine_progress("find", offset, variant, text);
        out.totals.queries += 1;
        let ty_text: Option<String> = match guarded(|| completion::find(env, source_span, root, pos)) {
            Ok(Ok(t)) => Some(match (t.as_ref().left(), t.as_ref().right()) {
                (Some(k), _) => format!("{}", k),
                (_, Some(t)) => format!("{}", t),
                _ => String::new(),
            }),
            Ok(Err(())) => None,
            Err((loc, msg)) => {
                note_panic(out, "find", loc, msg, offset);
                panicked = true;
                None
            }
        };
        // 3. suggest
        fine_progress("suggest", offset, variant, text);
        out.totals.queries += 1;
        let sugg: Vec<String> = match guarded(|| completion::suggest(env, source_span, root, pos)) {
            Ok(v) => {
                let mut names: Vec<String> = v.into_iter().map(|s| s.name).collect();
                names.sort();
                names.dedup();
                names
            }
            Err((loc, msg)) => {
                note_panic(out, "suggest", loc, msg, offset);
                panicked = true;
                vec![]
            }
        };
        // 4..8 the remaining queries only have to return
        out.totals.queries += 6;
        fine_progress("symbol", offset, variant, text);
        if let Err((loc, msg)) = guarded(|| completion::symbol(source_span, root, pos).map(|s| s.declared_name().len())) {
            note_panic(out, "symbol", loc, msg, offset);
            panicked = true;
        }
        fine_progress("find_all_symbols", offset, variant, text);
        if let Err((loc, msg)) = guarded(|| completion::find_all_symbols(source_span, root, pos).map(|s| s.1.len())) {
            note_panic(out, "find_all_symbols", loc, msg, offset);
            panicked = true;
        }
        fine_progress("signature_help", offset, variant, text);
        if let Err((loc, msg)) = guarded(|| completion::signature_help(env, source_span, root, pos).map(|s| s.name.len())) {
            note_panic(out, "signature_help", loc, msg, offset);
            panicked = true;
        }
        fine_progress("get_metadata", offset, variant, text);
        if let Err((loc, msg)) = guarded(|| completion::get_metadata(&checked.metadata, source_span, root, pos).is_some()) {
            note_panic(out, "get_metadata", loc, msg, offset);
            panicked = true;
        }
        fine_progress("suggest_metadata", offset, variant, text);
        if let Err((loc, msg)) = guarded(|| completion::suggest_metadata(&checked.metadata, env, source_span, root, pos, "x").is_some()) {
            note_panic(out, "suggest_metadata", loc, msg, offset);
            panicked = true;
        }
        fine_progress("completion", offset, variant, text);
        if let Err((loc, msg)) = guarded(|| completion::completion(completion::SpanAt, source_span, root, pos).is_ok()) {
            note_panic(out, "completion", loc, msg, offset);
            panicked = true;
        }
        if offset == 0 {
            for q in ["complete", "find", "suggest", "symbol", "find_all_symbols", "signature_help", "get_metadata", "suggest_metadata", "completion"] {
                out.hist.addn(&format!("query:{}", q), (len + 1) as u64);
            }
        }
        // direct oracle: inside an identifier the reported type is the checker's
        let sel_kind = match &found {
            Some(Ok(x)) => x.3,
            _ => "?",
        };
        for (s, e, name, ty) in &idents.out {
            if *s <= pos.0 && pos.0 < *e && *s >= 1 && *e <= len + 1 {
                out.totals.ident_positions += 1;
                match &ty_text {
                    Some(t) if t == ty => {}
                    Some(t) => {
                        if !panicked && out.direct_reported < 200 {
                            out.direct_reported += 1;
                            writeln!(
                                out.direct,
                                "{}",
                                serde_json::json!({"program": text, "variant": variant, "hash": format!("{:016x}", hash), "offset": offset,
                                    "ident": name, "ident_span": [s, e], "checker_type": ty, "reported": t, "well_typed": checked.parse_ok && checked.check_ok,
                                    "where": if pos.0 == *s { "at-start" } else { "inside" }, "selected": sel_kind, "status": status})
                            )
                            .unwrap();
                        }
                        out.hist.add("direct:type-differs");
                    }
                    None => {
                        if !panicked {
                            out.totals.ident_not_reported += 1;
                            if out.totals.ident_not_reported <= 40 {
                                writeln!(
                                    out.notes,
                                    "{}",
                                    serde_json::json!({"note": "identifier-without-reported-type", "program": text, "variant": variant, "offset": offset, "ident": name, "ident_span": [s, e]})
                                )
                                .unwrap();
                            }
                        }
                    }
                }
            }
        }
        if panicked {
            // the panic is the finding at this position; nothing to compare
            out.hist.add("positions:panicked");
            continue;
        }
        let (m, e, fx, _) = match found {
            Some(Ok(x)) => x,
            Some(Err(())) => {
                writeln!(out.model_in, "Q {} 0 sg= fx=", pos.0).unwrap();
                writeln!(out.impl_out, "r=N").unwrap();
                writeln!(out.cases, "Q {} offset={} ty=- sugg=[]", vid, offset).unwrap();
                out.hist.add("impl:not-found");
                continue;
            }
            None => continue,
        };
        let ty_id = ty_text.as_ref().map_or(0, |t| ex.types.id(t));
        let sg: Vec<String> = sugg.iter().map(|s| ex.names.id(s).to_string()).collect();
        let fxs: Vec<String> = fx.iter().map(|s| ex.names.id(s).to_string()).collect();
        writeln!(out.model_in, "Q {} {} sg={} fx={}", pos.0, ty_id, sg.join(","), fxs.join(",")).unwrap();
        let es = e.map_or("?".to_string(), |s| format!("{}-{}", s.start().0, s.end().0));
        match m {
            Some((v, sp)) => {
                writeln!(out.impl_out, "r=F m={}:{}-{} e={} ty=ok sc=ok", v, sp.start().0, sp.end().0, es).unwrap();
                out.hist.add("impl:found");
            }
            None => {
                writeln!(out.impl_out, "r=E e={} ty=ok sc=ok", es).unwrap();
                out.hist.add("impl:empty");
            }
        }
        let idmap: Vec<String> = sugg.iter().map(|s| format!("{}#{}", s, ex.names.id(s))).collect();
        writeln!(
            out.cases,
            "Q {} offset={} ty={}#{} sugg=[{}] fields=[{}]",
            vid,
            offset,
            ty_text.as_deref().map(esc).unwrap_or_else(|| "-".into()),
            ty_id,
            idmap.join(" "),
            fx.join(" ")
        )
        .unwrap();
    }
}

fn variants_of(text: &str) -> Vec<(String, String)> {
    let toks = token_starts(text);
    let mut out = vec![("complete".to_string(), text.to_string())];
    let mut seen: HashSet<String> = HashSet::new();
    seen.insert(text.to_string());
    let b = text.as_bytes();
    let slice = |a: usize, z: usize| String::from_utf8_lossy(&b[a..z]).to_string();
    for (i, (_s, e)) in toks.iter().enumerate() {
        // BytePos is 1-based: byte index = pos - 1
        let cut = (*e - 1) as usize;
        if i + 1 < toks.len() && cut <= text.len() {
            let t = slice(0, cut);
            if seen.insert(t.clone()) {
                out.push((format!("truncated:{}", i), t));
            }
        }
    }
    for (i, (s, e)) in toks.iter().enumerate() {
        let (a, z) = ((*s - 1) as usize, (*e - 1) as usize);
        if z <= text.len() && a <= z {
            let t = format!("{}{}", slice(0, a), slice(z, text.len()));
            if seen.insert(t.clone()) {
                out.push((format!("deleted:{}", i), t));
            }
        }
    }
    out
}

fn corpus() -> Vec<String> {
    let dir = std::path::Path::new(env!("CARGO_MANIFEST_DIR")).join("../corpus/C20");
    let mut files: Vec<_> = match std::fs::read_dir(&dir) {
        Ok(rd) => rd.filter_map(|e| e.ok()).map(|e| e.path()).filter(|p| p.extension().map_or(false, |x| x == "glu")).collect(),
        Err(_) => vec![],
    };
    files.sort();
    files.iter().filter_map(|p| std::fs::read_to_string(p).ok()).collect()
}

fn install_panic_hook() {
    std::panic::set_hook(Box::new(|info| {
        let loc = info.location().map(|l| format!("{}:{}", repo_relative(l.file()), l.line())).unwrap_or_else(|| "?".into());
        let msg = if let Some(s) = info.payload().downcast_ref::<&str>() {
            s.to_string()
        } else if let Some(s) = info.payload().downcast_ref::<String>() {
            s.clone()
        } else {
            "?".to_string()
        };
        LAST_PANIC.with(|p| *p.borrow_mut() = Some((loc, msg)));
    }));
}

fn new_out(args: &Args) -> Out {
    Out {
        model_in: args.file("model_in.txt"),
        impl_out: args.file("impl_out.txt"),
        cases: args.file("cases.txt"),
        direct: args.file("direct.jsonl"),
        notes: args.file("notes.jsonl"),
        panics: BTreeMap::new(),
        hist: Hist::default(),
        totals: Totals::default(),
        distinct: HashSet::new(),
        nontrivial: 0,
        vid_prefix: String::new(),
        next_vid: 0,
        direct_reported: 0,
    }
}

/// corpus + generated programs; deterministic in (seed, tier, extra), so every child process
/// rebuilds the same list and works on its own slice of it
fn build_programs(args: &Args) -> (Vec<(String, String)>, Hist) {
    let mut rng = Rng::new(args.seed);
    let nprog: u64 = args.extra.get("programs").and_then(|s| s.parse().ok()).unwrap_or(if args.thorough() { 800 } else { 110 });
    let mut programs: Vec<(String, String)> = corpus().into_iter().map(|s| ("corpus".to_string(), s)).collect();
    let mut feat = Hist::default();
    let maxlen: usize = args.extra.get("maxlen").and_then(|s| s.parse().ok()).unwrap_or(if args.thorough() { 180 } else { 150 });
    for _ in 0..nprog {
        // bounded size: the number of variants x offsets grows quadratically with the length
        let mut tries = 0;
        loop {
            let mut f = Hist::default();
            let text = {
                let mut g = Gen { rng: &mut rng, has_t: false, line_ok: false, fresh: 0, feat: &mut f };
                g.program()
            };
            tries += 1;
            if text.len() <= maxlen || tries > 200 {
                for (k, v) in &f.0 {
                    feat.addn(k, *v);
                }
                programs.push(("generated".to_string(), text));
                break;
            }
        }
    }
    (programs, feat)
}

fn finish_out(args: &Args, mut out: Out, programs: u64) {
    out.model_in.flush().unwrap();
    out.impl_out.flush().unwrap();
    out.cases.flush().unwrap();
    out.direct.flush().unwrap();
    out.notes.flush().unwrap();
    let mut pf = args.file("panics.jsonl");
    for ((func, loc), p) in &out.panics {
        writeln!(
            pf,
            "{}",
            serde_json::json!({"function": func, "location": loc, "count": p.count, "program": p.program, "offset": p.offset,
                "message": p.message, "variant": p.variant, "hash": format!("{:016x}", p.hash)})
        )
        .unwrap();
    }
    pf.flush().unwrap();
    let t = &out.totals;
    gvh::out::write_json(
        &args.out.join("stats.json"),
        &serde_json::json!({
            "evaluations": t.queries,
            "positions": t.positions,
            "variants": t.variants,
            "programs": programs,
            "no_ast": t.no_ast,
            "front_end_panics": t.pipeline_panics,
            "opaque_nodes": t.opaque_nodes,
            "tree_nodes": t.tree_nodes,
            "ident_positions": t.ident_positions,
            "ident_not_reported": t.ident_not_reported,
            "distinct_nontrivial": out.nontrivial,
            "hist": out.hist.to_json(),
        }),
    );
}

/// `child lo=<a> hi=<b> chunk=<i> [skip=<hash,hash>]`: programs a..b of the list, outputs into --out
fn child_main(args: &Args) {
    install_panic_hook();
    let file = std::fs::File::create(args.out.join("progress.txt")).expect("progress file");
    *PROGRESS.lock().unwrap() = Some(Progress { file, fine: false });
    let (programs, feat) = build_programs(args);
    let lo: usize = args.extra.get("lo").and_then(|s| s.parse().ok()).unwrap_or(0);
    let hi: usize = args.extra.get("hi").and_then(|s| s.parse().ok()).unwrap_or(programs.len()).min(programs.len());
    let skip: HashSet<String> = args.extra.get("skip").map(|s| s.split(',').map(|x| x.to_string()).collect()).unwrap_or_default();
    let mut symbols = Symbols::new();
    let env = Env::new(&mut symbols);
    let mut out = new_out(args);
    out.vid_prefix = format!("{}.", args.extra.get("chunk").cloned().unwrap_or_else(|| "0".into()));
    for (pid, (origin, text)) in programs.iter().enumerate().take(hi).skip(lo) {
        out.hist.add(&format!("origin:{}", origin));
        for (vname, vtext) in variants_of(text) {
            if skip.contains(&format!("{:016x}", fnv(vtext.as_bytes()))) {
                out.hist.add("variant-skipped-after-abort");
                continue;
            }
            let t0 = std::time::Instant::now();
            run_variant(&mut out, &mut symbols, &env, &vtext, pid as u64, &vname, None, false);
            if t0.elapsed().as_millis() > 500 {
                out.hist.add("slow-variant(>500ms)");
            }
        }
    }
    if lo == 0 {
        for (k, v) in &feat.0 {
            out.hist.addn(&format!("feature:{}", k), *v);
        }
    }
    finish_out(args, out, (hi - lo) as u64);
}

/// `probe file=<json>`: one variant with a progress record before every single query
fn probe_main(args: &Args) {
    install_panic_hook();
    let file = std::fs::File::create(args.out.join("progress.txt")).expect("progress file");
    *PROGRESS.lock().unwrap() = Some(Progress { file, fine: true });
    let v: serde_json::Value = serde_json::from_str(&std::fs::read_to_string(args.extra.get("file").expect("file=")).expect("probe file")).expect("json");
    let src = v["program"].as_str().expect("program").to_string();
    let variant = v["variant"].as_str().unwrap_or("probe").to_string();
    let mut symbols = Symbols::new();
    let env = Env::new(&mut symbols);
    let mut out = new_out(args);
    run_variant(&mut out, &mut symbols, &env, &src, 0, &variant, None, false);
    progress("done", "-", 0, &variant, &src);
}

fn run_with_timeout(cmd: &mut std::process::Command, secs: u64) -> (Option<std::process::ExitStatus>, String) {
    use std::process::Stdio;
    let mut child = cmd.stdout(Stdio::null()).stderr(Stdio::piped()).spawn().expect("spawn child");
    let deadline = std::time::Instant::now() + std::time::Duration::from_secs(secs);
    let status = loop {
        match child.try_wait() {
            Ok(Some(st)) => break Some(st),
            Ok(None) => {
                if std::time::Instant::now() > deadline {
                    let _ = child.kill();
                    let _ = child.wait();
                    break None;
                }
                std::thread::sleep(std::time::Duration::from_millis(20));
            }
            Err(_) => break None,
        }
    };
    let mut err = String::new();
    if let Some(mut e) = child.stderr.take() {
        use std::io::Read;
        let mut buf = Vec::new();
        let _ = e.read_to_end(&mut buf);
        err = String::from_utf8_lossy(&buf).to_string();
    }
    let tail: String = err.chars().rev().take(600).collect::<String>().chars().rev().collect();
    (status, tail)
}

fn common_child_args(args: &Args) -> Vec<String> {
    let mut v = vec!["--tier".to_string(), args.tier.clone(), "--seed".to_string(), args.seed.to_string()];
    for (k, val) in &args.extra {
        if !["lo", "hi", "chunk", "skip", "file", "jobs", "chunk_size"].contains(&k.as_str()) {
            v.push(format!("{}={}", k, val));
        }
    }
    v
}

/// One chunk: run the child; when it dies (abort, signal, timeout) find out where with a probe
/// run, record it, skip that variant and start the chunk again.
fn run_chunk(args: &Args, exe: &std::path::Path, chunk: usize, lo: usize, hi: usize, timeout: u64) -> Vec<serde_json::Value> {
    let dir = args.out.join(format!("chunk-{}", chunk));
    let mut aborts = vec![];
    let mut skip: Vec<String> = vec![];
    for _attempt in 0..25 {
        let _ = std::fs::remove_dir_all(&dir);
        std::fs::create_dir_all(&dir).unwrap();
        let mut cmd = std::process::Command::new(exe);
        cmd.arg("child").arg("--out").arg(&dir).args(common_child_args(args)).arg(format!("lo={}", lo)).arg(format!("hi={}", hi)).arg(format!("chunk={}", chunk));
        if !skip.is_empty() {
            cmd.arg(format!("skip={}", skip.join(",")));
        }
        let (status, err_tail) = run_with_timeout(&mut cmd, timeout);
        if status.map_or(false, |s| s.success()) {
            return aborts;
        }
        let how = match status {
            None => "timeout (hang)".to_string(),
            Some(s) => format!("{}", s),
        };
        let prog: serde_json::Value = std::fs::read_to_string(dir.join("progress.txt")).ok().and_then(|t| serde_json::from_str(&t).ok()).unwrap_or(serde_json::json!({}));
        let hash = prog["hash"].as_str().unwrap_or("?").to_string();
        // pin the query and the offset down
        let pdir = args.out.join(format!("probe-{}", chunk));
        let _ = std::fs::remove_dir_all(&pdir);
        std::fs::create_dir_all(&pdir).unwrap();
        std::fs::write(pdir.join("probe.json"), prog.to_string()).unwrap();
        let mut pc = std::process::Command::new(exe);
        pc.arg("probe").arg("--out").arg(&pdir).args(common_child_args(args)).arg(format!("file={}", pdir.join("probe.json").display()));
        let (pstatus, perr) = run_with_timeout(&mut pc, 120);
        let fine: serde_json::Value = std::fs::read_to_string(pdir.join("progress.txt")).ok().and_then(|t| serde_json::from_str(&t).ok()).unwrap_or(serde_json::json!({}));
        let reproduced = !pstatus.map_or(false, |s| s.success());
        aborts.push(serde_json::json!({
            "how": how, "stderr": err_tail, "program": prog["program"], "variant": prog["variant"], "hash": hash,
            "phase": if reproduced { fine["phase"].clone() } else { prog["phase"].clone() },
            "function": if reproduced { fine["function"].clone() } else { prog["function"].clone() },
            "offset": if reproduced { fine["offset"].clone() } else { prog["offset"].clone() },
            "reproduced_alone": reproduced, "probe_stderr": perr,
        }));
        if hash == "?" {
            break;
        }
        skip.push(hash);
    }
    aborts
}

fn append_file(dst: &mut impl Write, path: &std::path::Path) {
    if let Ok(mut f) = std::fs::File::open(path) {
        let _ = std::io::copy(&mut f, dst);
    }
}

fn parent_main(args: &Args) {
    let (programs, _) = build_programs(args);
    let n = programs.len();
    let chunk_size: usize = args.extra.get("chunk_size").and_then(|s| s.parse().ok()).unwrap_or(if args.thorough() { 25 } else { 15 });
    let jobs: usize = args.extra.get("jobs").and_then(|s| s.parse().ok()).unwrap_or(8);
    let timeout: u64 = if args.thorough() { 1500 } else { 600 };
    let exe = std::env::current_exe().expect("current_exe");
    let chunks: Vec<(usize, usize, usize)> = (0..n).step_by(chunk_size).enumerate().map(|(i, lo)| (i, lo, (lo + chunk_size).min(n))).collect();
    let next = std::sync::atomic::AtomicUsize::new(0);
    let aborts: std::sync::Mutex<Vec<(usize, Vec<serde_json::Value>)>> = std::sync::Mutex::new(vec![]);
    std::thread::scope(|sc| {
        for _ in 0..jobs.min(chunks.len()).max(1) {
            sc.spawn(|| loop {
                let i = next.fetch_add(1, std::sync::atomic::Ordering::SeqCst);
                if i >= chunks.len() {
                    break;
                }
                let (c, lo, hi) = chunks[i];
                let a = run_chunk(args, &exe, c, lo, hi, timeout);
                aborts.lock().unwrap().push((c, a));
            });
        }
    });
    // merge, in chunk order
    let mut model_in = args.file("model_in.txt");
    let mut impl_out = args.file("impl_out.txt");
    let mut cases = args.file("cases.txt");
    let mut direct = args.file("direct.jsonl");
    let mut notes = args.file("notes.jsonl");
    let mut panics: BTreeMap<(String, String), serde_json::Value> = BTreeMap::new();
    let mut totals: BTreeMap<String, u64> = BTreeMap::new();
    let mut hist = Hist::default();
    let mut missing = 0u64;
    for (c, _, _) in &chunks {
        let dir = args.out.join(format!("chunk-{}", c));
        let stats: Option<serde_json::Value> = std::fs::read_to_string(dir.join("stats.json")).ok().and_then(|t| serde_json::from_str(&t).ok());
        let stats = match stats {
            Some(s) => s,
            None => {
                missing += 1;
                continue;
            }
        };
        append_file(&mut model_in, &dir.join("model_in.txt"));
        append_file(&mut impl_out, &dir.join("impl_out.txt"));
        append_file(&mut cases, &dir.join("cases.txt"));
        append_file(&mut direct, &dir.join("direct.jsonl"));
        append_file(&mut notes, &dir.join("notes.jsonl"));
        if let Some(o) = stats.as_object() {
            for (k, v) in o {
                if let Some(x) = v.as_u64() {
                    *totals.entry(k.clone()).or_insert(0) += x;
                }
            }
            if let Some(h) = o.get("hist").and_then(|h| h.as_object()) {
                for (k, v) in h {
                    hist.addn(k, v.as_u64().unwrap_or(0));
                }
            }
        }
        for line in std::fs::read_to_string(dir.join("panics.jsonl")).unwrap_or_default().lines() {
            if let Ok(p) = serde_json::from_str::<serde_json::Value>(line) {
                let key = (p["function"].as_str().unwrap_or("?").to_string(), p["location"].as_str().unwrap_or("?").to_string());
                match panics.get_mut(&key) {
                    None => {
                        panics.insert(key, p);
                    }
                    Some(old) => {
                        let cnt = old["count"].as_u64().unwrap_or(0) + p["count"].as_u64().unwrap_or(0);
                        if p["program"].as_str().map_or(0, |s| s.len()) < old["program"].as_str().map_or(0, |s| s.len()) {
                            *old = p;
                        }
                        old["count"] = serde_json::json!(cnt);
                    }
                }
            }
        }
        let _ = std::fs::remove_dir_all(&dir);
    }
    let mut pf = args.file("panics.jsonl");
    for p in panics.values() {
        writeln!(pf, "{}", p).unwrap();
    }
    let mut af = args.file("aborts.jsonl");
    let mut all_aborts = aborts.into_inner().unwrap();
    all_aborts.sort_by_key(|a| a.0);
    let mut n_aborts = 0u64;
    for (_, list) in &all_aborts {
        for a in list {
            n_aborts += 1;
            writeln!(af, "{}", a).unwrap();
        }
    }
    for w in [&mut model_in, &mut impl_out, &mut cases, &mut direct, &mut notes, &mut pf, &mut af] {
        w.flush().unwrap();
    }
    let mut stats = serde_json::Map::new();
    for (k, v) in &totals {
        stats.insert(k.clone(), serde_json::json!(v));
    }
    stats.insert("programs".into(), serde_json::json!(n));
    stats.insert("chunks".into(), serde_json::json!(chunks.len()));
    stats.insert("chunks_without_result".into(), serde_json::json!(missing));
    stats.insert("aborts".into(), serde_json::json!(n_aborts));
    stats.insert(
        "rule".into(),
        serde_json::json!("one evaluation = one editor query at one byte offset of one program variant; distinct non-trivial = program variants with an exported span tree of at least 4 nodes, distinct by source text (per chunk of programs)"),
    );
    stats.insert("hist".into(), hist.to_json());
    gvh::out::write_json(&args.out.join("stats.json"), &serde_json::Value::Object(stats));
}

fn main() {
    let args = Args::parse();
    if args.rest.iter().any(|a| a == "child") {
        return child_main(&args);
    }
    if args.rest.iter().any(|a| a == "probe") {
        return probe_main(&args);
    }
    if let Some(path) = &args.replay {
        install_panic_hook();
        let mut symbols = Symbols::new();
        let env = Env::new(&mut symbols);
        let mut out = new_out(&args);
        let v: serde_json::Value = serde_json::from_str(&std::fs::read_to_string(path).expect("replay file")).expect("json");
        let src = v["case"]["program"].as_str().expect("case.program").to_string();
        let offset = v["case"]["offset"].as_u64().map(|o| o as u32);
        println!("program:\n{}\noffset: {:?}", src, offset);
        {
            let type_cache = TypeCache::new();
            let mut module = SymbolModule::new("test".into(), &mut symbols);
            match gluon_parser::parse_partial_root_expr(&mut module, &type_cache, &src[..]) {
                Ok(_) => println!("parse: ok"),
                Err((e, errs)) => println!("parse: errors (ast recovered: {}): {}", e.is_some(), errs),
            }
        }
        run_variant(&mut out, &mut symbols, &env, &src, 0, "replay", offset, true);
        out.model_in.flush().unwrap();
        out.impl_out.flush().unwrap();
        out.cases.flush().unwrap();
        for ((func, loc), p) in &out.panics {
            println!("PANIC in {} at {} (offset {}): {}", func, loc, p.offset, p.message);
        }
        println!("impl_out:\n{}", std::fs::read_to_string(args.out.join("impl_out.txt")).unwrap_or_default());
        println!("model_in:\n{}", std::fs::read_to_string(args.out.join("model_in.txt")).unwrap_or_default());
        return;
    }
    parent_main(&args);
}
