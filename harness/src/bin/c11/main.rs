//! C11 — marshalling between Rust and Gluon is lossless and type-faithful.
//!
//! Drives the REAL `Pushable`/`Getable`/`VmType` instances (vm/src/api/mod.rs, gluon_codegen
//! derives), `FunctionRef::call`, `Thread::get_global` and the serde bridge (`api::ser::Ser`,
//! `api::de::De`) over a family of concrete Rust types (fam.rs) with boundary and random values,
//! and prints every observable in the text format of the extracted model (coq/extract/c11).
//!
//! Routes per (type T, value v):
//!   push   v.marshal() and a walk of the raw VM representation through `Variants`/`ValueRef`
//!   get    `T::from_value` of the pushed value
//!   id     `FunctionRef<fn(T) -> T>::call` of the Gluon function `\x -> x`
//!   rb     the same through a Gluon function that takes the value apart (match, field access,
//!          array indexing, map traversal) and builds it again with Gluon's constructors
//!   wrap   `fn(T) -> Option<T>` through `\x -> Some x`
//!   ser    `Ser(v).marshal()` + walk          depush `De<T>::from_value` of the pushed value
//!   deser  `De<T>::from_value` of the `Ser` value
//!   serrb  the rebuild function called with `Ser(v)`, result read back with `Getable`
//! and per (T, W) pair of the family: `get_global::<W>` of a global holding a T and
//! `get_global::<FunctionRef<fn(W) -> W>>` of a Gluon function `T -> T`.
//!
//! Everything that touches the VM runs in a child process (re-invocation of this binary) under a
//! watchdog: a stack overflow or an abort inside `extern "C"` kills only the child, the parent
//! attributes it to the route that was running and restarts after it.
//!
//! Files in --out: model_in.txt, impl_out.txt, cases.txt, stats.json (+ child.log, raw protocol).
mod fam;
mod ty;

use fam::{M, Visitor};
use gluon::vm::api::de::De;
use gluon::vm::api::ser::Ser;
use gluon::vm::api::{FunctionRef, Getable, convert, Hole, OpaqueValue, OwnedFunction, Pushable, ValueRef, VmType};
use gluon::vm::{ExternModule, Variants};
use gluon::{RootedThread, Thread, ThreadExt};
use gvh::out::{Args, Hist, fnv};
use gvh::rng::Rng;
use std::collections::{BTreeMap, BTreeSet};
use std::io::Write;
use std::panic::{AssertUnwindSafe, catch_unwind};
use ty::{Ty, Val};

// ---------------------------------------------------------------------------------------------
// canonical text of a VM value (raw representation)

fn walk(v: Variants, o: &mut String, depth: u32) {
    if depth > 64 {
        o.push_str("<deep>");
        return;
    }
    let r = v.as_ref();
    match &r {
        ValueRef::Byte(b) => o.push_str(&format!("B{}", b)),
        ValueRef::Int(i) => o.push_str(&format!("I{}", i)),
        ValueRef::Float(f) => o.push_str(&format!("F{:x}", f.to_bits())),
        ValueRef::String(s) => {
            o.push('S');
            o.push_str(&ty::hex(s.as_bytes()));
        }
        ValueRef::Data(d) => {
            // `ValueRef::tag` builds the unboxed form; equality tells it from a boxed data value
            // with no fields (`push_new_data(tag, 0)`).
            if r == ValueRef::tag(d.tag()) {
                o.push_str(&format!("T{}", d.tag()));
                return;
            }
            let mut names: Vec<String> = d.field_names().map(|s| s.to_string()).collect();
            names.sort_by(|a, b| a.as_bytes().cmp(b.as_bytes()));
            if names.is_empty() {
                o.push_str(&format!("(D {}", d.tag()));
                for i in 0..d.len() {
                    o.push(' ');
                    walk(d.get_variant(i).unwrap(), o, depth + 1);
                }
                o.push(')');
            } else {
                o.push_str("(R");
                for i in 0..d.len() {
                    o.push(' ');
                    walk(d.get_variant(i).unwrap(), o, depth + 1);
                }
                o.push_str(" |");
                for n in &names {
                    o.push_str(&format!(" x{} ", ty::hex(n.as_bytes())));
                    match CUR_VM.with(|c| c.borrow().clone()) {
                        Some(vm) => match d.lookup_field(&vm, n) {
                            Some(f) => walk(f, o, depth + 1),
                            None => o.push_str("<nofield>"),
                        },
                        None => o.push_str("<novm>"),
                    }
                }
                o.push(')');
            }
        }
        ValueRef::Array(a) => {
            o.push_str(&format!("(A {}", format!("{:?}", a.repr()).to_lowercase()));
            for e in a.iter() {
                o.push(' ');
                walk(e, o, depth + 1);
            }
            o.push(')');
        }
        ValueRef::Userdata(_) => o.push_str("<userdata>"),
        ValueRef::Thread(_) => o.push_str("<thread>"),
        ValueRef::Closure(_) => o.push_str("<closure>"),
        ValueRef::Internal => o.push_str("<internal>"),
    }
}

/// `Getable` that renders the raw representation it is handed: `convert::<T, Walked>` pushes a
/// `T` and walks what was pushed, without rooting the value.
struct Walked(String);
impl VmType for Walked {
    type Type = Hole;
    fn make_type(vm: &Thread) -> gluon::base::types::ArcType {
        Hole::make_type(vm)
    }
}
impl<'vm, 'value> Getable<'vm, 'value> for Walked {
    type Proxy = Variants<'value>;
    fn to_proxy(_vm: &'vm Thread, value: Variants<'value>) -> gluon::vm::Result<Self::Proxy> {
        Ok(value)
    }
    fn from_proxy(vm: &'vm Thread, proxy: &'value mut Self::Proxy) -> Self {
        <Self as Getable<'vm, 'value>>::from_value(vm, proxy.clone())
    }
    fn from_value(_vm: &'vm Thread, value: Variants<'value>) -> Self {
        let mut o = String::new();
        walk(value, &mut o, 0);
        Walked(o)
    }
}

thread_local! {
    static CUR_VM: std::cell::RefCell<Option<RootedThread>> = std::cell::RefCell::new(None);
}

fn guard<F: FnOnce() -> String>(f: F) -> String {
    match catch_unwind(AssertUnwindSafe(f)) {
        Ok(s) => s,
        Err(e) => {
            let msg = if let Some(s) = e.downcast_ref::<String>() {
                s.clone()
            } else if let Some(s) = e.downcast_ref::<&str>() {
                s.to_string()
            } else {
                "?".to_string()
            };
            LAST_PANIC.with(|p| *p.borrow_mut() = msg);
            DIRTY.with(|d| d.set(true));
            "FAIL".to_string()
        }
    }
}
thread_local! {
    /// set by a runtime error of a Gluon call: the thread keeps the frames of the failed call and
    /// later calls on it report stale errors, so the VM is replaced
    static DIRTY_HARD: std::cell::Cell<bool> = std::cell::Cell::new(false);
    static DIRTY: std::cell::Cell<bool> = std::cell::Cell::new(false);
    static LAST_PANIC: std::cell::RefCell<String> = std::cell::RefCell::new(String::new());
}

fn err_class(e: &gluon::Error) -> String {
    let s = format!("{}", e);
    let first = s.lines().next().unwrap_or("").chars().take(120).collect::<String>();
    LAST_PANIC.with(|p| *p.borrow_mut() = first);
    "ERR".to_string()
}
fn vm_err_class(e: &gluon::vm::Error) -> String {
    let s = format!("{}", e);
    let first = s.lines().next().unwrap_or("").chars().take(120).collect::<String>();
    LAST_PANIC.with(|p| *p.borrow_mut() = first);
    match e {
        gluon::vm::Error::WrongType(..) => "WRONGTYPE".to_string(),
        _ => "ERR".to_string(),
    }
}

// ---------------------------------------------------------------------------------------------
// the VM

fn new_vm(needs_map: bool) -> RootedThread {
    let vm = gluon::VmBuilder::new().build();
    // std.map (needed by the BTreeMap instances) only compiles with the implicit prelude
    if !needs_map {
        vm.get_database_mut().implicit_prelude(false);
    }
    vm.run_expr::<OpaqueValue<RootedThread, Hole>>(
        "c11init",
        if needs_map {
            "let _ = import! std.map\nlet _ = import! std.types\nlet _ = import! std.array.prim\n()"
        } else {
            "let _ = import! std.types\nlet _ = import! std.array.prim\n()"
        },
    )
    .unwrap_or_else(|e| panic!("vm init: {}", e));
    CUR_VM.with(|c| *c.borrow_mut() = Some(vm.clone()));
    vm
}

// ---------------------------------------------------------------------------------------------
// child: one type

struct ChildCfg {
    idx: usize,
    from_case: usize,
    done_routes: BTreeSet<String>,
    gfrom: usize,
    disabled: BTreeSet<String>,
    fail_count: BTreeMap<String, usize>,
    tier_thorough: bool,
    seed: u64,
    log: std::fs::File,
}

impl ChildCfg {
    fn emit(&mut self, line: &str) {
        self.log.write_all(line.as_bytes()).unwrap();
        self.log.write_all(b"\n").unwrap();
        self.log.flush().unwrap();
    }
}

fn cases_for(ty: &Ty, seed: u64, idx: usize, thorough: bool) -> Vec<Val> {
    let (cap, nrand) = if thorough { (160, 1500) } else { (28, 20) };
    // corpus first: `<type name>\t<value>` lines of corpus/C11/values.txt and of C11_EXTRA_VALUE
    let mut v: Vec<Val> = Vec::new();
    let mut lines: Vec<String> = Vec::new();
    if let Ok(path) = std::env::var("C11_CORPUS") {
        lines.extend(std::fs::read_to_string(path).unwrap_or_default().lines().map(|s| s.to_string()));
    }
    if let Ok(x) = std::env::var("C11_EXTRA_VALUE") {
        lines.push(x);
    }
    for l in lines {
        if let Some((n, val)) = l.split_once('\t') {
            if n == ty.name() {
                if let Some(x) = Val::parse(val.trim()) {
                    if !v.contains(&x) {
                        v.push(x);
                    }
                }
            }
        }
    }
    v.extend(ty.boundary(cap));
    let mut r = Rng::new(seed.wrapping_mul(1000003).wrapping_add(idx as u64));
    for k in 0..nrand {
        v.push(ty.random(&mut r, 2 + (k % 7) as u32));
    }
    v
}

fn render<T: M>(x: &T) -> String {
    x.to_val().text()
}

/// A VM plus the Gluon functions of route 3.  Rebuilt after every caught panic: a panic inside
/// the VM poisons its context mutex and leaves it unusable.
struct St<T> {
    vm: RootedThread,
    f_id: Option<OwnedFunction<fn(T) -> T>>,
    f_rb: Option<OwnedFunction<fn(T) -> T>>,
    f_wrap: Option<OwnedFunction<fn(T) -> Option<T>>>,
    serrb_ok: bool,
    serrb_tried: bool,
}

struct Progs {
    id: String,
    rb: String,
    wrap: String,
}

fn mk_state<T>(progs: &Progs, force_map: bool) -> St<T>
where
    T: M + VmType + Send + Sync + for<'vm> Pushable<'vm> + for<'vm, 'value> Getable<'vm, 'value>,
    <T as VmType>::Type: Sized,
{
    let vm = new_vm(force_map || T::ty().needs_map());
    let compile = |name: &str, src: &str| -> Option<OwnedFunction<fn(T) -> T>> {
        match catch_unwind(AssertUnwindSafe(|| vm.run_expr::<OwnedFunction<fn(T) -> T>>(name, src))) {
            Ok(Ok((f, _))) => Some(f),
            Ok(Err(e)) => {
                eprintln!("compile {} failed: {}\n{}", name, e, src);
                None
            }
            Err(_) => None,
        }
    };
    let f_id = compile("c11id", &progs.id);
    let f_rb = compile("c11rb", &progs.rb);
    let f_wrap = match catch_unwind(AssertUnwindSafe(|| vm.run_expr::<OwnedFunction<fn(T) -> Option<T>>>("c11wrap", &progs.wrap))) {
        Ok(Ok((f, _))) => Some(f),
        Ok(Err(e)) => {
            eprintln!("compile wrap failed: {}\n{}", e, progs.wrap);
            None
        }
        Err(_) => None,
    };
    DIRTY.with(|d| d.set(false));
    DIRTY_HARD.with(|d| d.set(false));
    St { vm, f_id, f_rb, f_wrap, serrb_ok: false, serrb_tried: false }
}

fn call_err(e: &gluon::vm::Error) -> String {
    DIRTY.with(|d| d.set(true));
    DIRTY_HARD.with(|d| d.set(true));
    vm_err_class(e)
}

fn vm_healthy(vm: &RootedThread) -> bool {
    let hook = std::panic::take_hook();
    std::panic::set_hook(Box::new(|_| {}));
    let ok = catch_unwind(AssertUnwindSafe(|| {
        let a = convert::<i64, i64>(vm, 41).ok() == Some(41);
        let rv = 42i64.marshal::<RootedThread>(vm);
        let b = rv.is_ok();
        drop(rv);
        a && b
    }))
    .unwrap_or(false);
    std::panic::set_hook(hook);
    ok
}

fn run_route<T>(
    cfg: &mut ChildCfg,
    st: &mut St<T>,
    progs: &Progs,
    done: &BTreeSet<String>,
    k: usize,
    name: &str,
    f: &mut dyn FnMut(&mut St<T>) -> String,
) where
    T: M + VmType + Send + Sync + for<'vm> Pushable<'vm> + for<'vm, 'value> Getable<'vm, 'value>,
    <T as VmType>::Type: Sized,
{
    if done.contains(name) {
        return;
    }
    if cfg.disabled.contains(name) {
        cfg.emit(&format!("E {} {}\tSKIPPED\troute disabled after repeated aborts or failures", k, name));
        return;
    }
    if DIRTY.with(|d| d.get()) {
        // a panic inside the VM may have poisoned one of its locks: probe it, and replace it when
        // it is unusable (never dropping it: the destructors would panic again)
        if !DIRTY_HARD.with(|d| d.get()) && vm_healthy(&st.vm) {
            DIRTY.with(|d| d.set(false));
        } else {
            std::mem::forget(std::mem::replace(st, mk_state::<T>(progs, false)));
        }
    }
    cfg.emit(&format!("B {} {}", k, name));
    LAST_PANIC.with(|p| p.borrow_mut().clear());
    let r = guard(|| f(st));
    if r == "FAIL" && name != "depush" && name != "deser" {
        // a panic inside a VM call leaves poisoned locks behind (not always the ones the probe
        // touches); `De::from_value` of depush/deser runs outside the VM's locks
        DIRTY_HARD.with(|d| d.set(true));
    }
    let note = LAST_PANIC.with(|p| p.borrow().clone());
    cfg.emit(&format!("E {} {}\t{}\t{}", k, name, r, note.replace(['\n', '\t'], " ")));
    // a route that keeps failing on this type is established as failing: stop paying for the VM
    // rebuild every failure costs (quick tier: after 6 failures, thorough: after 40)
    if r == "FAIL" || r == "ERR" {
        let n = cfg.fail_count.entry(name.to_string()).or_insert(0);
        *n += 1;
        if *n >= if cfg.tier_thorough { 40 } else { 6 } {
            cfg.disabled.insert(name.to_string());
        }
    }
}

type Serde<'a, T> = &'a dyn Fn(&mut St<T>, &Progs, &mut ChildCfg, &BTreeSet<String>, usize, &T);

fn run_type<T>(cfg: &mut ChildCfg, serde: Option<Serde<T>>)
where
    T: M + VmType + Send + Sync + for<'vm> Pushable<'vm> + for<'vm, 'value> Getable<'vm, 'value>,
    <T as VmType>::Type: Sized,
{
    let ty = T::ty();
    cfg.emit(&format!("T {}\t{}\t{}\t{}", cfg.idx, ty.name(), ty.tcode_string(), if serde.is_some() { "V" } else { "C" }));
    let cases = cases_for(&ty, cfg.seed, cfg.idx, cfg.tier_thorough);
    let progs = Progs {
        id: ty.program(&ty.gty(true), "x"),
        rb: ty.program(&ty.gty(true), &ty.rebuild_body()),
        wrap: ty.program(&format!("Option {}", ty.gty(true)), "mk_some x"),
    };
    let mut st = mk_state::<T>(&progs, false);

    if cfg.from_case != usize::MAX {
        for (k, val) in cases.iter().enumerate() {
            if k < cfg.from_case {
                continue;
            }
            let resumed = k == cfg.from_case && !cfg.done_routes.is_empty();
            let done = if resumed { cfg.done_routes.clone() } else { BTreeSet::new() };
            if !resumed {
                cfg.emit(&format!("C {}\t{}", k, val.text()));
            }
            let x: T = T::from_val(val);
            run_route(cfg, &mut st, &progs, &done, k, "push", &mut |st| match convert::<T, Walked>(&st.vm, x.clone()) {
                Ok(w) => w.0,
                Err(e) => vm_err_class(&e),
            });
            run_route(cfg, &mut st, &progs, &done, k, "get", &mut |st| match convert::<T, T>(&st.vm, x.clone()) {
                Ok(y) => render(&y),
                Err(e) => vm_err_class(&e),
            });
            // `marshal` roots the pushed value; the root is released when the handle is dropped
            run_route(cfg, &mut st, &progs, &done, k, "root", &mut |st| match x.clone().marshal::<RootedThread>(&st.vm) {
                Ok(rv) => {
                    let y = render(&T::from_value(&st.vm, rv.get_variant()));
                    drop(rv);
                    y
                }
                Err(e) => vm_err_class(&e),
            });
            run_route(cfg, &mut st, &progs, &done, k, "id", &mut |st| match st.f_id.as_mut() {
                Some(f) => match f.call(x.clone()) {
                    Ok(y) => render(&y),
                    Err(e) => call_err(&e),
                },
                None => "NOCOMPILE".to_string(),
            });
            run_route(cfg, &mut st, &progs, &done, k, "rb", &mut |st| match st.f_rb.as_mut() {
                Some(f) => match f.call(x.clone()) {
                    Ok(y) => render(&y),
                    Err(e) => call_err(&e),
                },
                None => "NOCOMPILE".to_string(),
            });
            run_route(cfg, &mut st, &progs, &done, k, "wrap", &mut |st| match st.f_wrap.as_mut() {
                Some(f) => match f.call(x.clone()) {
                    Ok(y) => render(&y),
                    Err(e) => call_err(&e),
                },
                None => "NOCOMPILE".to_string(),
            });
            if let Some(s) = serde {
                s(&mut st, &progs, cfg, &done, k, &x);
            }
        }
        cfg.emit("CASES-DONE");
    }

    // ---- route 5: requests at every type of the family ---------------------------------------
    // (a VM with std.map loaded: the requested types include maps)
    std::mem::forget(std::mem::replace(&mut st, mk_state::<T>(&progs, true)));
    let picks: Vec<Val> = {
        let b = ty.boundary(if cfg.tier_thorough { 120 } else { 40 });
        let n = if matches!(ty, Ty::Prim(_)) { 12 } else { 3 };
        let mut p: Vec<Val> = Vec::new();
        for i in 0..n.min(b.len()) {
            let v = b[i * (b.len() - 1) / (n.min(b.len()) - 1).max(1)].clone();
            if !p.contains(&v) {
                p.push(v);
            }
        }
        p
    };
    // every pick becomes a global (an extern module holding the Rust value); a definition that
    // fails or leaves the VM unusable is reported as its own observable and the VM is rebuilt
    let fname = format!("c11f{}", cfg.idx);
    let load_f = |vm: &RootedThread, name: &str| -> bool {
        guard(|| match vm.load_script(name, &progs.id) {
            Ok(()) => "OK".to_string(),
            Err(e) => err_class(&e),
        }) == "OK"
    };
    let mut f_ok = load_f(&st.vm, &fname);
    let mut gnames: Vec<(String, String, bool)> = Vec::new();
    let define = |vm: &RootedThread, name: &str, val: &Val| -> bool {
        let x: T = T::from_val(val);
        let name2 = name.to_string();
        let ok = guard(|| {
            gluon::import::add_extern_module(vm, &name2, move |thread| ExternModule::new(thread, x.clone()));
            match vm.run_expr::<OpaqueValue<RootedThread, Hole>>("c11imp", &format!("import! {}", name2)) {
                Ok(_) => "OK".to_string(),
                Err(e) => err_class(&e),
            }
        });
        ok == "OK" && vm_healthy(vm)
    };
    for (j, val) in picks.iter().enumerate() {
        let name = format!("c11g{}x{}", cfg.idx, j);
        let ok = define(&st.vm, &name, val);
        if !ok {
            let why = LAST_PANIC.with(|p| p.borrow().clone());
            eprintln!("global {} could not be defined: {}", name, why);
            std::mem::forget(std::mem::replace(&mut st, mk_state::<T>(&progs, true)));
            f_ok = load_f(&st.vm, &fname);
            for g in gnames.iter() {
                if g.2 {
                    let v = picks.iter().find(|p| p.text() == g.1).unwrap();
                    define(&st.vm, &g.0, v);
                }
            }
        }
        gnames.push((name, val.text(), ok));
    }
    let vm = st.vm.clone();
    cfg.emit(&format!(
        "P {}",
        gnames.iter().map(|g| format!("{}={}", g.1, if g.2 { "1" } else { "0" })).collect::<Vec<_>>().join("\t")
    ));
    let mut m = Mismatch { cfg, vm: &vm, gnames: &gnames, fname: &fname, f_ok, cur: 0 };
    fam::visit_all(&mut m);
    // a later, unrelated load must not change the answer for a request at the global's own type
    let later = load_f(&vm, &format!("c11f{}later", m.cfg.idx));
    for (name, val, ok) in gnames.iter() {
        if !*ok || !later {
            continue;
        }
        let r = guard(|| match vm.get_global::<T>(name) {
            Ok(y) => format!("1:{}", render(&y)),
            Err(gluon::vm::Error::WrongType(..)) => "0".to_string(),
            Err(e) => vm_err_class(&e),
        });
        m.cfg.emit(&format!("R {}\t{}", val, r));
    }
    m.cfg.emit("DONE");
    // the process exits right after: skip the destructors of a VM that may have panicked
    std::mem::forget(st);
}

struct Mismatch<'a> {
    cfg: &'a mut ChildCfg,
    vm: &'a RootedThread,
    gnames: &'a [(String, String, bool)],
    fname: &'a str,
    f_ok: bool,
    cur: usize,
}

impl<'a> Mismatch<'a> {
    fn pair<W>(&mut self)
    where
        W: M + VmType + Send + Sync + for<'vm> Pushable<'vm> + for<'vm, 'value> Getable<'vm, 'value>,
        <W as VmType>::Type: Sized,
    {
        let w = self.cur;
        self.cur += 1;
        if w < self.cfg.gfrom {
            return;
        }
        self.cfg.emit(&format!("B g {}", w));
        let mut parts = Vec::new();
        for (name, _, ok) in self.gnames {
            if !*ok {
                parts.push("NOGLOBAL".to_string());
                continue;
            }
            let vm = self.vm;
            parts.push(guard(|| match vm.get_global::<W>(name) {
                Ok(y) => format!("1:{}", render(&y)),
                Err(gluon::vm::Error::WrongType(a, b)) => {
                    if std::env::var("C11_DEBUG_SIG").is_ok() {
                        eprintln!("WrongType for {}: expected `{}` actual `{}`", name, a, b);
                    }
                    "0".to_string()
                }
                Err(e) => vm_err_class(&e),
            }));
        }
        let fs = if self.f_ok {
            let vm = self.vm;
            let fname = self.fname;
            guard(|| match vm.get_global::<FunctionRef<fn(W) -> W>>(fname) {
                Ok(_) => "1".to_string(),
                Err(gluon::vm::Error::WrongType(..)) => "0".to_string(),
                Err(e) => vm_err_class(&e),
            })
        } else {
            "NOFUN".to_string()
        };
        self.cfg.emit(&format!("E g {}\t{}\t{}\t{}", w, W::ty().tcode_string(), fs, parts.join("\t")));
    }
}
impl<'a> Visitor for Mismatch<'a> {
    fn core<W>(&mut self)
    where
        W: M + VmType + Send + Sync + for<'vm> Pushable<'vm> + for<'vm, 'value> Getable<'vm, 'value>,
        <W as VmType>::Type: Sized,
    {
        self.pair::<W>()
    }
    fn serde<W>(&mut self)
    where
        W: M + VmType + Send + Sync + for<'vm> Pushable<'vm> + for<'vm, 'value> Getable<'vm, 'value> + serde::Serialize + serde::de::DeserializeOwned,
        <W as VmType>::Type: Sized,
    {
        self.pair::<W>()
    }
}

fn serde_routes<T>(st: &mut St<T>, progs: &Progs, cfg: &mut ChildCfg, done: &BTreeSet<String>, k: usize, x: &T)
where
    T: M + VmType + Send + Sync + for<'vm> Pushable<'vm> + for<'vm, 'value> Getable<'vm, 'value> + serde::Serialize + serde::de::DeserializeOwned,
    <T as VmType>::Type: Sized,
{
    run_route(cfg, st, progs, done, k, "ser", &mut |st| match convert::<Ser<T>, Walked>(&st.vm, Ser(x.clone())) {
        Ok(w) => w.0,
        Err(e) => vm_err_class(&e),
    });
    // `De::from_value` runs on a rooted value, outside the VM's context lock, so that its `ice!`
    // on a failed deserialization does not poison the VM.  The root is leaked on purpose (route
    // `root` covers releasing roots).
    run_route(cfg, st, progs, done, k, "depush", &mut |st| match x.clone().marshal::<RootedThread>(&st.vm) {
        Ok(rv) => {
            let r = catch_unwind(AssertUnwindSafe(|| render(&De::<T>::from_value(&st.vm, rv.get_variant()).0)));
            std::mem::forget(rv);
            match r {
                Ok(s) => s,
                Err(e) => std::panic::resume_unwind(e),
            }
        }
        Err(e) => vm_err_class(&e),
    });
    run_route(cfg, st, progs, done, k, "deser", &mut |st| match Ser(x.clone()).marshal::<RootedThread>(&st.vm) {
        Ok(rv) => {
            let r = catch_unwind(AssertUnwindSafe(|| render(&De::<T>::from_value(&st.vm, rv.get_variant()).0)));
            std::mem::forget(rv);
            match r {
                Ok(s) => s,
                Err(e) => std::panic::resume_unwind(e),
            }
        }
        Err(e) => vm_err_class(&e),
    });
    run_route(cfg, st, progs, done, k, "serrb", &mut |st| {
        if !st.serrb_tried {
            st.serrb_tried = true;
            st.serrb_ok = match st.vm.load_script("c11serrb", &progs.rb) {
                Ok(()) => true,
                Err(e) => {
                    eprintln!("compile serrb failed: {}", e);
                    false
                }
            };
        }
        if !st.serrb_ok {
            return "NOCOMPILE".to_string();
        }
        // every call runs on a fresh child thread: an ill-typed argument makes the interpreter
        // fail and the failed thread is not reusable
        let t = match st.vm.new_thread() {
            Ok(t) => t,
            Err(e) => return vm_err_class(&e),
        };
        let r = match t.get_global::<FunctionRef<fn(Ser<T>) -> T>>("c11serrb") {
            Ok(mut f) => match f.call(Ser(x.clone())) {
                Ok(y) => render(&y),
                Err(e) => vm_err_class(&e),
            },
            Err(e) => vm_err_class(&e),
        };
        r
    });
}

struct ChildVisitor {
    cfg: Option<ChildCfg>,
    cur: usize,
}
impl Visitor for ChildVisitor {
    fn core<T>(&mut self)
    where
        T: M + VmType + Send + Sync + for<'vm> Pushable<'vm> + for<'vm, 'value> Getable<'vm, 'value>,
        <T as VmType>::Type: Sized,
    {
        let me = self.cur;
        self.cur += 1;
        if self.cfg.as_ref().map(|c| c.idx) == Some(me) {
            let mut cfg = self.cfg.take().unwrap();
            run_type::<T>(&mut cfg, None);
        }
    }
    fn serde<T>(&mut self)
    where
        T: M + VmType + Send + Sync + for<'vm> Pushable<'vm> + for<'vm, 'value> Getable<'vm, 'value> + serde::Serialize + serde::de::DeserializeOwned,
        <T as VmType>::Type: Sized,
    {
        let me = self.cur;
        self.cur += 1;
        if self.cfg.as_ref().map(|c| c.idx) == Some(me) {
            let mut cfg = self.cfg.take().unwrap();
            run_type::<T>(&mut cfg, Some(&|st, progs, cfg, done, k, x| serde_routes::<T>(st, progs, cfg, done, k, x)));
        }
    }
}

/// Lists the family (name, tcode, has serde routes) without touching a VM.
struct Lister(Vec<(String, String, bool)>);
impl Visitor for Lister {
    fn core<T>(&mut self)
    where
        T: M + VmType + Send + Sync + for<'vm> Pushable<'vm> + for<'vm, 'value> Getable<'vm, 'value>,
        <T as VmType>::Type: Sized,
    {
        self.0.push((T::ty().name(), T::ty().tcode_string(), false));
    }
    fn serde<T>(&mut self)
    where
        T: M + VmType + Send + Sync + for<'vm> Pushable<'vm> + for<'vm, 'value> Getable<'vm, 'value> + serde::Serialize + serde::de::DeserializeOwned,
        <T as VmType>::Type: Sized,
    {
        self.0.push((T::ty().name(), T::ty().tcode_string(), true));
    }
}

// ---------------------------------------------------------------------------------------------
// parent

const CORE_ROUTES: &[&str] = &["push", "get", "root", "id", "rb", "wrap"];
const SERDE_ROUTES: &[&str] = &["ser", "depush", "deser", "serrb"];

#[derive(Default)]
struct TypeResult {
    name: String,
    tcode: String,
    serde: bool,
    cases: BTreeMap<usize, (String, BTreeMap<String, (String, String)>)>,
    picks: Vec<(String, bool)>,
    regets: Vec<(String, String)>,
    pairs: BTreeMap<usize, (String, String, Vec<String>)>,
    done: bool,
    cases_done: bool,
}

fn parse_child_log(path: &std::path::Path, res: &mut TypeResult) -> Option<(String, String)> {
    // returns the last `B` without `E` (case-or-g, route)
    let text = std::fs::read_to_string(path).unwrap_or_default();
    let mut open: Option<(String, String)> = None;
    for line in text.lines() {
        let (head, rest) = match line.split_once(' ') {
            Some(x) => x,
            None => {
                if line == "DONE" {
                    res.done = true;
                } else if line == "CASES-DONE" {
                    res.cases_done = true;
                }
                continue;
            }
        };
        match head {
            "T" => {
                let p: Vec<&str> = rest.split('\t').collect();
                res.name = p[1].to_string();
                res.tcode = p[2].to_string();
                res.serde = p[3] == "V";
            }
            "C" => {
                let (k, v) = rest.split_once('\t').unwrap();
                res.cases.entry(k.parse().unwrap()).or_insert_with(|| (v.to_string(), BTreeMap::new()));
            }
            "P" => {
                res.picks = rest
                    .split('\t')
                    .map(|s| {
                        let (v, ok) = s.rsplit_once('=').unwrap();
                        (v.to_string(), ok == "1")
                    })
                    .collect();
            }
            "R" => {
                let (v, r) = rest.split_once('\t').unwrap();
                res.regets.push((v.to_string(), r.to_string()));
            }
            "B" => {
                let (a, b) = rest.split_once(' ').unwrap();
                open = Some((a.to_string(), b.to_string()));
            }
            "E" => {
                let p: Vec<&str> = rest.split('\t').collect();
                let (a, b) = p[0].split_once(' ').unwrap();
                if a == "g" {
                    res.pairs.insert(b.parse().unwrap(), (p[1].to_string(), p[2].to_string(), p[3..].iter().map(|s| s.to_string()).collect()));
                } else if let Some(c) = res.cases.get_mut(&a.parse::<usize>().unwrap()) {
                    c.1.insert(b.to_string(), (p[1].to_string(), p.get(2).unwrap_or(&"").to_string()));
                }
                open = None;
            }
            _ => {}
        }
    }
    open
}

fn run_child_until_done(args: &Args, idx: usize, log_dir: &std::path::Path, crashes: &mut Vec<String>) -> TypeResult {
    let exe = std::env::current_exe().expect("current_exe");
    let log = log_dir.join(format!("child-{}.log", idx));
    let _ = std::fs::remove_file(&log);
    let mut res = TypeResult::default();
    let mut from_case = 0usize;
    let mut done_routes = String::new();
    let mut gfrom = 0usize;
    let mut disabled: BTreeSet<String> = BTreeSet::new();
    let mut abort_count: BTreeMap<String, usize> = BTreeMap::new();
    let timeout = std::time::Duration::from_secs(if args.thorough() { 2400 } else { 600 });
    for _attempt in 0..400 {
        let mut child = std::process::Command::new(&exe)
            .arg("child")
            .arg(idx.to_string())
            .arg(if from_case == usize::MAX { "done".to_string() } else { from_case.to_string() })
            .arg(if done_routes.is_empty() { "-".to_string() } else { done_routes.clone() })
            .arg(gfrom.to_string())
            .arg(args.tier.clone())
            .arg(args.seed.to_string())
            .arg(&log)
            .arg(if disabled.is_empty() { "-".to_string() } else { disabled.iter().cloned().collect::<Vec<_>>().join(",") })
            .env("C11_CORPUS", args.extra.get("corpus").cloned().unwrap_or_else(|| "/verif/corpus/C11/values.txt".to_string()))
            .stdout(std::process::Stdio::null())
            .stderr(std::fs::File::create(log_dir.join(format!("child-{}.err", idx))).map(std::process::Stdio::from).unwrap_or(std::process::Stdio::null()))
            .spawn()
            .expect("spawn child");
        let t0 = std::time::Instant::now();
        let status = loop {
            match child.try_wait().expect("wait") {
                Some(s) => break Some(s),
                None => {
                    if t0.elapsed() > timeout {
                        let _ = child.kill();
                        let _ = child.wait();
                        break None;
                    }
                    std::thread::sleep(std::time::Duration::from_millis(20));
                }
            }
        };
        let err = std::fs::read_to_string(log_dir.join(format!("child-{}.err", idx))).unwrap_or_default();
        let mut fresh = TypeResult::default();
        let open = parse_child_log(&log, &mut fresh);
        res = fresh;
        if res.done {
            return res;
        }
        let how = match status {
            None => "HANG".to_string(),
            Some(s) => {
                use std::os::unix::process::ExitStatusExt;
                match s.signal() {
                    Some(sig) => format!("ABORT(signal {})", sig),
                    None => format!("ABORT(exit {})", s.code().unwrap_or(-1)),
                }
            }
        };
        match open {
            Some((a, b)) => {
                let tail: String = err.lines().rev().take(3).collect::<Vec<_>>().join(" / ");
                crashes.push(format!("type {} {} route {} {}: {}", idx, a, b, how, tail.chars().take(200).collect::<String>()));
                // record the abort as the result of that route and resume after it
                let mut f = std::fs::OpenOptions::new().append(true).open(&log).unwrap();
                if a == "g" {
                    writeln!(f, "E g {}\t?\t{}\t", b, how).unwrap();
                    gfrom = b.parse::<usize>().unwrap() + 1;
                    from_case = usize::MAX;
                } else {
                    writeln!(f, "E {} {}\t{}\t{}", a, b, how, tail.replace('\t', " ").chars().take(160).collect::<String>()).unwrap();
                    let k: usize = a.parse().unwrap();
                    // a route that keeps killing the process is switched off for the rest of the type
                    let n = abort_count.entry(b.clone()).or_insert(0);
                    *n += 1;
                    if *n >= 3 {
                        disabled.insert(b.clone());
                    }
                    let mut fresh = TypeResult::default();
                    parse_child_log(&log, &mut fresh);
                    let done: Vec<String> = fresh.cases.get(&k).map(|c| c.1.keys().cloned().collect()).unwrap_or_default();
                    from_case = k;
                    done_routes = done.join(",");
                }
            }
            None => {
                // died outside a route (VM construction, compilation): give up on this type
                crashes.push(format!("type {} died outside a route ({}): {}", idx, how, err.chars().rev().take(300).collect::<String>().chars().rev().collect::<String>()));
                return res;
            }
        }
    }
    res
}

fn main() {
    let argv: Vec<String> = std::env::args().collect();
    if argv.get(1).map(|s| s.as_str()) == Some("child") {
        let idx: usize = argv[2].parse().unwrap();
        let from_case = if argv[3] == "done" { usize::MAX } else { argv[3].parse().unwrap() };
        let done_routes: BTreeSet<String> = if argv[4] == "-" { BTreeSet::new() } else { argv[4].split(',').map(|s| s.to_string()).collect() };
        let gfrom: usize = argv[5].parse().unwrap();
        let log = std::fs::OpenOptions::new().create(true).append(true).open(&argv[8]).expect("child log");
        let disabled: BTreeSet<String> = if argv[9] == "-" { BTreeSet::new() } else { argv[9].split(',').map(|s| s.to_string()).collect() };
        let cfg = ChildCfg { idx, from_case, done_routes, gfrom, disabled, fail_count: BTreeMap::new(), tier_thorough: argv[6] == "thorough", seed: argv[7].parse().unwrap(), log };
        // panics are caught per route; keep stderr small (message only, no backtrace)
        std::panic::set_hook(Box::new(|info| {
            let msg = format!("{}", info);
            eprintln!("panic: {}", msg.lines().next().unwrap_or("").chars().take(300).collect::<String>());
        }));
        // a deep but finite recursion must not be mistaken for divergence: run on a large stack
        let h = std::thread::Builder::new()
            .stack_size(64 << 20)
            .spawn(move || {
                let mut v = ChildVisitor { cfg: Some(cfg), cur: 0 };
                fam::visit_all(&mut v);
            })
            .unwrap();
        let _ = h.join();
        return;
    }

    let args = Args::parse();
    if let Some(path) = &args.replay {
        replay(path);
        return;
    }
    let mut lister = Lister(Vec::new());
    fam::visit_all(&mut lister);
    let family = lister.0;
    let only: Option<BTreeSet<usize>> = args.extra.get("types").map(|s| s.split(',').filter_map(|x| x.parse().ok()).collect());
    let log_dir = args.out.join("children");
    std::fs::create_dir_all(&log_dir).unwrap();

    // children in parallel (each child owns its VM)
    let jobs: Vec<usize> = (0..family.len()).filter(|i| only.as_ref().map(|o| o.contains(i)).unwrap_or(true)).collect();
    let nthreads = args.extra.get("jobs").and_then(|s| s.parse().ok()).unwrap_or(8usize);
    let queue = std::sync::Mutex::new(jobs.clone());
    let results = std::sync::Mutex::new(BTreeMap::<usize, (TypeResult, Vec<String>)>::new());
    std::thread::scope(|s| {
        for _ in 0..nthreads {
            s.spawn(|| {
                loop {
                    let job = queue.lock().unwrap().pop();
                    let idx = match job {
                        Some(i) => i,
                        None => break,
                    };
                    let mut crashes = Vec::new();
                    let r = run_child_until_done(&args, idx, &log_dir, &mut crashes);
                    results.lock().unwrap().insert(idx, (r, crashes));
                }
            });
        }
    });
    let results = results.into_inner().unwrap();

    let mut model_in = args.file("model_in.txt");
    let mut impl_out = args.file("impl_out.txt");
    let mut cases_txt = args.file("cases.txt");
    let mut hist = Hist::default();
    let mut distinct = BTreeSet::new();
    let mut evaluations = 0u64;
    let mut all_crashes = Vec::new();
    let mut incomplete = Vec::new();
    for idx in &jobs {
        let (res, crashes) = &results[idx];
        all_crashes.extend(crashes.iter().cloned());
        let (name, tcode, serde) = &family[*idx];
        if !res.done {
            incomplete.push(name.clone());
        }
        for (k, (val, routes)) in &res.cases {
            let kind = if *serde { "V" } else { "C" };
            writeln!(model_in, "{}\t{}\t{}", kind, tcode, val).unwrap();
            let mut fields = Vec::new();
            for r in CORE_ROUTES.iter().chain(if *serde { SERDE_ROUTES.iter() } else { [].iter() }) {
                let v = routes.get(*r).map(|x| x.0.as_str()).unwrap_or("MISSING");
                fields.push(format!("{}={}", r, v));
                evaluations += 1;
            }
            writeln!(impl_out, "{}", fields.join("\t")).unwrap();
            let notes: Vec<String> = routes.iter().filter(|(_, v)| !v.1.is_empty()).map(|(r, v)| format!("{}: {}", r, v.1)).collect();
            writeln!(cases_txt, "V\t{}\t{}\t{}\t{}\t{}", idx, name, k, val, notes.join(" ;; ")).unwrap();
            hist.add(&format!("type:{}", name));
            if !val.starts_with(|c: char| "ifbsu".contains(c)) || val.len() > 3 {
                distinct.insert(fnv(format!("{}\t{}", tcode, val).as_bytes()));
            }
        }
        for (pval, ok) in &res.picks {
            writeln!(model_in, "D\t{}\t{}", tcode, pval).unwrap();
            writeln!(impl_out, "define={}", if *ok { "OK" } else { "FAIL" }).unwrap();
            writeln!(cases_txt, "D\t{}\t{}\t-\t{}\t", idx, name, pval).unwrap();
            evaluations += 1;
        }
        for (pval, r) in &res.regets {
            writeln!(model_in, "R\t{}\t{}", tcode, pval).unwrap();
            writeln!(impl_out, "reget={}", r).unwrap();
            writeln!(cases_txt, "R\t{}\t{}\t-\t{}\t", idx, name, pval).unwrap();
            evaluations += 1;
        }
        for (w, (wtcode, fs, xs)) in &res.pairs {
            for (j, x) in xs.iter().enumerate() {
                if x == "NOGLOBAL" {
                    continue;
                }
                let (pval, _) = match res.picks.get(j) {
                    Some(p) => p,
                    None => continue,
                };
                writeln!(model_in, "G\t{}\t{}\t{}", wtcode, tcode, pval).unwrap();
                let (sig, xv) = match x.split_once(':') {
                    Some((s, v)) => (s, v),
                    None => (x.as_str(), "-"),
                };
                writeln!(impl_out, "sig={}\tfsig={}\tx={}", sig, fs, xv).unwrap();
                writeln!(cases_txt, "G\t{}\t{}\t{}\t{}\t{}", idx, name, w, family.get(*w).map(|f| f.0.as_str()).unwrap_or("?"), pval).unwrap();
                evaluations += 2;
                hist.add("pair");
                distinct.insert(fnv(format!("G{}\t{}\t{}", wtcode, tcode, pval).as_bytes()));
            }
        }
    }
    drop(model_in);
    drop(impl_out);
    drop(cases_txt);
    gvh::out::write_json(
        &args.out.join("stats.json"),
        &serde_json::json!({
            "evaluations": evaluations,
            "distinct_nontrivial": distinct.len(),
            "rule": "distinct (type code, value) pairs whose value is not a bare primitive, plus distinct (requested type, stored type, value) triples of route 5",
            "hist": hist.to_json(),
            "types": family.len(),
            "family": family.iter().map(|f| f.0.clone()).collect::<Vec<_>>(),
            "crashes": all_crashes,
            "incomplete_types": incomplete,
        }),
    );
}

fn replay(path: &str) {
    let text = std::fs::read_to_string(path).expect("replay file");
    let v: serde_json::Value = serde_json::from_str(&text).expect("json");
    let case = &v["case"];
    let idx = case["type_index"].as_u64().unwrap_or(0) as usize;
    let out = std::env::temp_dir();
    let _ = out;
    let dir = std::path::PathBuf::from("/verif/.cache/run/c11-replay");
    std::fs::create_dir_all(&dir).unwrap();
    let args = Args { tier: v["tier"].as_str().unwrap_or("quick").to_string(), seed: v["seed"].as_u64().unwrap_or(1), out: dir.clone(), replay: None, extra: BTreeMap::new(), rest: vec![] };
    let mut crashes = Vec::new();
    let want = case["value"].as_str().unwrap_or("");
    if let Some(name) = case["type"].as_str().or(case["stored"].as_str()) {
        // SAFETY: single threaded at this point
        unsafe { std::env::set_var("C11_EXTRA_VALUE", format!("{}\t{}", name, want)) };
    }
    let res = run_child_until_done(&args, idx, &dir, &mut crashes);
    println!("type {} ({})", res.name, res.tcode);
    for (v, ok) in &res.picks {
        if v == want {
            println!("stored in a global: {}", if *ok { "OK" } else { "FAILED" });
        }
    }
    for (v, r) in &res.regets {
        if v == want {
            println!("requested at its own type after a later load: {}", r);
        }
    }
    for (k, (val, routes)) in &res.cases {
        if val == want {
            println!("case {} value {}", k, val);
            for (r, (x, note)) in routes {
                println!("  {:7} {}   {}", r, x, note);
            }
        }
    }
    for c in crashes {
        println!("crash: {}", c);
    }
}

