//! Runtime mirror of the Coq type codes (`tcode`) and Rust values (`rval`) of
//! coq/theories/Lib/Marshal.v, plus everything that is generic over them: text rendering for the
//! model driver, boundary/random value generators and the Gluon source of the functions used by
//! route 3 (identity, rebuild = deconstruct + reconstruct, wrap).
use gvh::rng::Rng;

#[derive(Clone, Copy, Debug, PartialEq)]
pub enum Kind {
    Named,
    Tuple,
    Unit,
}

#[derive(Clone, Debug, PartialEq)]
pub enum Ty {
    Prim(&'static str),
    Option(Box<Ty>),
    /// (error type, ok type) — the order of Gluon's `Result e t`
    Result(Box<Ty>, Box<Ty>),
    Vec(Box<Ty>),
    Map(Box<Ty>),
    Tuple(Vec<Ty>),
    Struct(&'static str, Kind, Vec<(String, Ty)>),
    Enum(&'static str, Vec<(&'static str, Kind, Vec<(String, Ty)>)>),
}

/// Rust values.  Integers of every width, chars (code point) and `Ordering` (0,1,2) are `Int`;
/// floats are their bit pattern (32 bits for f32).
#[derive(Clone, Debug, PartialEq)]
pub enum Val {
    Int(i128),
    Float(u64),
    Bool(bool),
    Str(String),
    Unit,
    None,
    Some(Box<Val>),
    Ok(Box<Val>),
    Err(Box<Val>),
    Seq(Vec<Val>),
    Map(Vec<(String, Val)>),
    Variant(usize, Vec<Val>),
}

pub fn hex(s: &[u8]) -> String {
    let mut o = String::with_capacity(s.len() * 2);
    for b in s {
        o.push_str(&format!("{:02x}", b));
    }
    o
}

impl Ty {
    pub fn tcode(&self, o: &mut String) {
        match self {
            Ty::Prim(p) => o.push_str(p),
            Ty::Option(t) => {
                o.push_str("(option ");
                t.tcode(o);
                o.push(')');
            }
            Ty::Result(e, t) => {
                o.push_str("(result ");
                e.tcode(o);
                o.push(' ');
                t.tcode(o);
                o.push(')');
            }
            Ty::Vec(t) => {
                o.push_str("(vec ");
                t.tcode(o);
                o.push(')');
            }
            Ty::Map(t) => {
                o.push_str("(map ");
                t.tcode(o);
                o.push(')');
            }
            Ty::Tuple(ts) => {
                o.push_str("(tuple");
                for t in ts {
                    o.push(' ');
                    t.tcode(o);
                }
                o.push(')');
            }
            Ty::Struct(n, k, fs) => {
                o.push_str(&format!("(struct x{} {}", hex(n.as_bytes()), kind_str(*k)));
                fields_tcode(fs, o);
                o.push(')');
            }
            Ty::Enum(n, vs) => {
                o.push_str(&format!("(enum x{}", hex(n.as_bytes())));
                for (vn, k, fs) in vs {
                    o.push_str(&format!(" (x{} {}", hex(vn.as_bytes()), kind_str(*k)));
                    fields_tcode(fs, o);
                    o.push(')');
                }
                o.push(')');
            }
        }
    }
    pub fn tcode_string(&self) -> String {
        let mut s = String::new();
        self.tcode(&mut s);
        s
    }
    /// Short readable name used in violation keys.
    pub fn name(&self) -> String {
        match self {
            Ty::Prim(p) => p.to_string(),
            Ty::Option(t) => format!("Option<{}>", t.name()),
            Ty::Result(e, t) => format!("Result<{},{}>", t.name(), e.name()),
            Ty::Vec(t) => format!("Vec<{}>", t.name()),
            Ty::Map(t) => format!("BTreeMap<String,{}>", t.name()),
            Ty::Tuple(ts) => format!("({})", ts.iter().map(|t| t.name()).collect::<Vec<_>>().join(",")),
            Ty::Struct(n, _, _) => n.to_string(),
            Ty::Enum(n, _) => n.to_string(),
        }
    }
    pub fn needs_map(&self) -> bool {
        match self {
            Ty::Prim(_) => false,
            Ty::Map(_) => true,
            Ty::Option(t) | Ty::Vec(t) => t.needs_map(),
            Ty::Result(e, t) => e.needs_map() || t.needs_map(),
            Ty::Tuple(ts) => ts.iter().any(|t| t.needs_map()),
            Ty::Struct(_, _, fs) => fs.iter().any(|f| f.1.needs_map()),
            Ty::Enum(_, vs) => vs.iter().any(|v| v.2.iter().any(|f| f.1.needs_map())),
        }
    }
    pub fn depth(&self) -> u32 {
        match self {
            Ty::Prim(_) => 0,
            Ty::Option(t) | Ty::Vec(t) | Ty::Map(t) => 1 + t.depth(),
            Ty::Result(e, t) => 1 + e.depth().max(t.depth()),
            Ty::Tuple(ts) => 1 + ts.iter().map(|t| t.depth()).max().unwrap_or(0),
            Ty::Struct(_, _, fs) => 1 + fs.iter().map(|f| f.1.depth()).max().unwrap_or(0),
            Ty::Enum(_, vs) => 1 + vs.iter().flat_map(|v| v.2.iter()).map(|f| f.1.depth()).max().unwrap_or(0),
        }
    }
}

fn kind_str(k: Kind) -> &'static str {
    match k {
        Kind::Named => "named",
        Kind::Tuple => "tuple",
        Kind::Unit => "unit",
    }
}
fn fields_tcode(fs: &[(String, Ty)], o: &mut String) {
    for (n, t) in fs {
        o.push_str(&format!(" (x{} ", hex(n.as_bytes())));
        t.tcode(o);
        o.push(')');
    }
}

impl Val {
    pub fn render(&self, o: &mut String) {
        match self {
            Val::Int(z) => o.push_str(&format!("i{}", z)),
            Val::Float(b) => o.push_str(&format!("f{:x}", b)),
            Val::Bool(b) => o.push_str(if *b { "b1" } else { "b0" }),
            Val::Str(s) => {
                o.push('s');
                o.push_str(&hex(s.as_bytes()));
            }
            Val::Unit => o.push('u'),
            Val::None => o.push('n'),
            Val::Some(v) => {
                o.push_str("(S ");
                v.render(o);
                o.push(')');
            }
            Val::Ok(v) => {
                o.push_str("(O ");
                v.render(o);
                o.push(')');
            }
            Val::Err(v) => {
                o.push_str("(E ");
                v.render(o);
                o.push(')');
            }
            Val::Seq(vs) => {
                o.push_str("(L");
                for v in vs {
                    o.push(' ');
                    v.render(o);
                }
                o.push(')');
            }
            Val::Map(kvs) => {
                o.push_str("(M");
                for (k, v) in kvs {
                    o.push_str(" s");
                    o.push_str(&hex(k.as_bytes()));
                    o.push(' ');
                    v.render(o);
                }
                o.push(')');
            }
            Val::Variant(i, vs) => {
                o.push_str(&format!("(V {}", i));
                for v in vs {
                    o.push(' ');
                    v.render(o);
                }
                o.push(')');
            }
        }
    }
    pub fn text(&self) -> String {
        let mut s = String::new();
        self.render(&mut s);
        s
    }
    /// inverse of [render] (corpus and replay files)
    pub fn parse(text: &str) -> Option<Val> {
        let mut toks: Vec<String> = Vec::new();
        let mut cur = String::new();
        for c in text.chars() {
            match c {
                '(' | ')' => {
                    if !cur.is_empty() {
                        toks.push(std::mem::take(&mut cur));
                    }
                    toks.push(c.to_string());
                }
                ' ' => {
                    if !cur.is_empty() {
                        toks.push(std::mem::take(&mut cur));
                    }
                }
                c => cur.push(c),
            }
        }
        if !cur.is_empty() {
            toks.push(cur);
        }
        fn unhex(s: &str) -> Option<String> {
            let b: Option<Vec<u8>> = (0..s.len() / 2).map(|i| u8::from_str_radix(s.get(2 * i..2 * i + 2)?, 16).ok()).collect();
            String::from_utf8(b?).ok()
        }
        fn one(t: &[String], i: &mut usize) -> Option<Val> {
            let tok = t.get(*i)?.clone();
            *i += 1;
            if tok != "(" {
                return Some(match tok.as_str() {
                    "u" => Val::Unit,
                    "n" => Val::None,
                    "b0" => Val::Bool(false),
                    "b1" => Val::Bool(true),
                    x if x.starts_with('i') => Val::Int(x[1..].parse().ok()?),
                    x if x.starts_with('f') => Val::Float(u64::from_str_radix(&x[1..], 16).ok()?),
                    x if x.starts_with('s') => Val::Str(unhex(&x[1..])?),
                    _ => return None,
                });
            }
            let head = t.get(*i)?.clone();
            *i += 1;
            let mut items = Vec::new();
            let mut keys = Vec::new();
            let mut idx = 0usize;
            if head == "V" {
                idx = t.get(*i)?.parse().ok()?;
                *i += 1;
            }
            while t.get(*i)? != ")" {
                if head == "M" {
                    let k = t.get(*i)?.clone();
                    *i += 1;
                    keys.push(unhex(k.strip_prefix('s')?)?);
                }
                items.push(one(t, i)?);
            }
            *i += 1;
            Some(match head.as_str() {
                "S" => Val::Some(Box::new(items.into_iter().next()?)),
                "O" => Val::Ok(Box::new(items.into_iter().next()?)),
                "E" => Val::Err(Box::new(items.into_iter().next()?)),
                "L" => Val::Seq(items),
                "M" => Val::Map(keys.into_iter().zip(items).collect()),
                "V" => Val::Variant(idx, items),
                _ => return None,
            })
        }
        let mut i = 0;
        let v = one(&toks, &mut i)?;
        if i == toks.len() { Some(v) } else { None }
    }
    /// a value counts as trivial when it has no structure at all (a primitive)
    pub fn nontrivial(&self) -> bool {
        !matches!(self, Val::Int(_) | Val::Float(_) | Val::Bool(_) | Val::Unit | Val::Str(_))
    }
}

// ---------------------------------------------------------------------------------------------
// generators

fn int_bounds(p: &str) -> Option<(i128, i128)> {
    Some(match p {
        "i64" | "isize" => (i64::MIN as i128, i64::MAX as i128),
        "i32" => (i32::MIN as i128, i32::MAX as i128),
        "i16" => (i16::MIN as i128, i16::MAX as i128),
        "u8" => (0, 255),
        "u16" => (0, 65535),
        "u32" => (0, u32::MAX as i128),
        "u64" | "usize" => (0, u64::MAX as i128),
        "ordering" => (0, 2),
        _ => return None,
    })
}

const STRS: &[&str] = &[
    "",
    "a",
    "h\u{e9}llo",
    "\u{65e5}\u{672c}\u{8a9e}",
    "\u{10ffff}",
    "a\0b",
    "\n\t\"\\ {}",
    "_0",
    "\u{7f}\u{80}\u{7ff}\u{800}\u{ffff}\u{10000}",
];
const CHARS: &[u32] = &[0, 0x61, 0x7f, 0x80, 0x7ff, 0x800, 0xd7ff, 0xe000, 0xffff, 0x10000, 0x10ffff];
const F64S: &[u64] = &[
    0,
    0x8000_0000_0000_0000,
    0x3ff0_0000_0000_0000,
    0xbff8_0000_0000_0000,
    0x7ff0_0000_0000_0000,
    0xfff0_0000_0000_0000,
    0x7ff8_0000_0000_0000,
    0x7ff8_dead_0000_beef,
    0x7ff0_0000_0000_0001,
    0xfff8_0000_0000_0001,
    0x0000_0000_0000_0001,
    0x000f_ffff_ffff_ffff,
    0x0010_0000_0000_0000,
    0x7fef_ffff_ffff_ffff,
    0x3fb9_9999_9999_999a,
    0x36a0_0000_0000_0000, // 2^-149: below f32 normal range
    0x47ef_ffff_f000_0000, // above f32::MAX after rounding
];
const F32S: &[u64] = &[
    0,
    0x8000_0000,
    0x3f80_0000,
    0xbfc0_0000,
    0x7f80_0000,
    0xff80_0000,
    0x7fc0_0000,
    0x7fc1_2345,
    0xffc0_0001,
    0x7f80_0001, // signalling NaN
    0x7fa0_0000, // signalling NaN with payload
    0xffbf_ffff, // negative signalling NaN
    0x0000_0001,
    0x007f_ffff,
    0x0040_0000,
    0x0000_0100,
    0x8000_0003,
    0x0080_0000,
    0x7f7f_ffff,
    0x3dcc_cccd,
];

fn prim_boundary(p: &str) -> Vec<Val> {
    if let Some((lo, hi)) = int_bounds(p) {
        let mut v = vec![0, 1, -1, lo, hi, lo + 1, hi - 1, 127, 128, 255, 256, 32767, 32768, 65535, 65536];
        v.extend_from_slice(&[
            i32::MAX as i128,
            i32::MAX as i128 + 1,
            u32::MAX as i128,
            u32::MAX as i128 + 1,
            i64::MAX as i128,
            i64::MAX as i128 + 1,
            (1i128 << 53) + 1,
            i32::MIN as i128,
            i32::MIN as i128 - 1,
        ]);
        let mut out: Vec<i128> = v.into_iter().filter(|z| *z >= lo && *z <= hi).collect();
        out.sort();
        out.dedup();
        return out.into_iter().map(Val::Int).collect();
    }
    match p {
        "f64" => F64S.iter().map(|b| Val::Float(*b)).collect(),
        "f32" => F32S.iter().map(|b| Val::Float(*b)).collect(),
        "bool" => vec![Val::Bool(false), Val::Bool(true)],
        "char" => CHARS.iter().map(|c| Val::Int(*c as i128)).collect(),
        "string" => {
            let mut v: Vec<Val> = STRS.iter().map(|s| Val::Str(s.to_string())).collect();
            v.push(Val::Str("xy\u{e9}".repeat(100)));
            v
        }
        "unit" => vec![Val::Unit],
        _ => panic!("unknown prim {}", p),
    }
}

fn random_string(r: &mut Rng) -> String {
    let n = match r.below(6) {
        0 => 0,
        1 => 1,
        _ => r.below(12),
    };
    let mut s = String::new();
    for _ in 0..n {
        let c = match r.below(8) {
            0 => *r.pick(CHARS),
            1 => 0x80 + r.below(0x700) as u32,
            2 => 0x800 + r.below(0xd000 - 0x800) as u32,
            3 => 0x10000 + r.below(0x100000) as u32,
            _ => 0x20 + r.below(0x5f) as u32,
        };
        s.push(char::from_u32(c).unwrap_or('?'));
    }
    s
}

fn prim_random(p: &str, r: &mut Rng) -> Val {
    if let Some((lo, hi)) = int_bounds(p) {
        let span = (hi - lo + 1) as u128;
        let z = match r.below(4) {
            0 => lo + (r.next_u64() as u128 % span) as i128,
            1 => {
                // near a power of two
                let k = r.below(65) as u32;
                let base: i128 = if k >= 64 { 1i128 << 64 } else { 1i128 << k };
                let z = base + r.range(-2, 2) as i128;
                let z = if r.chance(1, 2) { -z } else { z };
                z.clamp(lo, hi)
            }
            2 => (r.range(-300, 300) as i128).clamp(lo, hi),
            _ => {
                let raw = (((r.next_u64() as u128) << 64) | r.next_u64() as u128) % span;
                lo + raw as i128
            }
        };
        return Val::Int(z);
    }
    match p {
        "f64" => Val::Float(match r.below(5) {
            0 => *r.pick(F64S),
            1 => 0x7ff0_0000_0000_0000 | (r.next_u64() & 0x800f_ffff_ffff_ffff), // NaN/inf family
            2 => r.next_u64() & 0x800f_ffff_ffff_ffff,                            // subnormals
            _ => r.next_u64(),
        }),
        "f32" => Val::Float(match r.below(6) {
            0 => *r.pick(F32S),
            1 => 0x7fc0_0000 | (r.next_u64() & 0x803f_ffff), // quiet NaNs with payload
            2 => r.next_u64() & 0x807f_ffff,                 // subnormals
            3 => 0x7f80_0000 | (r.next_u64() & 0x807f_ffff), // any NaN/inf (may be signalling)
            _ => r.next_u64() & 0xffff_ffff,
        }),
        "bool" => Val::Bool(r.chance(1, 2)),
        "char" => loop {
            let c = match r.below(4) {
                0 => *r.pick(CHARS),
                1 => r.below(0x80) as u32,
                2 => r.below(0x110000) as u32,
                _ => r.below(0x3000) as u32,
            };
            if char::from_u32(c).is_some() {
                break Val::Int(c as i128);
            }
        },
        "string" => Val::Str(random_string(r)),
        "unit" => Val::Unit,
        _ => panic!("unknown prim {}", p),
    }
}

fn norm_map(mut kvs: Vec<(String, Val)>) -> Val {
    // BTreeMap semantics: sorted by key bytes, later entries replace earlier ones
    let mut out: Vec<(String, Val)> = Vec::new();
    for (k, v) in kvs.drain(..) {
        if let Some(e) = out.iter_mut().find(|e| e.0 == k) {
            e.1 = v;
        } else {
            out.push((k, v));
        }
    }
    out.sort_by(|a, b| a.0.as_bytes().cmp(b.0.as_bytes()));
    Val::Map(out)
}

fn take<T: Clone>(v: &[T], n: usize) -> Vec<T> {
    // evenly spread selection of at most n elements, always including first and last
    if v.len() <= n {
        return v.to_vec();
    }
    (0..n).map(|i| v[i * (v.len() - 1) / (n - 1)].clone()).collect()
}

impl Ty {
    /// Boundary values: every boundary of the leaves reaches the top through at least one path.
    pub fn boundary(&self, cap: usize) -> Vec<Val> {
        let out = match self {
            Ty::Prim(p) => prim_boundary(p),
            Ty::Option(t) => {
                let mut v = vec![Val::None];
                v.extend(t.boundary(cap).into_iter().map(|x| Val::Some(Box::new(x))));
                v
            }
            Ty::Result(e, t) => {
                let mut v: Vec<Val> = t.boundary(cap).into_iter().map(|x| Val::Ok(Box::new(x))).collect();
                v.extend(e.boundary(cap).into_iter().map(|x| Val::Err(Box::new(x))));
                v
            }
            Ty::Vec(t) => {
                let b = t.boundary(cap);
                let mut v = vec![Val::Seq(vec![])];
                for x in take(&b, 6) {
                    v.push(Val::Seq(vec![x]));
                }
                v.push(Val::Seq(b.clone()));
                let mut rev = b.clone();
                rev.reverse();
                v.push(Val::Seq(rev));
                v.push(Val::Seq(vec![b[0].clone(); 3]));
                v
            }
            Ty::Map(t) => {
                let b = t.boundary(cap);
                let mut v = vec![Val::Map(vec![])];
                v.push(norm_map(vec![("".to_string(), b[0].clone())]));
                v.push(norm_map(vec![("k".to_string(), b[b.len() - 1].clone())]));
                let keys = ["b", "a", "ab", "", "\u{e9}", "B", "a\0", "zz", "\u{10ffff}", "c", "aa"];
                v.push(norm_map(keys.iter().enumerate().map(|(i, k)| (k.to_string(), b[i % b.len()].clone())).collect()));
                v.push(norm_map(b.iter().enumerate().map(|(i, x)| (format!("k{:03}", (i * 7) % 50), x.clone())).collect()));
                v
            }
            Ty::Tuple(ts) => product_boundary(&ts.iter().collect::<Vec<_>>(), cap).into_iter().map(Val::Seq).collect(),
            Ty::Struct(_, _, fs) => {
                product_boundary(&fs.iter().map(|f| &f.1).collect::<Vec<_>>(), cap).into_iter().map(Val::Seq).collect()
            }
            Ty::Enum(_, vs) => {
                let mut v = Vec::new();
                for (i, (_, _, fs)) in vs.iter().enumerate() {
                    for fields in product_boundary(&fs.iter().map(|f| &f.1).collect::<Vec<_>>(), cap) {
                        v.push(Val::Variant(i, fields));
                    }
                }
                v
            }
        };
        take(&out, cap)
    }

    pub fn random(&self, r: &mut Rng, size: u32) -> Val {
        match self {
            Ty::Prim(p) => prim_random(p, r),
            Ty::Option(t) => {
                if r.chance(1, 4) {
                    Val::None
                } else {
                    Val::Some(Box::new(t.random(r, size)))
                }
            }
            Ty::Result(e, t) => {
                if r.chance(1, 2) {
                    Val::Ok(Box::new(t.random(r, size)))
                } else {
                    Val::Err(Box::new(e.random(r, size)))
                }
            }
            Ty::Vec(t) => {
                let n = if r.chance(1, 6) { 0 } else { r.below(size as u64 + 1) };
                Val::Seq((0..n).map(|_| t.random(r, size / 2)).collect())
            }
            Ty::Map(t) => {
                let n = if r.chance(1, 6) { 0 } else { r.below(size as u64 + 1) };
                norm_map((0..n).map(|_| (random_string(r), t.random(r, size / 2))).collect())
            }
            Ty::Tuple(ts) => Val::Seq(ts.iter().map(|t| t.random(r, size)).collect()),
            Ty::Struct(_, _, fs) => Val::Seq(fs.iter().map(|f| f.1.random(r, size)).collect()),
            Ty::Enum(_, vs) => {
                let i = r.below(vs.len() as u64) as usize;
                Val::Variant(i, vs[i].2.iter().map(|f| f.1.random(r, size)).collect())
            }
        }
    }
}

/// For a product: the i-th result takes the i-th boundary value (cyclically) of every component, for
/// as many rows as the longest component list; so each component boundary occurs at least once.
fn product_boundary(ts: &[&Ty], cap: usize) -> Vec<Vec<Val>> {
    if ts.is_empty() {
        return vec![vec![]];
    }
    let bs: Vec<Vec<Val>> = ts.iter().map(|t| t.boundary(cap)).collect();
    let n = bs.iter().map(|b| b.len()).max().unwrap();
    (0..n).map(|i| bs.iter().enumerate().map(|(j, b)| b[(i + j * (i / b.len())) % b.len()].clone()).collect()).collect()
}

// ---------------------------------------------------------------------------------------------
// Gluon source

impl Ty {
    /// Gluon type syntax (atomic = parenthesised when it has arguments)
    pub fn gty(&self, atomic: bool) -> String {
        let (s, compound) = match self {
            Ty::Prim(p) => (
                match *p {
                    "u8" => "Byte",
                    "f64" | "f32" => "Float",
                    "bool" => "Bool",
                    "char" => "Char",
                    "string" => "String",
                    "unit" => "()",
                    "ordering" => "Ordering",
                    _ => "Int",
                }
                .to_string(),
                false,
            ),
            Ty::Option(t) => (format!("Option {}", t.gty(true)), true),
            Ty::Result(e, t) => (format!("Result {} {}", e.gty(true), t.gty(true)), true),
            Ty::Vec(t) => (format!("Array {}", t.gty(true)), true),
            Ty::Map(t) => (format!("Map String {}", t.gty(true)), true),
            Ty::Tuple(ts) => (format!("({})", ts.iter().map(|t| t.gty(false)).collect::<Vec<_>>().join(", ")), false),
            Ty::Struct(_, Kind::Named, fs) => (
                format!("{{ {} }}", fs.iter().map(|(n, t)| format!("{} : {}", n, t.gty(false))).collect::<Vec<_>>().join(", ")),
                false,
            ),
            Ty::Struct(_, Kind::Unit, _) => ("()".to_string(), false),
            Ty::Struct(_, Kind::Tuple, fs) if fs.len() == 1 => return fs[0].1.gty(atomic),
            Ty::Struct(_, Kind::Tuple, fs) => (format!("({})", fs.iter().map(|f| f.1.gty(false)).collect::<Vec<_>>().join(", ")), false),
            Ty::Enum(n, _) => (n.to_string(), false),
        };
        if compound && atomic { format!("({})", s) } else { s }
    }

    /// `type E = | A | B Int ...` declarations of every enum occurring in the type, innermost first
    pub fn decls(&self, out: &mut Vec<(String, String)>) {
        match self {
            Ty::Prim(_) => {}
            Ty::Option(t) | Ty::Vec(t) | Ty::Map(t) => t.decls(out),
            Ty::Result(e, t) => {
                e.decls(out);
                t.decls(out)
            }
            Ty::Tuple(ts) => ts.iter().for_each(|t| t.decls(out)),
            Ty::Struct(_, _, fs) => fs.iter().for_each(|f| f.1.decls(out)),
            Ty::Enum(n, vs) => {
                for v in vs {
                    v.2.iter().for_each(|f| f.1.decls(out));
                }
                if out.iter().any(|d| d.0 == *n) {
                    return;
                }
                let mut s = format!("type {} =", n);
                for (vn, k, fs) in vs {
                    s.push_str(&format!(" | {}", vn));
                    match k {
                        Kind::Unit => {}
                        Kind::Tuple => {
                            for f in fs {
                                s.push(' ');
                                s.push_str(&f.1.gty(true));
                            }
                        }
                        Kind::Named => {
                            s.push_str(&format!(
                                " {{ {} }}",
                                fs.iter().map(|(n, t)| format!("{} : {}", n, t.gty(false))).collect::<Vec<_>>().join(", ")
                            ));
                        }
                    }
                }
                out.push((n.to_string(), s));
            }
        }
    }

    /// Gluon code that takes the value bound to `x` apart with Gluon's own eliminators (match,
    /// field access, array indexing) and builds it again with Gluon's own constructors.  Appends
    /// `let` lines at indentation `ind` to `out` and returns an atomic expression for the result.
    pub fn rebuild(&self, x: &str, ind: usize, out: &mut String, fresh: &mut u32) -> String {
        let p = " ".repeat(ind);
        match self {
            Ty::Prim(_) => x.to_string(),
            Ty::Option(t) => {
                let y = var(fresh, "o");
                let res = var(fresh, "v");
                out.push_str(&format!("{p}let {res} =\n{p}    match {x} with\n{p}    | Some {y} ->\n"));
                let a = t.rebuild(&y, ind + 8, out, fresh);
                out.push_str(&format!("{p}        Some {a}\n{p}    | None -> None\n"));
                res
            }
            Ty::Result(e, t) => {
                let y = var(fresh, "r");
                let z = var(fresh, "r");
                let res = var(fresh, "v");
                out.push_str(&format!("{p}let {res} =\n{p}    match {x} with\n{p}    | Ok {y} ->\n"));
                let a = t.rebuild(&y, ind + 8, out, fresh);
                out.push_str(&format!("{p}        Ok {a}\n{p}    | Err {z} ->\n"));
                let b = e.rebuild(&z, ind + 8, out, fresh);
                out.push_str(&format!("{p}        Err {b}\n"));
                res
            }
            Ty::Vec(t) => {
                let go = var(fresh, "go");
                let i = var(fresh, "i");
                let acc = var(fresh, "acc");
                let e = var(fresh, "e");
                let res = var(fresh, "v");
                out.push_str(&format!(
                    "{p}let {go} {i} {acc} =\n{p}    if {i} #Int== array_prim.len {x} then {acc}\n{p}    else\n{p}        let {e} = array_prim.index {x} {i}\n"
                ));
                let a = t.rebuild(&e, ind + 8, out, fresh);
                out.push_str(&format!("{p}        {go} ({i} #Int+ 1) (array_prim.append {acc} [{a}])\n{p}let {res} = {go} 0 []\n"));
                res
            }
            Ty::Map(t) => {
                // walk the tree right to left and insert into an empty map: the keys arrive in
                // descending order, so the rebuilt tree leans to the left while the one pushed from
                // Rust leans to the right; reading it back must find every entry in both shapes
                let go = var(fresh, "mgo");
                let m = var(fresh, "m");
                let acc = var(fresh, "macc");
                let (k, v, l, r) = (var(fresh, "k"), var(fresh, "v"), var(fresh, "l"), var(fresh, "rr"));
                let res = var(fresh, "v");
                out.push_str(&format!("{p}let {go} {m} {acc} =\n{p}    match {m} with\n{p}    | Tip -> {acc}\n{p}    | Bin {k} {v} {l} {r} ->\n"));
                let a = t.rebuild(&v, ind + 8, out, fresh);
                out.push_str(&format!("{p}        {go} {l} (map_insert_string {k} {a} ({go} {r} {acc}))\n{p}let {res} = {go} {x} Tip\n"));
                res
            }
            Ty::Tuple(ts) => {
                let parts: Vec<String> = ts.iter().enumerate().map(|(i, t)| field_rebuild(t, x, &format!("_{}", i), ind, out, fresh)).collect();
                format!("({})", parts.join(", "))
            }
            Ty::Struct(_, Kind::Unit, _) => "()".to_string(),
            Ty::Struct(_, Kind::Tuple, fs) if fs.len() == 1 => fs[0].1.rebuild(x, ind, out, fresh),
            Ty::Struct(_, Kind::Tuple, fs) => {
                let parts: Vec<String> = fs.iter().enumerate().map(|(i, f)| field_rebuild(&f.1, x, &format!("_{}", i), ind, out, fresh)).collect();
                format!("({})", parts.join(", "))
            }
            Ty::Struct(_, Kind::Named, fs) => {
                let parts: Vec<String> = fs.iter().map(|(n, t)| format!("{} = {}", n, field_rebuild(t, x, n, ind, out, fresh))).collect();
                format!("{{ {} }}", parts.join(", "))
            }
            Ty::Enum(_, vs) => {
                let res = var(fresh, "v");
                out.push_str(&format!("{p}let {res} =\n{p}    match {x} with\n"));
                for (vn, k, fs) in vs {
                    match k {
                        Kind::Unit => out.push_str(&format!("{p}    | {vn} -> {vn}\n")),
                        Kind::Tuple => {
                            let ys: Vec<String> = fs.iter().map(|_| var(fresh, "p")).collect();
                            out.push_str(&format!("{p}    | {vn} {} ->\n", ys.join(" ")));
                            let bodies: Vec<String> = fs.iter().zip(&ys).map(|(f, y)| f.1.rebuild(y, ind + 8, out, fresh)).collect();
                            out.push_str(&format!("{p}        {vn} {}\n", bodies.join(" ")));
                        }
                        Kind::Named => {
                            let y = var(fresh, "q");
                            out.push_str(&format!("{p}    | {vn} {y} ->\n"));
                            let parts: Vec<String> =
                                fs.iter().map(|(n, t)| format!("{} = {}", n, field_rebuild(t, &y, n, ind + 8, out, fresh))).collect();
                            out.push_str(&format!("{p}        {vn} {{ {} }}\n", parts.join(", ")));
                        }
                    }
                }
                res
            }
        }
    }

    pub fn rebuild_body(&self) -> String {
        let mut out = String::from("\n");
        let mut fresh = 0;
        let a = self.rebuild("x", 4, &mut out, &mut fresh);
        out.push_str(&format!("    {}", a));
        out
    }

    /// Gluon program whose value is a function `gty -> gty` built from `body` over the argument `x`
    pub fn program(&self, ret: &str, body: &str) -> String {
        let mut decls = Vec::new();
        self.decls(&mut decls);
        let mut s = String::new();
        s.push_str("let { Bool, Option, Result, Ordering } = import! std.types\n");
        if self.needs_map() {
            s.push_str("let { Map, insert_string = map_insert_string } = import! std.map\n");
        }
        s.push_str("let array_prim = import! std.array.prim\nlet mk_some y = Some y\n");
        for d in &decls {
            s.push_str(&d.1);
            s.push('\n');
        }
        s.push_str(&format!("let f x : {} -> {} = {}\nf\n", self.gty(true), ret, body));
        s
    }
}

fn var(fresh: &mut u32, p: &str) -> String {
    *fresh += 1;
    format!("{}{}", p, *fresh)
}

fn field_rebuild(t: &Ty, x: &str, field: &str, ind: usize, out: &mut String, fresh: &mut u32) -> String {
    let y = var(fresh, "fl");
    out.push_str(&format!("{}let {} = {}.{}\n", " ".repeat(ind), y, x, field));
    t.rebuild(&y, ind, out, fresh)
}
