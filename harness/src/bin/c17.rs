//! C17: channels, references, lazy values and green threads — every operation sequence is
//! compiled to a Gluon program, run on the real VM, and its log is printed in the format of the
//! extracted model (`coq/extract/c17/driver.ml`, model `coq/theories/Conc/Cells.v`).
//!
//! Output files in --out:
//!   model_in.txt   `fixed <ops>` per case (input of the model driver; the check derives the
//!                  `faithful <ops>` variant from it)
//!   impl_out.txt   the log of the Gluon program | HANG | ERROR .. | PANIC .. | CRASH ..
//!   cases.txt      the operation sequence (same text as the model line without the mode)
//!   stats.json     input distribution, hang confirmations, throughput
//!
//! Process structure: the parent generates the cases and splits them over worker children
//! (`c17 child IN OUT`); a worker owns one long-lived VM with the helper module `c17lib`
//! loaded once and evaluates each sequence on a fresh child thread of that VM.  A sequence
//! whose main thread waits for ever is detected by polling the future with a waker that
//! records wake-ups: `Pending` without a wake-up on a single OS thread can never be resumed
//! (that is `block_on` parking for ever).  The parent is the watchdog: a worker that makes no
//! progress for WATCHDOG_SECS or dies is killed, the case it was working on is attributed
//! (`HANG(watchdog)` / `CRASH`) and a new worker continues after it.  A few of the detected
//! hangs are confirmed with the real blocking `run_expr` in a child with a timeout.
use gluon::vm::api::IO;
use gluon::{RootedThread, ThreadExt};
use gvh::out::{fnv, Args, Hist};
use gvh::rng::Rng;
use std::io::{BufRead, Write};
use std::sync::atomic::{AtomicBool, Ordering};
use std::sync::Arc;
use std::task::{Context, Poll, Wake};

const WATCHDOG_SECS: u64 = 60;

// ---------------------------------------------------------------------------------------
// cases
// ---------------------------------------------------------------------------------------
#[derive(Clone, Debug, PartialEq)]
enum LRes {
    Val(u32),
    Fail,
    Force(usize),
}
#[derive(Clone, Debug, PartialEq)]
struct LBody {
    bump: Option<usize>,
    res: LRes,
}
#[derive(Clone, Debug, PartialEq)]
enum Bop {
    Send(usize, u32),
    Recv(usize),
    Load(usize),
    Store(usize, u32),
    Force(usize),
    Yield,
    /// resume the coroutine with this label
    Resume(usize),
    /// spawn a coroutine (label = position of the spawn in the program text, pre-order)
    Spawn(usize, Vec<Bop>),
}
#[derive(Clone, Debug, PartialEq)]
enum Op {
    B(Bop),
    Ref(u32),
    Lazy(LBody),
}

fn body_text(body: &[Bop]) -> String {
    body.iter().map(|b| bop_text(b, false)).collect::<Vec<_>>().join(",")
}
fn bop_text(b: &Bop, top: bool) -> String {
    match b {
        Bop::Resume(t) => format!("u{}", t),
        Bop::Spawn(_, body) => if top { format!("t={}", body_text(body)) } else { format!("t[{}]", body_text(body)) },
        Bop::Send(c, v) => format!("s{}.{}", c, v),
        Bop::Recv(c) => format!("r{}", c),
        Bop::Load(r) => format!("g{}", r),
        Bop::Store(r, v) => format!("p{}.{}", r, v),
        Bop::Force(l) => format!("f{}", l),
        Bop::Yield => "y".into(),
    }
}
fn op_text(o: &Op) -> String {
    match o {
        Op::B(b) => bop_text(b, true),
        Op::Ref(v) => format!("n{}", v),
        Op::Lazy(b) => {
            let r = match &b.res {
                LRes::Val(v) => format!("v{}", v),
                LRes::Fail => "x".into(),
                LRes::Force(j) => format!("f{}", j),
            };
            match b.bump {
                Some(k) => format!("l{}b{}", r, k),
                None => format!("l{}", r),
            }
        }
    }
}
fn case_text(ops: &[Op]) -> String {
    ops.iter().map(op_text).collect::<Vec<_>>().join(" ")
}

fn split_top(s: &str) -> Vec<&str> {
    let mut parts = vec![];
    if s.is_empty() {
        return parts;
    }
    let (mut depth, mut start) = (0i32, 0usize);
    for (i, c) in s.char_indices() {
        match c {
            '[' => depth += 1,
            ']' => depth -= 1,
            ',' if depth == 0 => {
                parts.push(&s[start..i]);
                start = i + 1;
            }
            _ => {}
        }
    }
    parts.push(&s[start..]);
    parts
}
/// `labels` is the number of spawns seen so far in the text: the label of the next one.
fn parse_bop(s: &str, labels: &mut usize) -> Result<Bop, String> {
    if s.is_empty() {
        return Err("empty operation".into());
    }
    let (h, rest) = s.split_at(1);
    let num = |x: &str| x.parse::<usize>().map_err(|_| format!("bad number in `{}`", s));
    let two = |x: &str| -> Result<(usize, u32), String> {
        let (a, b) = x.split_once('.').ok_or(format!("bad operand `{}`", s))?;
        Ok((num(a)?, num(b)? as u32))
    };
    Ok(match h {
        "s" => {
            let (c, v) = two(rest)?;
            Bop::Send(c, v)
        }
        "r" => Bop::Recv(num(rest)?),
        "g" => Bop::Load(num(rest)?),
        "p" => {
            let (r, v) = two(rest)?;
            Bop::Store(r, v)
        }
        "f" => Bop::Force(num(rest)?),
        "y" => Bop::Yield,
        "u" => Bop::Resume(num(rest)?),
        "t" => {
            let inner = if let Some(x) = rest.strip_prefix('=') {
                x
            } else if rest.len() >= 2 && rest.starts_with('[') && rest.ends_with(']') {
                &rest[1..rest.len() - 1]
            } else {
                return Err(format!("bad spawn `{}`", s));
            };
            let lab = *labels;
            *labels += 1;
            let mut body = vec![];
            for x in split_top(inner) {
                body.push(parse_bop(x, labels)?);
            }
            Bop::Spawn(lab, body)
        }
        _ => return Err(format!("bad basic op `{}`", s)),
    })
}
fn parse_op(s: &str, labels: &mut usize) -> Result<Op, String> {
    if s.is_empty() {
        return Err("empty operation".into());
    }
    let (h, rest) = s.split_at(1);
    let num = |x: &str| x.parse::<usize>().map_err(|_| format!("bad number in `{}`", s));
    Ok(match h {
        "n" => Op::Ref(num(rest)? as u32),
        "l" => {
            let (res_s, bump) = match rest.find('b') {
                Some(i) => (&rest[..i], Some(num(&rest[i + 1..])?)),
                None => (rest, None),
            };
            if res_s.is_empty() {
                return Err(format!("bad lazy body `{}`", s));
            }
            let res = match &res_s[..1] {
                "v" => LRes::Val(num(&res_s[1..])? as u32),
                "x" => LRes::Fail,
                "f" => LRes::Force(num(&res_s[1..])?),
                _ => return Err(format!("bad lazy body `{}`", s)),
            };
            Op::Lazy(LBody { bump, res })
        }
        _ => Op::B(parse_bop(s, labels)?),
    })
}
fn parse_case(s: &str) -> Result<Vec<Op>, String> {
    let mut labels = 0usize;
    s.split_whitespace().filter(|t| *t != "fixed" && *t != "faithful").map(|t| parse_op(t, &mut labels)).collect()
}

/// Static scope (what a Gluon closure can mention): counts of references and lazies, the labels
/// of the coroutines whose handle is lexically visible, the next unused label.
#[derive(Clone, Default, Debug)]
struct Scope {
    nr: usize,
    nl: usize,
    vis: Vec<usize>,
    next: usize,
}
const NCHAN: usize = 2;

fn max_label(body: &[Bop]) -> Option<usize> {
    let mut m = None;
    for b in body {
        if let Bop::Spawn(l, inner) = b {
            m = m.max(Some(*l)).max(max_label(inner));
        }
    }
    m
}

/// Lexical scoping of a sequence of basic operations: a handle is visible after its `spawn`, to
/// the rest of that body and to every closure created there afterwards.
fn body_ok(body: &[Bop], nr: usize, nl: usize, vis: &[usize]) -> bool {
    let mut vis = vis.to_vec();
    for b in body {
        match b {
            Bop::Send(c, _) | Bop::Recv(c) => {
                if *c >= NCHAN {
                    return false;
                }
            }
            Bop::Load(r) | Bop::Store(r, _) => {
                if *r >= nr {
                    return false;
                }
            }
            Bop::Force(l) => {
                if *l >= nl {
                    return false;
                }
            }
            Bop::Yield => {}
            Bop::Resume(t) => {
                if !vis.contains(t) {
                    return false;
                }
            }
            Bop::Spawn(lab, inner) => {
                if !body_ok(inner, nr, nl, &vis) {
                    return false;
                }
                vis.push(*lab);
            }
        }
    }
    true
}
/// Is the sequence a Gluon program (every name bound when it is mentioned)?
fn well_scoped(ops: &[Op]) -> bool {
    let mut sc = Scope::default();
    for o in ops {
        match o {
            Op::B(b) => {
                if !body_ok(std::slice::from_ref(b), sc.nr, sc.nl, &sc.vis) {
                    return false;
                }
                if let Bop::Spawn(lab, _) = b {
                    sc.vis.push(*lab);
                }
            }
            Op::Ref(_) => sc.nr += 1,
            Op::Lazy(b) => {
                if let Some(r) = b.bump {
                    if r >= sc.nr {
                        return false;
                    }
                }
                if let LRes::Force(j) = b.res {
                    if j > sc.nl {
                        return false;
                    }
                }
                sc.nl += 1
            }
        }
    }
    true
}

/// Renames the coroutine labels to the positions of the spawns in the text (pre-order).
fn normalize_labels(ops: &mut [Op]) {
    fn go(body: &mut [Bop], map: &mut std::collections::HashMap<usize, usize>, next: &mut usize) {
        for b in body.iter_mut() {
            match b {
                Bop::Resume(t) => *t = *map.get(t).expect("resume of a label that is not in scope"),
                Bop::Spawn(lab, inner) => {
                    map.insert(*lab, *next);
                    *lab = *next;
                    *next += 1;
                    go(inner, map, next);
                }
                _ => {}
            }
        }
    }
    let mut map = std::collections::HashMap::new();
    let mut next = 0usize;
    for o in ops.iter_mut() {
        if let Op::B(b) = o {
            go(std::slice::from_mut(b), &mut map, &mut next);
        }
    }
}

// ---------------------------------------------------------------------------------------
// Gluon source
// ---------------------------------------------------------------------------------------
/// Helper module, type checked with the implicit prelude and loaded once per VM.
const LIB: &str = r#"
let { send, recv, channel } = import! std.channel
let { ref, load, (<-) } = import! std.reference
let { (<-) = st_store, load = st_load, ref = st_ref } = import! std.st.reference.prim
let { Lazy, lazy, force } = import! std.lazy
let { Option } = import! std.option
let { spawn, yield, resume } = import! std.thread
let { wrap } = import! std.applicative
let { flat_map } = import! std.monad
let io @ { IO, ? } = import! std.io
let { Result } = import! std.result
let { show, ? } = import! std.show
let int = import! std.int
let string = import! std.string

let si x : Int -> String = show x
// the log: one entry `<thread>:<observation>` per operation, in execution order
let log lg tid tok =
    do s = load lg
    lg <- (s ++ " " ++ si tid ++ ":" ++ tok)
let op_send lg tid s v =
    do r = send s v
    match r with
    | Ok _ -> log lg tid "s"
    | Err _ -> log lg tid "S"
let op_recv lg tid q =
    do r = recv q
    match r with
    | Ok v -> log lg tid ("r" ++ si v)
    | Err _ -> log lg tid "e"
let op_load lg tid r =
    do v = load r
    log lg tid ("v" ++ si v)
let op_store lg tid r v =
    do _ = r <- v
    log lg tid "w"
// `force` is a pure function: an error of the thunk unwinds the thread unless it is caught
let op_force lg tid l =
    let act =
        do _ = wrap ()
        let v = force l
        wrap (Ok v)
    do r = io.catch act (\msg -> wrap (Err msg))
    match r with
    | Ok v -> log lg tid ("f" ++ si v)
    | Err _ -> log lg tid "x"
let op_yield lg tid =
    do _ = log lg tid "y"
    let u = yield ()
    wrap u
let op_resume lg tid t =
    let act =
        do r = resume t
        wrap (Ok r)
    do r = io.catch act (\msg -> wrap (Err msg))
    match r with
    | Ok r ->
        match r with
        | Ok _ -> log lg tid "R"
        | Err _ -> log lg tid "D"
    | Err _ -> log lg tid "X"
// thunk bodies: a pure-typed side effect (std.st.reference.prim) shows how often a body ran
let bump r f =
    let _ = st_store r (st_load r + 1)
    f ()
let boom _ : () -> Int = error "boom"
let inc x : Int -> Int = x + 1
// a lazy value whose thunk can mention the lazy value itself
let knot f : (Lazy Int -> () -> Int) -> Lazy Int =
    let cell = st_ref None
    let l = lazy (\_ ->
            match st_load cell with
            | Some me -> f me ()
            | None -> error "unset")
    let _ = st_store cell (Some l)
    l
let io_wrap x : a -> IO a = wrap x
let io_flat_map f m : (a -> IO b) -> IO a -> IO b = flat_map f m
{
    channel, ref, load, lazy, force, spawn, wrap = io_wrap, flat_map = io_flat_map, knot, boom, inc, log,
    op_send, op_recv, op_load, op_store, op_force, op_yield, op_resume, bump,
}
"#;

const HEADER: &str = "//@NO-IMPLICIT-PRELUDE\nlet { channel, ref, load, lazy, force, spawn, wrap, flat_map, knot, boom, inc, log, op_send, op_recv, op_load, op_store, op_force, op_yield, op_resume, bump } = import! c17lib\ndo { sender = s0, receiver = q0 } = channel 0\ndo { sender = s1, receiver = q1 } = channel 0\ndo lg = ref \"\"\n";

/// The operations of thread `tid` (0 = main program), one `do` line each, at column `indent`.
fn body_src(body: &[Bop], tid: usize, indent: usize, out: &mut String) {
    let pad = " ".repeat(indent);
    for b in body {
        let line = match b {
            Bop::Send(c, v) => format!("op_send lg {} s{} {}", tid, c, v),
            Bop::Recv(c) => format!("op_recv lg {} q{}", tid, c),
            Bop::Load(r) => format!("op_load lg {} r{}", tid, r),
            Bop::Store(r, v) => format!("op_store lg {} r{} {}", tid, r, v),
            Bop::Force(l) => format!("op_force lg {} l{}", tid, l),
            Bop::Yield => format!("op_yield lg {}", tid),
            Bop::Resume(t) => format!("op_resume lg {} t{}", tid, t),
            Bop::Spawn(lab, inner) => {
                out.push_str(&format!("{}do t{} = spawn (\n", pad, lab));
                body_src(inner, lab + 1, indent + 8, out);
                out.push_str(&format!("{}        wrap ()\n{}    )\n", pad, pad));
                format!("log lg {} \"n\"", tid)
            }
        };
        out.push_str(&pad);
        out.push_str("do _ = ");
        out.push_str(&line);
        out.push('\n');
    }
}

fn lazy_src(b: &LBody, own: usize) -> String {
    let self_ref = matches!(b.res, LRes::Force(j) if j == own);
    let inner = match &b.res {
        LRes::Val(v) => format!("\\_ -> {}", v),
        LRes::Fail => "boom".to_string(),
        LRes::Force(j) if *j == own => "\\_ -> inc (force me)".to_string(),
        LRes::Force(j) => format!("\\_ -> inc (force l{})", j),
    };
    let thunk = match b.bump {
        Some(r) => format!("\\_ -> bump r{} ({})", r, inner),
        None => inner,
    };
    if self_ref { format!("knot (\\me -> {})", thunk) } else { format!("lazy ({})", thunk) }
}

fn program(ops: &[Op]) -> String {
    let mut s = String::from(HEADER);
    let mut sc = Scope::default();
    for o in ops {
        match o {
            Op::B(b) => body_src(std::slice::from_ref(b), 0, 0, &mut s),
            Op::Ref(v) => {
                s.push_str(&format!("do r{} = ref {}\ndo _ = log lg 0 \"n\"\n", sc.nr, v));
                sc.nr += 1;
            }
            Op::Lazy(b) => {
                s.push_str(&format!("let l{} = {}\ndo _ = log lg 0 \"n\"\n", sc.nl, lazy_src(b, sc.nl)));
                sc.nl += 1;
            }
        }
    }
    s.push_str("load lg\n");
    s
}

// ---------------------------------------------------------------------------------------
// running the implementation
// ---------------------------------------------------------------------------------------
fn new_vm() -> RootedThread {
    let vm = gluon::VmBuilder::new().build();
    vm.run_io(true);
    vm.load_script("c17lib", LIB).unwrap_or_else(|e| panic!("c17lib does not compile: {}", e));
    vm
}

struct Flag(AtomicBool);
impl Wake for Flag {
    fn wake(self: Arc<Self>) {
        self.0.store(true, Ordering::SeqCst)
    }
    fn wake_by_ref(self: &Arc<Self>) {
        self.0.store(true, Ordering::SeqCst)
    }
}

fn one_line(s: &str) -> String {
    let t: String = s.chars().map(|c| if c == '\n' || c == '\r' { ' ' } else { c }).collect();
    t.chars().take(300).collect()
}

/// Evaluates one program.  Returns (canonical result line, vm_still_usable).
fn eval(vm: &RootedThread, src: &str) -> (String, bool) {
    let r = std::panic::catch_unwind(std::panic::AssertUnwindSafe(|| {
        // a fresh child thread per sequence: a main thread that hangs is simply dropped
        let main = match vm.new_thread() {
            Ok(t) => t,
            Err(e) => return (format!("ERROR new_thread: {}", one_line(&e.to_string())), false),
        };
        let flag = Arc::new(Flag(AtomicBool::new(false)));
        let waker = std::task::Waker::from(flag.clone());
        let mut cx = Context::from_waker(&waker);
        let fut = main.run_expr_async::<IO<String>>("c17", src);
        let mut fut = Box::pin(fut);
        let mut polls = 0u32;
        loop {
            flag.0.store(false, Ordering::SeqCst);
            match fut.as_mut().poll(&mut cx) {
                Poll::Ready(Ok((IO::Value(s), _))) => return (s.trim().to_string(), true),
                Poll::Ready(Ok((IO::Exception(e), _))) => return (format!("EXCEPTION {}", one_line(&e)), true),
                Poll::Ready(Err(e)) => return (format!("ERROR {}", one_line(&e.to_string())), true),
                Poll::Pending => {
                    polls += 1;
                    if !flag.0.load(Ordering::SeqCst) {
                        // pending and nobody will ever wake us: the program hangs
                        return ("HANG".to_string(), true);
                    }
                    if polls > 100_000 {
                        return ("HANG(livelock)".to_string(), false);
                    }
                }
            }
        }
    }));
    match r {
        Ok(x) => x,
        Err(p) => {
            let msg = p
                .downcast_ref::<String>()
                .cloned()
                .or_else(|| p.downcast_ref::<&str>().map(|s| s.to_string()))
                .unwrap_or_else(|| "?".into());
            (format!("PANIC {}", one_line(&msg)), false)
        }
    }
}

fn child_main(inp: &str, outp: &str) {
    std::panic::set_hook(Box::new(|_| {}));
    let f = std::fs::File::open(inp).expect("child input");
    let mut out = std::fs::OpenOptions::new().create(true).append(true).open(outp).expect("child output");
    let mut vm = new_vm();
    let mut n = 0u64;
    for line in std::io::BufReader::new(f).lines() {
        let line = line.unwrap();
        let (idx, case) = line.split_once('\t').expect("idx<TAB>case");
        let ops = match parse_case(case) {
            Ok(o) => o,
            Err(e) => {
                writeln!(out, "{}\tERROR parse {}", idx, e).unwrap();
                continue;
            }
        };
        n += 1;
        if n % 1500 == 0 {
            vm = new_vm();
        }
        let (res, usable) = eval(&vm, &program(&ops));
        writeln!(out, "{}\t{}", idx, res).unwrap();
        out.flush().unwrap();
        if !usable {
            vm = new_vm();
        }
    }
}

/// `run_expr` as an embedder calls it (`futures::executor::block_on`): used to confirm hangs.
fn confirm_main(case: &str) {
    let ops = parse_case(case).expect("case");
    let vm = new_vm();
    println!("ready");
    std::io::stdout().flush().unwrap();
    match vm.run_expr::<IO<String>>("c17", &program(&ops)) {
        Ok((IO::Value(s), _)) => println!("returned {}", s.trim()),
        Ok((IO::Exception(e), _)) => println!("returned EXCEPTION {}", one_line(&e)),
        Err(e) => println!("returned ERROR {}", one_line(&e.to_string())),
    }
}

/// Runs `confirm` in a child; (true, _) = still blocked `secs` seconds after the VM was ready.
fn confirm_hang(case: &str, secs: u64) -> (bool, String) {
    let exe = std::env::current_exe().unwrap();
    let mut ch = std::process::Command::new(exe)
        .arg("confirm")
        .arg(case)
        .stdout(std::process::Stdio::piped())
        .stderr(std::process::Stdio::null())
        .spawn()
        .expect("spawn confirm");
    let stdout = ch.stdout.take().unwrap();
    let (tx, rx) = std::sync::mpsc::channel();
    std::thread::spawn(move || {
        for l in std::io::BufReader::new(stdout).lines().flatten() {
            let _ = tx.send(l);
        }
    });
    // wait for "ready" (VM built, library loaded), then give the program `secs` seconds
    let mut ready = false;
    let t0 = std::time::Instant::now();
    let mut deadline = std::time::Duration::from_secs(120);
    loop {
        match rx.recv_timeout(std::time::Duration::from_millis(100)) {
            Ok(l) if l == "ready" => {
                ready = true;
                deadline = t0.elapsed() + std::time::Duration::from_secs(secs);
            }
            Ok(l) => {
                let _ = ch.kill();
                let _ = ch.wait();
                return (false, l);
            }
            Err(_) => {
                if t0.elapsed() > deadline {
                    let _ = ch.kill();
                    let _ = ch.wait();
                    return (ready, if ready { format!("still blocked after {} s", secs) } else { "vm never became ready".into() });
                }
                if let Ok(Some(st)) = ch.try_wait() {
                    // drain what the child printed before exiting
                    if let Ok(l) = rx.recv_timeout(std::time::Duration::from_millis(200)) {
                        if l != "ready" {
                            return (false, l);
                        }
                        if let Ok(l2) = rx.recv_timeout(std::time::Duration::from_millis(200)) {
                            return (false, l2);
                        }
                    }
                    return (false, format!("exited {:?}", st));
                }
            }
        }
    }
}

/// Parent side: run all cases on `workers` children with a progress watchdog.
fn run_all(cases: &[String], dir: &std::path::Path, workers: usize) -> Vec<String> {
    let exe = std::env::current_exe().unwrap();
    let n = cases.len();
    let mut results: Vec<Option<String>> = vec![None; n];
    // round-robin sharding keeps expensive neighbourhoods spread over the workers
    let mut shards: Vec<Vec<usize>> = vec![vec![]; workers];
    for i in 0..n {
        shards[i % workers].push(i);
    }
    struct W {
        shard: Vec<usize>,
        pos: usize, // next position of the shard not yet accounted for
        child: Option<std::process::Child>,
        inp: std::path::PathBuf,
        outp: std::path::PathBuf,
        read_off: u64,
        last_progress: std::time::Instant,
    }
    let mut ws: Vec<W> = shards
        .into_iter()
        .enumerate()
        .map(|(k, shard)| W {
            shard,
            pos: 0,
            child: None,
            inp: dir.join(format!("shard{}.in", k)),
            outp: dir.join(format!("shard{}.out", k)),
            read_off: 0,
            last_progress: std::time::Instant::now(),
        })
        .collect();
    let start = |w: &mut W| {
        let mut f = std::io::BufWriter::new(std::fs::File::create(&w.inp).unwrap());
        for &i in &w.shard[w.pos..] {
            writeln!(f, "{}\t{}", i, cases[i]).unwrap();
        }
        f.flush().unwrap();
        drop(f);
        std::fs::File::create(&w.outp).unwrap();
        w.read_off = 0;
        w.last_progress = std::time::Instant::now();
        w.child = Some(
            std::process::Command::new(&exe)
                .arg("child")
                .arg(&w.inp)
                .arg(&w.outp)
                .stdout(std::process::Stdio::null())
                .stderr(std::process::Stdio::null())
                .spawn()
                .expect("spawn worker"),
        );
    };
    for w in ws.iter_mut() {
        if !w.shard.is_empty() {
            start(w);
        }
    }
    loop {
        let mut active = false;
        for w in ws.iter_mut() {
            if w.pos >= w.shard.len() {
                if let Some(mut c) = w.child.take() {
                    let _ = c.wait();
                }
                continue;
            }
            active = true;
            let exited = match w.child.as_mut() {
                Some(c) => c.try_wait().ok().flatten(),
                None => None,
            };
            // collect complete lines (after looking at the exit status, so nothing written
            // before the exit is missed)
            let mut text = Vec::new();
            if let Ok(mut f) = std::fs::File::open(&w.outp) {
                use std::io::{Read, Seek};
                if f.seek(std::io::SeekFrom::Start(w.read_off)).is_ok() {
                    let _ = f.read_to_end(&mut text);
                }
            }
            let new = &text[..];
            if let Some(last_nl) = new.iter().rposition(|b| *b == b'\n') {
                for line in String::from_utf8_lossy(&new[..last_nl]).lines() {
                    if let Some((idx, res)) = line.split_once('\t') {
                        let idx: usize = idx.parse().unwrap();
                        assert_eq!(idx, w.shard[w.pos], "worker answered out of order");
                        results[idx] = Some(res.to_string());
                        w.pos += 1;
                    }
                }
                w.read_off += last_nl as u64 + 1;
                w.last_progress = std::time::Instant::now();
            }
            if w.pos >= w.shard.len() {
                continue;
            }
            let stalled = w.last_progress.elapsed().as_secs() > WATCHDOG_SECS;
            if exited.is_some() || stalled {
                if let Some(mut c) = w.child.take() {
                    let _ = c.kill();
                    let _ = c.wait();
                }
                let idx = w.shard[w.pos];
                results[idx] = Some(match exited {
                    Some(st) => format!("CRASH worker {:?}", st),
                    None => "HANG(watchdog)".to_string(),
                });
                w.pos += 1;
                if w.pos < w.shard.len() {
                    start(w);
                }
            }
        }
        if !active {
            break;
        }
        std::thread::sleep(std::time::Duration::from_millis(20));
    }
    results.into_iter().map(|r| r.unwrap_or_else(|| "MISSING".into())).collect()
}

// ---------------------------------------------------------------------------------------
// generators
// ---------------------------------------------------------------------------------------
/// Gives every value-carrying operation a fresh value (1, 2, 3, … in textual order), so that
/// order and duplication of values are visible in the observations.
fn renumber(ops: &mut [Op]) {
    fn go(body: &mut [Bop], k: &mut u32) {
        for b in body.iter_mut() {
            match b {
                Bop::Send(_, v) | Bop::Store(_, v) => {
                    *k += 1;
                    *v = *k
                }
                Bop::Spawn(_, inner) => go(inner, k),
                _ => {}
            }
        }
    }
    let mut k = 0u32;
    for o in ops.iter_mut() {
        match o {
            Op::B(b) => go(std::slice::from_mut(b), &mut k),
            Op::Ref(v) => {
                k += 1;
                *v = k
            }
            Op::Lazy(b) => {
                if let LRes::Val(v) = &mut b.res {
                    k += 1;
                    *v = k
                }
            }
        }
    }
}

fn is_creation(o: &Op) -> bool {
    matches!(o, Op::Ref(_) | Op::Lazy(_) | Op::B(Bop::Spawn(..)))
}

/// does some coroutine body resume or spawn a coroutine?
fn has_nested(ops: &[Op]) -> bool {
    fn body_has(body: &[Bop]) -> bool {
        body.iter().any(|b| matches!(b, Bop::Resume(_) | Bop::Spawn(..)))
    }
    ops.iter().any(|o| matches!(o, Op::B(Bop::Spawn(_, body)) if body_has(body)))
}

struct Family {
    name: &'static str,
    prefix: Vec<Op>,
    /// the operations available in a scope (values are placeholders, labels provisional)
    alphabet: Box<dyn Fn(&Scope) -> Vec<Op>>,
    quick: usize,
    thorough: usize,
    describe: &'static str,
}

fn scope_push(sc: &mut Scope, o: &Op) {
    match o {
        Op::Ref(_) => sc.nr += 1,
        Op::Lazy(_) => sc.nl += 1,
        Op::B(Bop::Spawn(lab, body)) => {
            sc.vis.push(*lab);
            sc.next = sc.next.max(*lab + 1).max(max_label(body).map(|m| m + 1).unwrap_or(0));
        }
        _ => {}
    }
}

fn scope_after(ops: &[Op]) -> Scope {
    let mut sc = Scope::default();
    for o in ops {
        scope_push(&mut sc, o);
    }
    sc
}

/// All sequences prefix ++ w, 1 <= |w| <= maxlen, w over the family's alphabet, whose last
/// operation is not an allocation (an allocation nobody uses is not observable).
fn enumerate(f: &Family, maxlen: usize, emit: &mut dyn FnMut(Vec<Op>)) {
    fn go(f: &Family, cur: &mut Vec<Op>, sc: &Scope, left: usize, emit: &mut dyn FnMut(Vec<Op>)) {
        if left == 0 {
            return;
        }
        for o in (f.alphabet)(sc) {
            let mut sc2 = sc.clone();
            scope_push(&mut sc2, &o);
            let creation = is_creation(&o);
            cur.push(o);
            if !creation {
                let mut c = cur.clone();
                normalize_labels(&mut c);
                renumber(&mut c);
                emit(c);
            }
            go(f, cur, &sc2, left - 1, emit);
            cur.pop();
        }
    }
    let mut cur = f.prefix.clone();
    let sc = scope_after(&cur);
    go(f, &mut cur, &sc, maxlen, emit);
}

fn lazy_menu(sc: &Scope, with_plain: bool) -> Vec<Op> {
    let mut v = vec![];
    let bumps: Vec<Option<usize>> = if sc.nr > 0 {
        if with_plain { vec![Some(sc.nr - 1), None] } else { vec![Some(sc.nr - 1)] }
    } else {
        vec![None]
    };
    for bump in bumps {
        v.push(Op::Lazy(LBody { bump, res: LRes::Val(0) }));
        v.push(Op::Lazy(LBody { bump, res: LRes::Fail }));
        v.push(Op::Lazy(LBody { bump, res: LRes::Force(sc.nl) })); // self-dependent
        if sc.nl > 0 {
            v.push(Op::Lazy(LBody { bump, res: LRes::Force(sc.nl - 1) }));
        }
    }
    v
}

fn families() -> Vec<Family> {
    use Bop::*;
    let b = |x: Bop| Op::B(x);
    let spawn = |sc: &Scope, body: Vec<Bop>| Op::B(Spawn(sc.next, body));
    vec![
        Family {
            name: "chan",
            prefix: vec![],
            alphabet: Box::new(move |_| vec![b(Send(0, 0)), b(Send(1, 0)), b(Recv(0)), b(Recv(1))]),
            quick: 6,
            thorough: 7,
            describe: "send/recv on 2 channels, main thread only",
        },
        Family {
            name: "ref",
            prefix: vec![],
            alphabet: Box::new(move |sc| {
                let mut v = vec![];
                if sc.nr < 2 {
                    v.push(Op::Ref(0));
                }
                for r in 0..sc.nr {
                    v.push(b(Load(r)));
                    v.push(b(Store(r, 0)));
                }
                v
            }),
            quick: 6,
            thorough: 8,
            describe: "ref/load/store on up to 2 references, main thread only",
        },
        Family {
            name: "lazy-seq",
            prefix: vec![Op::Ref(0)],
            alphabet: Box::new(move |sc| {
                let mut v = vec![];
                if sc.nl < 2 {
                    v.extend(lazy_menu(sc, false));
                }
                for l in 0..sc.nl {
                    v.push(b(Force(l)));
                }
                v.push(b(Load(0)));
                v
            }),
            quick: 6,
            thorough: 8,
            describe: "after `ref`: up to 2 lazies (value / failing / self-dependent / forcing the previous one, each bumping the reference), force, load; main thread only",
        },
        Family {
            name: "lazy-threads",
            prefix: vec![Op::Ref(0)],
            alphabet: Box::new(move |sc| {
                let mut v = vec![];
                if sc.nl < 2 {
                    v.extend(lazy_menu(sc, false));
                }
                for l in 0..sc.nl {
                    v.push(b(Force(l)));
                }
                if sc.vis.len() < 2 && sc.nl > 0 {
                    v.push(spawn(sc, vec![Force(0)]));
                    v.push(spawn(sc, vec![Force(sc.nl - 1), Yield, Force(0), Load(0)]));
                }
                for t in &sc.vis {
                    v.push(b(Resume(*t)));
                }
                v.push(b(Load(0)));
                v
            }),
            quick: 5,
            thorough: 6,
            describe: "after `ref`: up to 2 lazies, up to 2 coroutines forcing them, force on the main thread, resume, load",
        },
        Family {
            name: "threads",
            prefix: vec![Op::Ref(0)],
            alphabet: Box::new(move |sc| {
                let mut v = vec![b(Send(0, 0)), b(Recv(0)), b(Yield), b(Load(0))];
                if sc.vis.len() < 3 {
                    v.push(spawn(sc, vec![Send(0, 0), Yield, Send(0, 0)]));
                    v.push(spawn(sc, vec![Recv(0), Store(0, 0), Yield, Recv(0)]));
                    v.push(spawn(sc, vec![]));
                }
                for t in &sc.vis {
                    v.push(b(Resume(*t)));
                }
                v
            }),
            quick: 4,
            thorough: 5,
            describe: "after `ref`: send/recv on one channel, load, main-thread yield, up to 3 coroutines (producer, consumer storing what it received, empty), resume",
        },
        Family {
            name: "co-threads",
            prefix: vec![],
            alphabet: Box::new(move |sc| {
                let mut v = vec![b(Send(0, 0)), b(Recv(0))];
                if sc.vis.len() < 3 {
                    let n = sc.next;
                    // a producer
                    v.push(spawn(sc, vec![Send(0, 0), Yield, Send(0, 0)]));
                    // a coroutine with a coroutine of its own
                    v.push(spawn(sc, vec![Spawn(n + 1, vec![Send(0, 0), Yield, Send(0, 0)]), Resume(n + 1), Yield, Resume(n + 1), Resume(n + 1)]));
                    if let Some(&t) = sc.vis.last() {
                        // a driver: resumes a sibling spawned before it
                        v.push(spawn(sc, vec![Resume(t), Send(0, 0), Yield, Resume(t), Send(0, 0)]));
                        // its child resumes the sibling of its parent
                        v.push(spawn(sc, vec![Spawn(n + 1, vec![Resume(t), Yield, Send(0, 0)]), Resume(n + 1), Resume(t), Resume(n + 1)]));
                    }
                    if sc.vis.len() >= 2 {
                        let (t0, t1) = (sc.vis[0], sc.vis[sc.vis.len() - 1]);
                        v.push(spawn(sc, vec![Resume(t0), Resume(t1), Yield, Resume(t1), Resume(t0)]));
                    }
                }
                for t in &sc.vis {
                    v.push(b(Resume(*t)));
                }
                v
            }),
            quick: 5,
            thorough: 6,
            describe: "coroutines operating on coroutines: send/recv on one channel, resume from the main thread, up to 3 main-level coroutines out of {producer; coroutine that spawns, resumes and outlives a producer of its own; driver resuming the sibling spawned before it; coroutine whose child resumes the parent's sibling; driver of two siblings}",
        },
        Family {
            name: "all",
            prefix: vec![],
            alphabet: Box::new(move |sc| {
                let mut v = vec![b(Send(0, 0)), b(Send(1, 0)), b(Recv(0)), b(Recv(1)), b(Yield)];
                if sc.nr < 2 {
                    v.push(Op::Ref(0));
                }
                for r in 0..sc.nr {
                    v.push(b(Load(r)));
                    v.push(b(Store(r, 0)));
                }
                if sc.nl < 2 {
                    v.extend(lazy_menu(sc, true));
                }
                for l in 0..sc.nl {
                    v.push(b(Force(l)));
                }
                if sc.vis.len() < 3 {
                    v.push(spawn(sc, vec![Send(0, 0), Yield, Recv(1)]));
                    if sc.nl > 0 {
                        v.push(spawn(sc, vec![Force(sc.nl - 1), Send(1, 0), Yield, Force(0)]));
                    }
                    if sc.nr > 0 {
                        v.push(spawn(sc, vec![Load(sc.nr - 1), Yield, Store(0, 0)]));
                    }
                    if let Some(&t) = sc.vis.last() {
                        v.push(spawn(sc, vec![Resume(t), Send(1, 0), Yield, Resume(t)]));
                    }
                }
                for t in &sc.vis {
                    v.push(b(Resume(*t)));
                }
                v
            }),
            quick: 4,
            thorough: 5,
            describe: "the whole alphabet {send, recv, ref, load, store, lazy (up to 8 bodies), force, spawn (4 bodies, one resuming a sibling), resume, yield} on 2 channels, up to 2 references, 2 lazies, 3 coroutines",
        },
    ]
}

/// A random coroutine body; `vis` = handles visible where the body is created.
fn random_body(rng: &mut Rng, nr: usize, nl: usize, vis: &[usize], next: &mut usize, depth: u32, maxlen: u64) -> Vec<Bop> {
    let n = rng.below(maxlen + 1) as usize;
    let mut vis = vis.to_vec();
    let mut body = vec![];
    while body.len() < n {
        let b = match rng.below(14) {
            0 | 1 => Bop::Send(rng.below(2) as usize, 0),
            2 | 3 => Bop::Recv(rng.below(2) as usize),
            4 if nr > 0 => Bop::Load(rng.below(nr as u64) as usize),
            5 if nr > 0 => Bop::Store(rng.below(nr as u64) as usize, 0),
            6 | 7 if nl > 0 => Bop::Force(rng.below(nl as u64) as usize),
            8 | 9 => Bop::Yield,
            10 | 11 | 12 if !vis.is_empty() => Bop::Resume(*rng.pick(&vis)),
            13 if depth > 0 => {
                let lab = *next;
                *next += 1;
                let inner = random_body(rng, nr, nl, &vis, next, depth - 1, 4);
                vis.push(lab);
                Bop::Spawn(lab, inner)
            }
            _ => continue,
        };
        body.push(b);
    }
    body
}

fn random_case(rng: &mut Rng, len: usize, max_cells: usize, max_threads: usize) -> Vec<Op> {
    let mut ops = vec![];
    let mut sc = Scope::default();
    while ops.len() < len {
        let o = match rng.below(16) {
            0 if sc.nr < max_cells => Op::Ref(0),
            1 | 2 if sc.nl < max_cells => {
                let bump = if sc.nr > 0 && rng.chance(2, 3) { Some(rng.below(sc.nr as u64) as usize) } else { None };
                let res = match rng.below(6) {
                    0 | 1 => LRes::Val(0),
                    2 | 3 => LRes::Fail,
                    4 => LRes::Force(sc.nl),
                    _ => LRes::Force(rng.below(sc.nl as u64 + 1) as usize),
                };
                Op::Lazy(LBody { bump, res })
            }
            3 | 4 if sc.vis.len() < max_threads => {
                let lab = sc.next;
                let mut next = lab + 1;
                let body = random_body(rng, sc.nr, sc.nl, &sc.vis, &mut next, 2, 5);
                Op::B(Bop::Spawn(lab, body))
            }
            5 | 6 | 7 | 8 if !sc.vis.is_empty() => Op::B(Bop::Resume(*rng.pick(&sc.vis))),
            9..=15 => {
                let b = match rng.below(10) {
                    0 | 1 => Bop::Send(rng.below(2) as usize, 0),
                    2 | 3 => Bop::Recv(rng.below(2) as usize),
                    4 if sc.nr > 0 => Bop::Load(rng.below(sc.nr as u64) as usize),
                    5 if sc.nr > 0 => Bop::Store(rng.below(sc.nr as u64) as usize, 0),
                    6 | 7 | 8 if sc.nl > 0 => Bop::Force(rng.below(sc.nl as u64) as usize),
                    9 => Bop::Yield,
                    _ => continue,
                };
                Op::B(b)
            }
            _ => continue,
        };
        scope_push(&mut sc, &o);
        ops.push(o);
    }
    normalize_labels(&mut ops);
    renumber(&mut ops);
    ops
}

// ---------------------------------------------------------------------------------------
fn main() {
    let argv: Vec<String> = std::env::args().collect();
    if argv.len() >= 4 && argv[1] == "child" {
        return child_main(&argv[2], &argv[3]);
    }
    if argv.len() >= 3 && argv[1] == "confirm" {
        return confirm_main(&argv[2]);
    }
    if argv.len() >= 3 && argv[1] == "runfile" {
        // evaluate a hand-written Gluon program with c17lib loaded (debugging aid)
        let src = std::fs::read_to_string(&argv[2]).expect("file");
        let vm = new_vm();
        println!("{}", eval(&vm, &src).0);
        return;
    }
    if argv.len() >= 3 && argv[1] == "source" {
        // print the Gluon program of a case (debugging aid)
        print!("{}", program(&parse_case(&argv[2]).expect("case")));
        return;
    }
    let args = Args::parse();

    if let Some(path) = &args.replay {
        let v: serde_json::Value = serde_json::from_str(&std::fs::read_to_string(path).expect("replay file")).expect("json");
        let case = v["case"]["ops"].as_str().expect("case.ops").to_string();
        let ops = parse_case(&case).expect("case");
        println!("ops: {}", case);
        println!("--- Gluon program ---\n{}---", program(&ops));
        let vm = new_vm();
        let (res, _) = eval(&vm, &program(&ops));
        println!("impl (polled executor): {}", res);
        if res.starts_with("HANG") {
            let (hung, what) = confirm_hang(&case, 5);
            println!("impl (blocking run_expr in a child, 5 s watchdog): {}", if hung { format!("HANGS ({})", what) } else { what });
        }
        println!("expected (model, mode fixed = what C17 demands): {}", v["expected"].as_str().unwrap_or("?"));
        println!("model of the unchanged lazy.rs (mode faithful): {}", v["extra"]["faithful_model"].as_str().unwrap_or("?"));
        return;
    }

    let mut cases: Vec<Vec<Op>> = vec![];
    let mut family_of: Vec<String> = vec![];
    let mut hist = Hist::default();

    // corpus first
    let corpus_dir = std::path::Path::new(env!("CARGO_MANIFEST_DIR")).join("../corpus/C17");
    let mut corpus_files: Vec<_> = std::fs::read_dir(&corpus_dir).map(|d| d.flatten().map(|e| e.path()).collect()).unwrap_or_else(|_| vec![]);
    corpus_files.sort();
    for p in corpus_files {
        for line in std::fs::read_to_string(&p).unwrap_or_default().lines() {
            let line = line.trim();
            if line.is_empty() || line.starts_with('#') {
                continue;
            }
            let ops = parse_case(line).unwrap_or_else(|e| panic!("corpus {}: {}", p.display(), e));
            assert!(well_scoped(&ops), "corpus case not well scoped: {}", line);
            cases.push(ops);
            family_of.push("corpus".into());
        }
    }
    let n_corpus = cases.len();

    // exhaustive families
    let fams = families();
    let only: Option<&String> = args.extra.get("family");
    let mut bounds = serde_json::Map::new();
    for f in &fams {
        if let Some(o) = only {
            if o != f.name {
                continue;
            }
        }
        let maxlen: usize = args
            .extra
            .get(&format!("len_{}", f.name.replace('-', "_")))
            .and_then(|s| s.parse().ok())
            .unwrap_or(if args.thorough() { f.thorough } else { f.quick });
        let before = cases.len();
        enumerate(f, maxlen, &mut |c| {
            debug_assert!(well_scoped(&c));
            cases.push(c);
            family_of.push(f.name.to_string());
        });
        bounds.insert(
            f.name.to_string(),
            serde_json::json!({"max_len": maxlen, "prefix": case_text(&f.prefix), "cases": cases.len() - before, "alphabet": f.describe}),
        );
    }
    let n_exh = cases.len() - n_corpus;

    // random sequences up to length 30
    let mut rng = Rng::new(args.seed);
    let nrand: usize = args.extra.get("random").and_then(|s| s.parse().ok()).unwrap_or(if args.thorough() { 20000 } else { 3000 });
    if only.is_none() || only.map(|s| s == "random").unwrap_or(false) {
        for i in 0..nrand {
            let len = 4 + rng.below(27) as usize;
            let (mc, mt) = if i % 3 == 0 { (3, 4) } else { (2, 3) };
            let c = random_case(&mut rng, len, mc, mt);
            assert!(well_scoped(&c));
            cases.push(c);
            family_of.push("random".into());
        }
    }

    if args.extra.contains_key("count") {
        for (k, v) in &bounds {
            println!("{} {}", k, v);
        }
        println!("total {}", cases.len());
        return;
    }

    let texts: Vec<String> = cases.iter().map(|c| case_text(c)).collect();
    let workers: usize = args
        .extra
        .get("workers")
        .and_then(|s| s.parse().ok())
        .unwrap_or_else(|| std::thread::available_parallelism().map(|n| n.get()).unwrap_or(4).clamp(2, 8));
    let shard_dir = args.out.join("shards");
    std::fs::create_dir_all(&shard_dir).unwrap();
    let t0 = std::time::Instant::now();
    let mut results = run_all(&texts, &shard_dir, workers);
    let run_secs = t0.elapsed().as_secs_f64();

    // confirm hangs with the blocking executor: every corpus hang and the first few others
    // (all confirmations run concurrently, each in its own child process)
    let mut confirmed = 0u32;
    let mut confirm_failed = 0u32;
    let mut budget = if args.thorough() { 6 } else { 3 };
    let mut to_confirm = vec![];
    for i in 0..results.len() {
        if results[i] != "HANG" {
            continue;
        }
        let is_corpus = i < n_corpus;
        if !is_corpus && budget == 0 {
            continue;
        }
        if !is_corpus {
            budget -= 1;
        }
        to_confirm.push(i);
    }
    let handles: Vec<_> = to_confirm
        .iter()
        .map(|&i| {
            let case = texts[i].clone();
            std::thread::spawn(move || (i, confirm_hang(&case, 4)))
        })
        .collect();
    for h in handles {
        let (i, (hung, what)) = h.join().expect("confirm thread");
        if hung {
            confirmed += 1;
        } else {
            confirm_failed += 1;
            results[i] = format!("HANG-NOT-CONFIRMED blocking run_expr: {}", what);
        }
    }

    let mut model_in = args.file("model_in.txt");
    let mut impl_out = args.file("impl_out.txt");
    let mut cases_f = args.file("cases.txt");
    let mut distinct = std::collections::HashSet::new();
    let mut nontrivial = 0u64;
    for (i, t) in texts.iter().enumerate() {
        writeln!(model_in, "fixed {}", t).unwrap();
        writeln!(impl_out, "{}", results[i]).unwrap();
        writeln!(cases_f, "{}", t).unwrap();
        let c = &cases[i];
        hist.add(&format!("family:{}", family_of[i]));
        hist.add(&format!("len:{:02}", c.len()));
        let kind = results[i].split(|ch: char| ch == ' ' || ch == '(').next().unwrap_or("");
        hist.add(&format!(
            "impl:{}",
            if ["HANG", "ERROR", "PANIC", "CRASH", "EXCEPTION", "MISSING", "HANG-NOT-CONFIRMED"].contains(&kind) { kind } else { "log" }
        ));
        for o in c {
            hist.add(match o {
                Op::B(Bop::Send(..)) => "op:send",
                Op::B(Bop::Recv(..)) => "op:recv",
                Op::B(Bop::Load(..)) => "op:load",
                Op::B(Bop::Store(..)) => "op:store",
                Op::B(Bop::Force(..)) => "op:force",
                Op::B(Bop::Yield) => "op:yield",
                Op::Ref(..) => "op:ref",
                Op::Lazy(..) => "op:lazy",
                Op::B(Bop::Spawn(..)) => "op:spawn",
                Op::B(Bop::Resume(..)) => "op:resume",
            });
        }
        if has_nested(c) {
            hist.add("feature:coroutine-resumes-or-spawns-coroutine");
        }
        for tok in results[i].split_whitespace() {
            if let Some((_, o)) = tok.split_once(':') {
                let k = match o.chars().next() {
                    Some('x') => "obs:force-error",
                    Some('f') => "obs:force-value",
                    Some('e') => "obs:recv-empty",
                    Some('r') => "obs:recv-value",
                    Some('D') => "obs:resume-dead",
                    Some('R') => "obs:resume-ok",
                    _ => continue,
                };
                hist.add(k);
            }
        }
        let observing = c.iter().filter(|o| !is_creation(o)).count();
        if c.len() >= 2 && observing >= 1 && distinct.insert(fnv(t.as_bytes())) {
            nontrivial += 1;
        }
    }
    model_in.flush().unwrap();
    impl_out.flush().unwrap();
    cases_f.flush().unwrap();
    gvh::out::write_json(
        &args.out.join("stats.json"),
        &serde_json::json!({
            "evaluations": texts.len(),
            "distinct_nontrivial": nontrivial,
            "rule": "one evaluation = one operation sequence compiled to a Gluon program and run on the real VM; non-trivial = at least two operations of which at least one is not an allocation, distinct by sequence text",
            "corpus": n_corpus,
            "exhaustive": n_exh,
            "random": texts.len() - n_corpus - n_exh,
            "exhaustive_bounds": bounds,
            "workers": workers,
            "run_seconds": run_secs,
            "programs_per_second": texts.len() as f64 / run_secs.max(0.001),
            "hangs_confirmed_with_blocking_run_expr": confirmed,
            "hangs_not_confirmed": confirm_failed,
            "hist": hist.to_json(),
        }),
    );
}
