use gluon::ThreadExt;
fn main() {
    let a: Vec<String> = std::env::args().collect();
    let lib = std::fs::read_to_string(&a[2]).unwrap();
    let src = std::fs::read_to_string(&a[3]).unwrap();
    let vm = gluon::VmBuilder::new().build();
    vm.run_io(true);
    let t0 = std::time::Instant::now();
    vm.load_script("c17lib", &lib).unwrap_or_else(|e| panic!("{}", e));
    println!("lib in {:?}", t0.elapsed());
    for i in 0..30 {
        let t0 = std::time::Instant::now();
        let r = vm.run_expr::<gluon::vm::api::IO<String>>("probe", &src);
        let el = t0.elapsed();
        match r {
            Ok((gluon::vm::api::IO::Value(s), _)) => { if i == 0 { println!("{}", s) }; println!("OK {}", el.as_micros()) }
            Ok((gluon::vm::api::IO::Exception(s), _)) => println!("EXC {}", s),
            Err(e) => { println!("ERR {}", e); break }
        }
    }
}
