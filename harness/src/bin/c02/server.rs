//! The child process: a line server that runs programs on the REAL implementation.
//!
//! Request  (one JSON line): {"id": n, "bits": 0..31, "main": src, "modules": [[name, src]…], "mode": "run"|"check"}
//! Response (one JSON line): see [`Reply`].
//!
//! `bits`: bit 0 implicit_prelude, 1 optimize, 2 emit_debug_info, 3 run_io, 4 full_metadata
//! (src/lib.rs Settings).  One long-lived VM per combination, renewed every RENEW evaluations
//! (the compiler database keeps one file map per module) and after every panic / interrupt.
//! A watchdog thread interrupts an evaluation that runs longer than WATCHDOG_MS
//! (mutants may loop); the parent additionally kills a child that stops answering.
use crate::ty;
use gluon::query::CompilationBase;
use gluon::vm::api::{Hole, OpaqueValue};
use gluon::vm::thread::ThreadInternal;
use gluon::{RootedThread, ThreadExt};
use gvh::mg;
use serde_json::json;
use std::cell::RefCell;
use std::collections::HashMap;
use std::io::{BufRead, Write};
use std::sync::{Arc, Mutex};

const RENEW: u32 = 1200;
/// prefix of a reply line (everything else on the child's stdout is program output)
pub const REPLY_MARK: &str = "\u{1}C02REPLY ";
const WATCHDOG_MS: u64 = 4000;
/// heap limit of every VM (bytes) and bound of its value stack (slots)
const MEMORY_LIMIT: usize = 64 << 20;
const STACK_LIMIT: u32 = 1 << 20;

pub const SETTING_NAMES: [&str; 5] = ["implicit_prelude", "optimize", "emit_debug_info", "run_io", "full_metadata"];

pub fn bits_name(bits: u32) -> String {
    (0..5).map(|i| format!("{}={}", SETTING_NAMES[i], (bits >> i) & 1)).collect::<Vec<_>>().join(",")
}

thread_local! {
    static PANIC_AT: RefCell<Option<String>> = RefCell::new(None);
}

fn install_panic_hook() {
    std::panic::set_hook(Box::new(|info| {
        let loc = info.location().map(|l| format!("{}:{}", l.file(), l.line())).unwrap_or_default();
        eprintln!("C02PANIC at {}: {}", loc, info.to_string().lines().next().unwrap_or(""));
        PANIC_AT.with(|p| *p.borrow_mut() = Some(loc));
    }));
}

fn new_vm(bits: u32) -> RootedThread {
    let vm = gluon::VmBuilder::new().build();
    {
        let mut db = vm.get_database_mut();
        db.set_implicit_prelude(bits & 1 != 0);
        db.set_optimize(bits & 2 != 0);
        db.set_emit_debug_info(bits & 4 != 0);
        db.set_run_io(bits & 8 != 0);
        db.set_full_metadata(bits & 16 != 0);
    }
    mg::run::register_eff(&vm);
    // a runaway program (a mutant whose recursion lost its base case) must end in the permitted
    // failures OutOfMemory / StackOverflow instead of exhausting the machine
    vm.set_memory_limit(MEMORY_LIMIT);
    vm.context().set_max_stack_size(STACK_LIMIT);
    vm
}

struct Slot {
    vm: RootedThread,
    uses: u32,
    bits: u32,
}

fn panic_text(p: Box<dyn std::any::Any + Send>) -> String {
    if let Some(s) = p.downcast_ref::<String>() {
        s.clone()
    } else if let Some(s) = p.downcast_ref::<&str>() {
        s.to_string()
    } else {
        "panic".to_string()
    }
}

/// What one evaluation produced.
/// status: "rejected" (parse / macro / type error: the checker did not accept),
///         "checker-panic" (the front end itself panicked: not an accepted program),
///         "value", "error" (accepted; ran),
///         "panic" (accepted, then a Rust panic in compiler or VM), "interrupted"
fn evaluate(slot: &mut Slot, current: &Arc<Mutex<Option<(RootedThread, std::time::Instant)>>>, id: u64, main: &str, modules: &[(String, String)], check_only: bool) -> serde_json::Value {
    let vm = slot.vm.clone();
    slot.uses += 1;
    {
        let mut db = vm.get_database_mut();
        for (name, src) in modules {
            db.add_module(name.clone(), src);
        }
    }
    let name = format!("c02_{}", id);
    if check_only {
        PANIC_AT.with(|p| *p.borrow_mut() = None);
        let r = std::panic::catch_unwind(std::panic::AssertUnwindSafe(|| vm.typecheck_str(&name, main, None)));
        return match r {
            Ok(Ok((_, t))) => json!({"id": id, "status": "accepted", "type": format!("{}", t).split_whitespace().collect::<Vec<_>>().join(" ")}),
            Ok(Err(e)) => json!({"id": id, "status": "rejected", "msg": first_lines(&format!("{}", e))}),
            Err(p) => {
                slot.uses = RENEW;
                let at = PANIC_AT.with(|p| p.borrow().clone());
                // `typecheck_str` compiles and runs the modules the program imports: a panic inside
                // the compiler / VM (vm/src) means an imported module had been ACCEPTED and then
                // failed; let the run phase see it
                if at.as_deref().map_or(false, |a| a.contains("/vm/src/")) {
                    json!({"id": id, "status": "accepted", "type": "?", "note": "an imported module panics in the compiler"})
                } else {
                    json!({"id": id, "status": "checker-panic", "msg": panic_text(p), "at": at})
                }
            }
        };
    }
    mg::run::log_clear();
    PANIC_AT.with(|p| *p.borrow_mut() = None);
    *current.lock().unwrap() = Some((vm.clone(), std::time::Instant::now()));
    let r = std::panic::catch_unwind(std::panic::AssertUnwindSafe(|| match vm.run_expr::<OpaqueValue<RootedThread, Hole>>(&name, main) {
        Ok((v, t)) => {
            let raw = mg::value::canon(&vm, v.get_variant());
            let (tsexp, opaque) = ty::reported_type_sexp(&t);
            Ok((raw, tsexp, opaque, format!("{}", t).split_whitespace().collect::<Vec<_>>().join(" ")))
        }
        Err(e) => Err(e),
    }));
    *current.lock().unwrap() = None;
    let log = mg::run::log_take();
    match r {
        Ok(Ok((raw, tsexp, opaque, printed))) => json!({"id": id, "status": "value", "value": raw, "tsexp": tsexp, "type": printed, "opaque": opaque, "log": log}),
        Ok(Err(e)) => {
            let text = format!("{}", e);
            let kind = mg::run::classify(&e);
            let interrupted = text.contains("Thread was interrupted");
            if interrupted {
                slot.uses = RENEW; // the flag is never cleared
            }
            let (status, class) = match &kind {
                mg::run::ErrKind::Parse(_) | mg::run::ErrKind::Typecheck(_) => ("rejected", "rejected"),
                _ if interrupted => ("interrupted", "interrupted"),
                k => ("error", mg::run::Outcome::Err(k.clone(), vec![]).class()),
            };
            let detail = match &kind {
                mg::run::ErrKind::Explicit(m) => m.clone(),
                _ => String::new(),
            };
            json!({"id": id, "status": status, "class": class, "detail": detail, "msg": first_lines(&text), "complaint": complaint_in(&text), "log": log})
        }
        Err(p) => {
            slot.uses = RENEW;
            let at = PANIC_AT.with(|p| p.borrow().clone());
            let msg = panic_text(p);
            // was the program accepted?  ask the checker alone, on a fresh VM
            let fresh = new_vm(slot.bits);
            {
                let mut db = fresh.get_database_mut();
                for (name, src) in modules {
                    db.add_module(name.clone(), src);
                }
            }
            let chk = std::panic::catch_unwind(std::panic::AssertUnwindSafe(|| fresh.typecheck_str(&name, main, None)));
            // a panic inside vm/src (core translation, bytecode compiler, interpreter) happens after
            // the checker accepted the code that was being compiled (the program or an imported module)
            let in_vm = at.as_deref().map_or(false, |a| a.contains("/vm/src/"));
            let status = match chk {
                _ if in_vm => "panic",
                Ok(Ok(_)) => "panic",
                Ok(Err(_)) => "rejected",
                Err(_) => "checker-panic",
            };
            json!({"id": id, "status": status, "msg": msg, "at": at, "log": log})
        }
    }
}

/// The VM's dynamic shape complaints and internal-error texts (vm/src/thread.rs:2347 GetOffset,
/// :2360 GetField, :2369/:2384 TestTag, :2411 Split, :2784 "Cannot call", :1913/:2004 "Unexpected
/// error calling function", :1983 "Popped the last frame", ice! texts of base/src/macros.rs,
/// vm/src/api/mod.rs "expected ValueRef to be", vm/src/lib.rs UndefinedBinding / UndefinedField).
pub const COMPLAINTS: [&str; 16] = [
    "Cannot call",
    "GetOffset on",
    "GetField on",
    "TestTag called on non data type",
    "Split called on non data type",
    "Unexpected error calling function",
    "Popped the last frame",
    "Expected closure, got",
    "Expected excess arg",
    "does not exist. Please report",
    "ICE",
    "Please report an issue",
    "internal compiler error",
    "expected ValueRef to be",
    "Binding `",
    "` does not have the field `",
];

pub fn complaint_in(text: &str) -> Option<&'static str> {
    COMPLAINTS.iter().copied().find(|c| text.contains(c))
}

fn first_lines(s: &str) -> String {
    let v: Vec<&str> = s.lines().map(|l| l.trim()).filter(|l| !l.is_empty()).take(4).collect();
    let mut t = v.join(" | ");
    if t.len() > 600 {
        let mut cut = 600;
        while !t.is_char_boundary(cut) {
            cut -= 1;
        }
        t.truncate(cut);
    }
    t
}

pub fn child_main() {
    // The collector marks nested data recursively: a runaway program that builds a list millions
    // of cells deep (within the memory limit) needs a native stack to match, otherwise the
    // process dies of a native stack overflow before the VM can report OutOfMemory.
    let t = std::thread::Builder::new().stack_size(3 << 30).spawn(child_loop).expect("spawn evaluation thread");
    let _ = t.join();
}

fn child_loop() {
    install_panic_hook();
    let current: Arc<Mutex<Option<(RootedThread, std::time::Instant)>>> = Arc::new(Mutex::new(None));
    {
        let current = current.clone();
        std::thread::spawn(move || loop {
            std::thread::sleep(std::time::Duration::from_millis(250));
            let g = current.lock().unwrap();
            if let Some((vm, since)) = &*g {
                if since.elapsed().as_millis() as u64 > WATCHDOG_MS {
                    vm.interrupt();
                }
            }
        });
    }
    let mut vms: HashMap<u32, Slot> = HashMap::new();
    let stdin = std::io::stdin();
    let stdout = std::io::stdout();
    for line in stdin.lock().lines() {
        let line = match line {
            Ok(l) => l,
            Err(_) => break,
        };
        let req: serde_json::Value = match serde_json::from_str(&line) {
            Ok(v) => v,
            Err(_) => continue,
        };
        let id = req["id"].as_u64().unwrap_or(0);
        let bits = req["bits"].as_u64().unwrap_or(0) as u32;
        let main = req["main"].as_str().unwrap_or("");
        let modules: Vec<(String, String)> = req["modules"]
            .as_array()
            .map(|a| a.iter().map(|m| (m[0].as_str().unwrap_or("").to_string(), m[1].as_str().unwrap_or("").to_string())).collect())
            .unwrap_or_default();
        let check_only = req["mode"].as_str() == Some("check");
        let renew = vms.get(&bits).map_or(true, |s| s.uses >= RENEW);
        if renew {
            vms.insert(bits, Slot { vm: new_vm(bits), uses: 0, bits });
        }
        let slot = vms.get_mut(&bits).unwrap();
        let t0 = std::time::Instant::now();
        let mut reply = evaluate(slot, &current, id, main, &modules, check_only);
        reply["bits"] = json!(bits);
        reply["us"] = json!(t0.elapsed().as_micros() as u64);
        let mut o = stdout.lock();
        // programs may print to stdout themselves (io.println): replies carry a marker
        writeln!(o, "\n{}{}", REPLY_MARK, reply).unwrap();
        o.flush().unwrap();
    }
}

// ---------------------------------------------------------------- parent side
pub struct Child {
    child: Option<(std::process::Child, std::process::ChildStdin, std::sync::mpsc::Receiver<String>)>,
    /// the last lines the child wrote to stderr (panic messages, allocation failures, …)
    stderr_tail: Arc<Mutex<Vec<String>>>,
    pub crashes: u64,
    pub requests: u64,
}

impl Child {
    pub fn new() -> Child {
        Child { child: None, stderr_tail: Arc::new(Mutex::new(Vec::new())), crashes: 0, requests: 0 }
    }
    fn spawn(&mut self) {
        let exe = std::env::current_exe().expect("current_exe");
        let mut c = std::process::Command::new(exe)
            .arg("child")
            .stdin(std::process::Stdio::piped())
            .stdout(std::process::Stdio::piped())
            .stderr(std::process::Stdio::piped())
            .spawn()
            .expect("spawn child");
        let stdin = c.stdin.take().unwrap();
        let stdout = c.stdout.take().unwrap();
        let stderr = c.stderr.take().unwrap();
        self.stderr_tail.lock().unwrap().clear();
        let tail = self.stderr_tail.clone();
        std::thread::spawn(move || {
            for l in std::io::BufReader::new(stderr).lines() {
                match l {
                    Ok(l) => {
                        let mut t = tail.lock().unwrap();
                        t.push(l.chars().take(300).collect());
                        if t.len() > 12 {
                            t.remove(0);
                        }
                    }
                    Err(_) => break,
                }
            }
        });
        let (tx, rx) = std::sync::mpsc::channel();
        std::thread::spawn(move || {
            let mut rd = std::io::BufReader::new(stdout);
            let mut buf = Vec::new();
            loop {
                buf.clear();
                match rd.read_until(b'\n', &mut buf) {
                    Ok(0) | Err(_) => break,
                    Ok(_) => {
                        let l = String::from_utf8_lossy(&buf);
                        if let Some(i) = l.find(REPLY_MARK) {
                            if tx.send(l[i + REPLY_MARK.len()..].trim_end().to_string()).is_err() {
                                break;
                            }
                        }
                    }
                }
            }
        });
        self.child = Some((c, stdin, rx));
    }
    pub fn kill(&mut self) {
        if let Some((mut c, _, _)) = self.child.take() {
            let _ = c.kill();
            let _ = c.wait();
        }
    }
    /// Sends one request; a child that dies or stops answering yields status "crash"
    /// (process abort, native stack overflow, hang) and is restarted on the next request.
    pub fn ask(&mut self, req: &serde_json::Value) -> serde_json::Value {
        self.requests += 1;
        if self.child.is_none() {
            self.spawn();
        }
        let reply = {
            let (_, stdin, rx) = self.child.as_mut().unwrap();
            let sent = writeln!(stdin, "{}", req).and_then(|_| stdin.flush());
            match sent {
                Err(_) => None,
                Ok(()) => rx.recv_timeout(std::time::Duration::from_secs(60)).ok(),
            }
        };
        match reply.and_then(|r| serde_json::from_str::<serde_json::Value>(&r).ok()) {
            Some(v) => v,
            None => {
                self.crashes += 1;
                // did the process die (how?) or did it just stop answering?
                std::thread::sleep(std::time::Duration::from_millis(200));
                let exit = self.child.as_mut().and_then(|(c, _, _)| c.try_wait().ok().flatten());
                let stderr: Vec<String> = self.stderr_tail.lock().unwrap().clone();
                let text = stderr.join(" | ");
                let (class, detail) = match exit {
                    None => ("timeout".to_string(), "no answer within 60 s".to_string()),
                    Some(st) => {
                        use std::os::unix::process::ExitStatusExt;
                        let sig = st.signal();
                        let panic_at = stderr.iter().rev().find_map(|l| l.strip_prefix("C02PANIC at ").map(|r| r.to_string()));
                        if text.contains("memory allocation of") || sig == Some(9) {
                            ("out-of-memory".to_string(), format!("killed for memory ({:?})", st))
                        } else if text.contains("has overflowed its stack") {
                            ("native-stack-overflow".to_string(), format!("{:?}", st))
                        } else if let Some(at) = panic_at {
                            // a panic that could not unwind (extern "C" primitive): the hook saw it
                            (format!("panic:{}", at.split(": ").next().unwrap_or("").rsplit('/').take(3).collect::<Vec<_>>().into_iter().rev().collect::<Vec<_>>().join("/")), at)
                        } else {
                            (format!("signal-{}", sig.map_or("none".to_string(), |s| s.to_string())), format!("{:?}", st))
                        }
                    }
                };
                self.kill();
                json!({"id": req["id"], "bits": req["bits"], "status": "crash", "crash_class": class, "msg": format!("the process died or stopped answering: {} {}", detail, text.chars().take(400).collect::<String>())})
            }
        }
    }
}

impl Drop for Child {
    fn drop(&mut self) {
        self.kill();
    }
}
