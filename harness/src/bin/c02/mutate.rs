//! Mutants of well-typed programs: random AST mutations and token-level mutations of the
//! printed source.  Most mutants are ill typed and are rejected by the real checker; the ones it
//! accepts are arbitrary accepted programs the generator would never construct.
use gvh::mg::ast::*;
use gvh::rng::Rng;

// ---------------------------------------------------------------- AST walking
fn children_mut<'a>(e: &'a mut Expr, out: &mut Vec<&'a mut Expr>) {
    match e {
        Expr::Lit(_) | Expr::Var(_) | Expr::Error(_) => {}
        Expr::Lam(_, b) => out.push(b),
        Expr::App(f, args) => {
            out.push(f);
            out.extend(args.iter_mut());
        }
        Expr::Let(_, a, b) | Expr::Prim(_, a, b) | Expr::And(a, b) | Expr::Or(a, b) | Expr::Seq(a, b) | Expr::ArrayIndex(a, b) => {
            out.push(a);
            out.push(b);
        }
        Expr::Rec(bs, b) => {
            for r in bs.iter_mut() {
                out.push(&mut r.body);
            }
            out.push(b);
        }
        Expr::If(a, b, c) => {
            out.push(a);
            out.push(b);
            out.push(c);
        }
        Expr::Record(fs, base) => {
            for (_, e) in fs.iter_mut() {
                out.push(e);
            }
            if let Some(b) = base {
                out.push(b);
            }
        }
        Expr::Proj(e, _) | Expr::ArrayLen(e) | Expr::Eff(e) | Expr::Ann(e, _) => out.push(e),
        Expr::Tuple(es) | Expr::Con(_, es) | Expr::Array(es) => out.extend(es.iter_mut()),
        Expr::Match(s, alts) => {
            out.push(s);
            for (_, e) in alts.iter_mut() {
                out.push(e);
            }
        }
    }
}

/// applies `f` to the `k`-th node (pre-order); returns false when there is no such node
fn at_node(e: &mut Expr, k: &mut usize, f: &mut dyn FnMut(&mut Expr)) -> bool {
    if *k == 0 {
        f(e);
        return true;
    }
    *k -= 1;
    let mut cs = vec![];
    children_mut(e, &mut cs);
    for c in cs {
        if at_node(c, k, f) {
            return true;
        }
    }
    false
}

fn nth_node(e: &Expr, k: usize) -> Option<Expr> {
    let mut i = 0;
    let mut found = None;
    e.visit(&mut |x| {
        if i == k && found.is_none() {
            found = Some(x.clone());
        }
        i += 1;
    });
    found
}

fn count_nodes(e: &Expr) -> usize {
    let mut n = 0;
    e.visit(&mut |_| n += 1);
    n
}

const FIELDS: [&str; 10] = ["a", "b", "c", "d", "e", "f", "g", "h", "x", "y"];
const CTORS: [(&str, usize); 7] = [("A", 1), ("B", 0), ("C", 2), ("None", 0), ("Some", 1), ("True", 0), ("False", 0)];

fn other_lit(l: &Lit, rng: &mut Rng) -> Lit {
    let pool = [Lit::Int(1), Lit::Byte(2), Lit::Char('c'), Lit::Str("s".into()), Lit::Float(1.5f64.to_bits()), Lit::Int(0), Lit::Str(String::new())];
    loop {
        let c = rng.pick(&pool).clone();
        if std::mem::discriminant(&c) != std::mem::discriminant(l) {
            return c;
        }
    }
}

fn mutate_pat(p: &mut Pat, rng: &mut Rng) {
    match p {
        Pat::Lit(l) => *l = other_lit(l, rng),
        Pat::Con(c, ps) => match rng.below(3) {
            0 => *c = rng.pick(&CTORS).0.to_string(),
            1 if !ps.is_empty() => {
                ps.pop();
            }
            _ => ps.push(Pat::Wild),
        },
        Pat::Record(fs) => match rng.below(3) {
            0 if !fs.is_empty() => {
                let i = rng.below(fs.len() as u64) as usize;
                fs[i].0 = rng.pick(&FIELDS).to_string();
            }
            1 if fs.len() > 1 => {
                let i = rng.below(fs.len() as u64) as usize;
                fs.remove(i);
            }
            _ => {
                fs.reverse();
            }
        },
        Pat::Tuple(ps) => {
            if rng.chance(1, 2) && ps.len() > 2 {
                ps.pop();
            } else {
                ps.push(Pat::Wild);
            }
        }
        Pat::As(_, q) => mutate_pat(q, rng),
        Pat::Var(_) => *p = Pat::Lit(Lit::Int(0)),
        Pat::Wild => *p = Pat::Tuple(vec![]),
    }
}

/// One random AST mutation; returns the mutation's name.
pub fn mutate_ast(e: &mut Expr, rng: &mut Rng) -> &'static str {
    let n = count_nodes(e);
    for _ in 0..40 {
        let mut k = rng.below(n as u64) as usize;
        let other = nth_node(e, rng.below(n as u64) as usize).unwrap();
        let choice = rng.below(12);
        let mut rng2 = rng.fork();
        let mut done: Option<&'static str> = None;
        at_node(e, &mut k, &mut |x| {
            let r = &mut rng2;
            done = match (choice, &mut *x) {
                // replace the subterm by (a copy of) another subterm of the program
                (0, _) => {
                    if *x != other {
                        *x = other.clone();
                        Some("swap-subterm")
                    } else {
                        None
                    }
                }
                (1, Expr::Lit(l)) => {
                    *l = other_lit(l, r);
                    Some("literal-type")
                }
                (2, Expr::App(_, args)) => {
                    if r.chance(1, 2) && args.len() > 1 {
                        let i = r.below(args.len() as u64) as usize;
                        args.remove(i);
                        Some("drop-argument")
                    } else {
                        let i = r.below(args.len() as u64) as usize;
                        let a = args[i].clone();
                        args.insert(i, a);
                        Some("duplicate-argument")
                    }
                }
                (3, Expr::Proj(_, l)) => {
                    *l = r.pick(&FIELDS).to_string();
                    Some("rename-field")
                }
                (3, Expr::Record(fs, _)) if !fs.is_empty() => {
                    let i = r.below(fs.len() as u64) as usize;
                    fs[i].0 = r.pick(&FIELDS).to_string();
                    Some("rename-field")
                }
                (4, Expr::Con(c, _)) => {
                    *c = r.pick(&CTORS).0.to_string();
                    Some("rename-constructor")
                }
                (5, Expr::Match(_, alts)) if alts.len() > 1 => {
                    let i = r.below(alts.len() as u64 - 1) as usize;
                    alts.swap(i, i + 1);
                    Some("swap-alternatives")
                }
                (6, Expr::Match(_, alts)) if !alts.is_empty() => {
                    let i = r.below(alts.len() as u64) as usize;
                    mutate_pat(&mut alts[i].0, r);
                    Some("mutate-pattern")
                }
                (6, Expr::Let(p, _, _)) => {
                    mutate_pat(p, r);
                    Some("mutate-pattern")
                }
                (7, Expr::Lam(ps, _)) => {
                    if r.chance(1, 2) && ps.len() > 1 {
                        ps.pop();
                    } else {
                        ps.push(format!("m{}", r.below(3)));
                    }
                    Some("change-arity")
                }
                (7, Expr::Con(_, es)) | (7, Expr::Tuple(es)) => {
                    if r.chance(1, 2) && !es.is_empty() {
                        es.pop();
                    } else if let Some(x0) = es.first().cloned() {
                        es.push(x0);
                    } else {
                        es.push(int(0));
                    }
                    Some("change-arity")
                }
                (7, Expr::Rec(bs, _)) if !bs.is_empty() => {
                    let i = r.below(bs.len() as u64) as usize;
                    if r.chance(1, 2) && bs[i].params.len() > 1 {
                        bs[i].params.pop();
                    } else {
                        bs[i].params.push(format!("m{}", r.below(3)));
                    }
                    Some("change-arity")
                }
                (8, Expr::Prim(op, _, _)) => {
                    *op = *r.pick(&PrimOp::ALL);
                    Some("change-operator")
                }
                (9, Expr::Var(v)) => {
                    if let Expr::Var(w) = &other {
                        if w != v {
                            *v = w.clone();
                            return_some("rename-variable")
                        } else {
                            None
                        }
                    } else {
                        None
                    }
                }
                (10, Expr::If(_, a, b)) => {
                    std::mem::swap(a, b);
                    Some("swap-branches")
                }
                (10, Expr::Record(fs, _)) if fs.len() > 1 => {
                    fs.reverse();
                    Some("reorder-fields")
                }
                (11, Expr::Record(fs, base)) => {
                    if base.is_some() {
                        *base = None;
                        Some("drop-base")
                    } else if fs.len() > 1 {
                        fs.pop();
                        Some("drop-field")
                    } else {
                        None
                    }
                }
                (11, Expr::Ann(inner, _)) => {
                    let i = (**inner).clone();
                    *x = i;
                    Some("drop-annotation")
                }
                _ => None,
            };
        });
        if let Some(name) = done {
            return name;
        }
    }
    // fall back: replace the whole expression's first literal-free node by a literal
    *e = Expr::Tuple(vec![e.clone(), int(0)]);
    "wrap-tuple"
}

fn return_some(s: &'static str) -> Option<&'static str> {
    Some(s)
}

// ---------------------------------------------------------------- token level
/// Splits into tokens, keeping the white space (and therefore the layout) attached in front.
fn tokens(src: &str) -> Vec<(String, String)> {
    // (leading blanks, token)
    let mut out = vec![];
    let b: Vec<char> = src.chars().collect();
    let mut i = 0;
    while i < b.len() {
        let mut ws = String::new();
        while i < b.len() && b[i].is_whitespace() {
            ws.push(b[i]);
            i += 1;
        }
        if i >= b.len() {
            out.push((ws, String::new()));
            break;
        }
        let mut t = String::new();
        let c = b[i];
        if c == '"' {
            t.push(c);
            i += 1;
            while i < b.len() {
                t.push(b[i]);
                if b[i] == '\\' && i + 1 < b.len() {
                    i += 1;
                    t.push(b[i]);
                } else if b[i] == '"' {
                    i += 1;
                    break;
                }
                i += 1;
            }
        } else if c.is_alphanumeric() || c == '_' {
            while i < b.len() && (b[i].is_alphanumeric() || b[i] == '_' || b[i] == '\'' || b[i] == '.') {
                t.push(b[i]);
                i += 1;
            }
        } else if "(){}[],\\".contains(c) {
            t.push(c);
            i += 1;
        } else {
            while i < b.len() && !b[i].is_whitespace() && !b[i].is_alphanumeric() && !"(){}[],\"_".contains(b[i]) {
                t.push(b[i]);
                i += 1;
            }
        }
        out.push((ws, t));
    }
    out
}

/// One random token-level mutation of the program text (header lines are left alone).
pub fn mutate_tokens(src: &str, header_lines: usize, rng: &mut Rng) -> (String, &'static str) {
    let mut lines = src.lines();
    let mut head = String::new();
    for _ in 0..header_lines {
        if let Some(l) = lines.next() {
            head.push_str(l);
            head.push('\n');
        }
    }
    let body: String = lines.collect::<Vec<_>>().join("\n") + "\n";
    let mut toks = tokens(&body);
    let n = toks.iter().filter(|t| !t.1.is_empty()).count();
    if n < 2 {
        return (src.to_string(), "none");
    }
    let replacements = ["0", "1", "\"s\"", "2b", "'c'", "()", "True", "x", "{ }", "_", "#Int+", "#Int<", "1.5"];
    let i = rng.below(n as u64) as usize;
    let j = rng.below(n as u64) as usize;
    let name = match rng.below(5) {
        0 => {
            toks.remove(i);
            "delete-token"
        }
        1 => {
            let t = toks[i].clone();
            toks.insert(i, (" ".into(), t.1));
            "duplicate-token"
        }
        2 => {
            let a = toks[i].1.clone();
            toks[i].1 = toks[j].1.clone();
            toks[j].1 = a;
            "swap-tokens"
        }
        3 => {
            toks[i].1 = toks[j].1.clone();
            "copy-token"
        }
        _ => {
            toks[i].1 = rng.pick(&replacements).to_string();
            "replace-token"
        }
    };
    let mut out = head;
    for (ws, t) in toks {
        out.push_str(&ws);
        out.push_str(&t);
    }
    if !out.ends_with('\n') {
        out.push('\n');
    }
    (out, name)
}
