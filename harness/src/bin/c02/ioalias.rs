//! Programs whose type reaches `IO` (or a function / record / variant type) only through type
//! aliases: parameterised aliases with the result type in different positions (phantom and
//! reordered parameters), nullary aliases, nested aliases, aliases whose `IO` result is a record.
//! As top-level expressions, as functions returning the alias, and as imported modules; run under
//! all settings, in particular `run_io` on, where the pipeline executes the action and must
//! report the type of the RESULT (src/compiler_pipeline.rs run_io looks through the aliases).
use gvh::rng::Rng;

pub struct AliasProg {
    pub modules: Vec<(String, String)>,
    pub main: String,
    pub tags: Vec<String>,
}

/// (type, value) pairs of clearly different shapes
const VALS: [(&str, &str); 6] = [
    ("String", "\"hello\""),
    ("Int", "42"),
    ("(Int, String)", "(1, \"p\")"),
    ("{ a : Int, b : String }", "{ a = 3, b = \"r\" }"),
    ("Array Int", "[1, 2]"),
    ("Float", "1.5"),
];

pub fn gen_io_alias(rng: &mut Rng, uid: u64) -> AliasProg {
    let ri = rng.below(VALS.len() as u64) as usize;
    let mut pi = rng.below(VALS.len() as u64) as usize;
    if pi == ri {
        pi = (pi + 1) % VALS.len();
    }
    let (rt, rv) = VALS[ri];
    let (pt, _) = VALS[pi];
    let (qt, _) = VALS[(pi + 2) % VALS.len()];
    let mut tags = vec!["io-alias".to_string()];
    // alias declarations and the alias applied so that the action's result type is `rt`
    let (decls, ty, result_is): (String, String, String) = match rng.below(8) {
        0 => (format!("type Eff e a = IO a\n"), format!("Eff ({}) ({})", pt, rt), "phantom-first".into()),
        1 => (format!("type Eff a e = IO a\n"), format!("Eff ({}) ({})", rt, pt), "result-first".into()),
        2 => (format!("type Action = IO ({})\n", rt), "Action".into(), "nullary".into()),
        3 => (format!("type M a = IO a\ntype N e a = M a\n"), format!("N ({}) ({})", pt, rt), "nested-phantom".into()),
        4 => (format!("type M a = IO a\ntype Act = M ({})\n", rt), "Act".into(), "nested-nullary".into()),
        5 => (format!("type E3 x y a = IO a\n"), format!("E3 ({}) ({}) ({})", pt, qt, rt), "three-parameters".into()),
        6 => (format!("type Mid x a y = IO a\n"), format!("Mid ({}) ({}) ({})", pt, rt, qt), "result-in-the-middle".into()),
        _ => (format!("type Eff e a = IO a\ntype Fixed = Eff ({}) ({})\n", pt, rt), "Fixed".into(), "alias-of-applied-alias".into()),
    };
    tags.push(format!("io-alias:{}", result_is));
    let header = "let { IO, wrap, flat_map } = import! std.io.prim\n";
    let action = match rng.below(3) {
        0 => format!("wrap {}", rv),
        1 => format!("flat_map (\\_ -> wrap {}) (wrap 0)", rv),
        _ => format!("flat_map (\\x -> wrap x) (wrap {})", rv),
    };
    match rng.below(4) {
        0 => {
            tags.push("io-alias-use:top-level".into());
            AliasProg { modules: vec![], main: format!("{}{}let action : {} = {}\naction\n", header, decls, ty, action), tags }
        }
        1 => {
            tags.push("io-alias-use:function-result".into());
            AliasProg { modules: vec![], main: format!("{}{}let mk n : Int -> {} = {}\nmk 1\n", header, decls, ty, action), tags }
        }
        2 => {
            tags.push("io-alias-use:imported-module".into());
            tags.push("imports-io-module".into());
            let name = format!("c02a_{}", uid);
            let module = format!("{}{}let action : {} = {}\naction\n", header, decls, ty, action);
            AliasProg { modules: vec![(name.clone(), module)], main: format!("let m = import! {}\nm\n", name), tags }
        }
        _ => {
            tags.push("io-alias-use:record-field".into());
            AliasProg {
                modules: vec![],
                main: format!("{}{}type Holder = {{ act : {}, n : Int }}\nlet h : Holder = {{ act = {}, n = 1 }}\nh.act\n", header, decls, ty, action),
                tags,
            }
        }
    }
}

/// Other alias-mediated shapes: the reported type is an alias of a function / record / tuple /
/// variant type (with reordered parameters); the shape check has to look through the alias.
pub fn gen_plain_alias(rng: &mut Rng) -> AliasProg {
    let (main, what): (&str, &str) = match rng.below(8) {
        0 => ("type F = Int -> Int\nlet f : F = \\x -> x #Int+ 1\nf\n", "function"),
        1 => ("type F a = a -> Int -> a\nlet f : F String = \\s n -> s\nf \"q\"\n", "function-partial-application"),
        2 => ("type Pt = { x : Int, y : String }\nlet p : Pt = { x = 1, y = \"a\" }\np\n", "record"),
        3 => ("type Pair a b = (b, a)\nlet p : Pair Int String = (\"s\", 1)\np\n", "tuple-reordered-parameters"),
        4 => ("type Wrap a = { inner : a, tag : Int }\nlet w : Wrap (Wrap String) = { inner = { inner = \"i\", tag = 1 }, tag = 2 }\nw\n", "nested-record"),
        5 => ("type Sw a b = | L b | R a\nlet v : Sw Int String = L \"s\"\nv\n", "variant-reordered-parameters"),
        6 => ("type Sw a b = | L b | R a\ntype Fixed = Sw Int String\nlet v : Fixed = R 3\n(v, L 1.5)\n", "alias-of-applied-variant"),
        _ => ("type Fn a = { call : a -> a, arg : a }\nlet r : Fn Int = { call = \\x -> x #Int* 2, arg = 4 }\nr.call r.arg\n", "record-of-function"),
    };
    AliasProg { modules: vec![], main: main.to_string(), tags: vec!["plain-alias".into(), format!("plain-alias:{}", what)] }
}
