//! C02 — type soundness: programs the checker accepts never go wrong.
//!
//! Every program the REAL type checker accepts — generated well typed by construction
//! (`gvh::mg::generate`, with `multi_record_alts` and `update_reorder` on), random AST / token
//! mutants of such programs, and multi-module programs (`add_module` + `import!`, including
//! modules whose value is an `IO a` action) — is executed under all 2^5 combinations of the
//! compiler settings `implicit_prelude, optimize, emit_debug_info, run_io, full_metadata`
//! (src/lib.rs Settings), in child processes (one long-lived VM per combination).
//!
//! MONITOR (the property's own observable), applied to every (accepted program, setting):
//!   * no Rust panic / ICE after the checker accepted (catch_unwind; the panic location is
//!     recorded by a panic hook), no process abort, no hang of a generated (terminating) program;
//!   * the only run-time errors an accepted program may end in are its own `error "…"`,
//!     "Unmatched pattern", "Index i is out of range", "Arithmetic overflow", stack overflow and
//!     out of memory; anything else (`Cannot call …`, `GetOffset on …`, TestTag / Split on
//!     non-data, undefined binding …) is the VM complaining about a value of the wrong shape;
//!   * the returned value, rendered untyped through `vm::api::ValueRef` (`mg::value::canon`), must
//!     pass the EXTRACTED `check_raw` (coq/theories/Lang/Types.v) at the type the checker reported
//!     (translated by `ty.rs`): that decision is made by the model driver (`shape` lines of
//!     model_in.txt; impl_out.txt expects `ok`);
//!   * the outcome (value / error class / effect log) is the same under all settings, except that
//!     `run_io` legitimately changes the outcome of a program whose type is `IO a`
//!     (the action is executed and its result returned: src/compiler_pipeline.rs run_io).
//! In addition every constructed program is run by the extracted reference semantics
//! (`run` lines): it must not be Stuck and its value must pass `check_shape` at the constructed
//! type (this ties the generator's notion of "well typed" to the model's `has_type`:
//! by C02_stuck_untypable a Stuck program has no type).
//!
//! Files written to --out: model_in.txt, impl_out.txt, cases.txt (one JSON per model line),
//! failures.jsonl (monitor failures with shrunk programs), stats.json.
mod ioalias;
mod modules;
mod mutate;
mod rankn;
mod server;
mod ty;

use gvh::mg::ast::*;
use gvh::mg::generate::{gen_program_traced, shrink_candidates, GenConfig};
use gvh::mg::print::{header, to_gluon, Style};
use gvh::mg::sexp::program_to_sexp;
use gvh::out::{fnv, Args, Hist};
use gvh::rng::Rng;
use serde_json::json;
use server::{bits_name, Child};
use std::collections::{BTreeMap, HashSet};
use std::io::Write;
use std::sync::{Arc, Mutex};

const BASE_BITS: u32 = 0b00110; // prelude off, optimize on, debug info on, run_io off, full_metadata off

#[derive(Clone)]
struct Prog {
    id: u64,
    family: String,
    name: String,
    main: String,
    modules: Vec<(String, String)>,
    /// the AST when the program text is `to_gluon(ast)` (shrinkable)
    ast: Option<(Program, bool)>, // (program, layout style?)
    /// constructed well typed (the model runs it at `ast.ty`)
    constructed: bool,
    tags: Vec<String>,
}

impl Prog {
    fn to_json(&self) -> serde_json::Value {
        json!({"id": self.id, "family": self.family, "name": self.name, "main": self.main, "modules": self.modules, "tags": self.tags})
    }
    fn req(&self, bits: u32, mode: &str) -> serde_json::Value {
        json!({"id": self.id, "bits": bits, "main": self.main, "modules": self.modules, "mode": mode})
    }
}

fn style_of(layout: bool) -> Style {
    if layout { Style::layout() } else { Style::explicit() }
}

fn pat_has_record(p: &Pat) -> bool {
    match p {
        Pat::Record(_) => true,
        Pat::As(_, q) => pat_has_record(q),
        Pat::Con(_, ps) | Pat::Tuple(ps) => ps.iter().any(pat_has_record),
        _ => false,
    }
}

/// a `match` in which at least two alternatives contain a record pattern (at any depth)
fn has_multi_record_alts(e: &Expr) -> bool {
    let mut found = false;
    e.visit(&mut |x| {
        if let Expr::Match(_, alts) = x {
            if alts.iter().filter(|(p, _)| pat_has_record(p)).count() >= 2 {
                found = true;
            }
        }
    });
    found
}

fn record_orders(t: &Ty, out: &mut Vec<Vec<String>>) {
    match t {
        Ty::Record(fs) => {
            out.push(fs.iter().map(|f| f.0.clone()).collect());
            for (_, x) in fs {
                record_orders(x, out);
            }
        }
        Ty::Fun(a, r) => {
            for x in a {
                record_orders(x, out);
            }
            record_orders(r, out);
        }
        Ty::Tuple(ts) | Ty::Named(_, ts) => {
            for x in ts {
                record_orders(x, out);
            }
        }
        Ty::Array(x) => record_orders(x, out),
        _ => {}
    }
}

/// Two record literals / annotated record types with the same field names in different orders.
/// Gluon unifies such types (check/src/unify_type.rs unify_rows gathers fields by name) although
/// the run-time layout of a record follows the order of the literal that built it.
fn has_reordered_annotated_record(e: &Expr) -> bool {
    let mut orders: Vec<Vec<String>> = vec![];
    e.visit(&mut |x| match x {
        Expr::Ann(_, t) => record_orders(t, &mut orders),
        Expr::Record(fs, None) => orders.push(fs.iter().map(|f| f.0.clone()).collect()),
        _ => {}
    });
    let mut by_set: std::collections::HashMap<Vec<String>, Vec<String>> = std::collections::HashMap::new();
    for o in orders {
        let mut k = o.clone();
        k.sort();
        match by_set.get(&k) {
            Some(first) if *first != o => return true,
            Some(_) => {}
            None => {
                by_set.insert(k, o);
            }
        }
    }
    false
}

fn src_has_multi_record_alts(src: &str) -> bool {
    // textual approximation for programs without an AST: two alternative lines with a `{`
    // before their `->` since the last `match`
    let mut run = 0;
    for l in src.lines() {
        let t = l.trim_start();
        if t.starts_with("| ") {
            let pat = t.split("->").next().unwrap_or("");
            if pat.contains('{') {
                run += 1;
                if run >= 2 {
                    return true;
                }
            }
        }
        if t.contains("match ") {
            run = 0;
        }
    }
    false
}

fn string_literals(src: &str) -> Vec<String> {
    let mut out = vec![];
    let b: Vec<char> = src.chars().collect();
    let mut i = 0;
    while i < b.len() {
        if b[i] == '"' {
            let mut s = String::new();
            i += 1;
            while i < b.len() && b[i] != '"' {
                if b[i] == '\\' && i + 1 < b.len() {
                    i += 1;
                    s.push(match b[i] {
                        'n' => '\n',
                        't' => '\t',
                        'r' => '\r',
                        c => c,
                    });
                } else {
                    s.push(b[i]);
                }
                i += 1;
            }
            out.push(s);
        }
        i += 1;
    }
    out
}

// ---------------------------------------------------------------- the monitor
#[derive(Clone, Debug)]
struct Failure {
    key: String,
    what: String,
    bits: u32,
    observed: String,
}

fn slug(s: &str) -> String {
    let mut o = String::new();
    for c in s.chars() {
        if c.is_ascii_alphanumeric() {
            o.push(c.to_ascii_lowercase());
        } else if !o.ends_with('-') {
            o.push('-');
        }
    }
    o.trim_matches('-').to_string()
}

/// canonical outcome used for the cross-setting comparison
fn outcome_of(r: &serde_json::Value) -> String {
    match r["status"].as_str().unwrap_or("?") {
        "value" => format!("val {} log={}", r["value"].as_str().unwrap_or(""), r["log"]),
        "error" => format!("err {} {} log={}", r["class"].as_str().unwrap_or(""), r["detail"].as_str().unwrap_or(""), r["log"]),
        s => s.to_string(),
    }
}

/// Judges one reply of an accepted program.  `None`: nothing wrong (or not accepted).
fn judge(p: &Prog, bits: u32, r: &serde_json::Value) -> Option<Failure> {
    let mut f = judge_(p, bits, r)?;
    // name the feature class for the template families
    if p.family == "rank-n-mutant" {
        f.key = format!("{}:wrong-rank-mutant-accepted", strip_hash(&f.key));
    } else if p.family == "rank-n" {
        f.key = format!("{}:rank-n", strip_hash(&f.key));
    } else if p.tags.iter().any(|t| t == "io-alias") {
        f.key = format!("{}:io-alias", strip_hash(&f.key));
    } else if p.tags.iter().any(|t| t == "plain-alias") {
        f.key = format!("{}:plain-alias", strip_hash(&f.key));
    }
    Some(f)
}

/// drops a trailing `:<8 hex digits>` program hash from a key
fn strip_hash(k: &str) -> String {
    match k.rsplit_once(':') {
        Some((head, tail)) if tail.len() == 8 && tail.chars().all(|c| c.is_ascii_hexdigit()) => head.to_string(),
        _ => k.to_string(),
    }
}

fn judge_(p: &Prog, bits: u32, r: &serde_json::Value) -> Option<Failure> {
    let status = r["status"].as_str().unwrap_or("?");
    let multi = p.ast.as_ref().map_or_else(|| src_has_multi_record_alts(&p.main) || p.modules.iter().any(|m| src_has_multi_record_alts(&m.1)), |(a, _)| has_multi_record_alts(&a.expr));
    let multi = multi || p.tags.iter().any(|t| t == "multi-record-alts");
    let permuted = p.tags.iter().any(|t| t == "permuted-record-fields") || p.ast.as_ref().map_or(false, |(a, _)| has_reordered_annotated_record(&a.expr));
    let io_mod = p.tags.iter().any(|t| t == "imports-io-module");
    match status {
        "value" | "rejected" | "accepted" | "checker-panic" => {
            // a rejected program must still not carry a VM complaint (a module that failed while being
            // loaded is reported through the import macro)
            if status == "rejected" {
                if let Some(c) = r["msg"].as_str().and_then(server::complaint_in) {
                    let key = if c == "Cannot call" && io_mod && bits & 8 != 0 {
                        "shape:cannot-call:imported-io-module:run_io".to_string()
                    } else {
                        format!("shape:{}:in-import", slug(c))
                    };
                    return Some(Failure { key, what: format!("loading an accepted module fails with a VM shape complaint: {}", r["msg"].as_str().unwrap_or("")), bits, observed: r["msg"].as_str().unwrap_or("").to_string() });
                }
            }
            None
        }
        "error" => {
            let class = r["class"].as_str().unwrap_or("");
            let msg = r["msg"].as_str().unwrap_or("");
            let detail = r["detail"].as_str().unwrap_or("");
            let complaint = r["complaint"].as_str();
            let fine = match class {
                "unmatched" | "arith" | "stackoverflow" | "oom" => true,
                "explicit" => {
                    let mut lits = string_literals(&p.main);
                    for m in &p.modules {
                        lits.extend(string_literals(&m.1));
                    }
                    lits.iter().any(|l| l == detail) || (detail.starts_with("Index ") && detail.ends_with(" is out of range"))
                }
                _ => false,
            };
            if fine && complaint.is_none() {
                return None;
            }
            let c = complaint.unwrap_or("other-error");
            let key = if c == "Cannot call" && io_mod && bits & 8 != 0 {
                "shape:cannot-call:imported-io-module:run_io".to_string()
            } else if multi {
                format!("shape:{}:multi-record-alts", slug(c))
            } else if permuted {
                format!("shape:{}:permuted-record-fields", slug(c))
            } else {
                format!("shape:{}:{:08x}", slug(c), fnv(p.main.as_bytes()) as u32)
            };
            Some(Failure { key, what: format!("an accepted program fails at run time with an internal / shape error: {}", msg), bits, observed: msg.to_string() })
        }
        "panic" => {
            let at = r["at"].as_str().unwrap_or("");
            let msg = r["msg"].as_str().unwrap_or("");
            let file = at.rsplit_once(':').map_or(at, |x| x.0);
            let key = if file.ends_with("vm/src/core/mod.rs") && multi {
                "ice:pattern-translator:multi-record-alts".to_string()
            } else if multi && msg.starts_with("expected ValueRef") {
                "shape:value-of-wrong-shape:multi-record-alts".to_string()
            } else if msg.starts_with("Expected record, got") {
                // vm/src/compiler.rs compile_let_pattern: the pattern's type is not a record
                if msg.contains("typ: Forall") {
                    "ice:vm/src/compiler.rs:expected-record:record-pattern-on-generalised-value".to_string()
                } else if msg.contains("fields: []") {
                    "ice:vm/src/compiler.rs:expected-record:empty-record-pattern".to_string()
                } else {
                    "ice:vm/src/compiler.rs:expected-record".to_string()
                }
            } else {
                // the leading words of the message (no addresses, names or types): a stable key
                let head: String = msg.chars().take_while(|c| c.is_ascii_alphabetic() || *c == ' ' || *c == ',').take(40).collect();
                let file = match file.find("/vm/src/").or_else(|| file.find("/check/src/")).or_else(|| file.find("/src/")) {
                    Some(i) => &file[i + 1..],
                    None => file,
                };
                format!("ice:{}:{}", file, slug(&head))
            };
            Some(Failure { key, what: format!("an accepted program makes the compiler / VM panic at {}: {}", at, msg), bits, observed: format!("panic at {}: {}", at, msg) })
        }
        "crash" => {
            // stable classes, never a program hash: timeout | out-of-memory | native-stack-overflow |
            // panic:<location> | signal-<n>
            let class = r["crash_class"].as_str().unwrap_or("unknown");
            let msg = r["msg"].as_str().unwrap_or("");
            match class {
                // Divergence / resource exhaustion is not "going wrong": an arbitrary accepted
                // program (mutant, module program) may loop or allocate without bound.  Only the
                // programs the generator constructs are guaranteed to terminate.
                // (a native stack overflow of a runaway program is the collector / interpreter running
                // out of native stack on unboundedly deep data: resource exhaustion as well)
                "timeout" | "out-of-memory" | "native-stack-overflow" if !p.constructed || p.family == "modules" => None,
                "timeout" => Some(Failure { key: "hang:watchdog".into(), what: "a generated (terminating) program did not answer within 60 s".into(), bits, observed: msg.to_string() }),
                _ => Some(Failure { key: format!("abort:{}", class), what: "an accepted program aborts the process".into(), bits, observed: msg.to_string() }),
            }
        }
        "interrupted" => {
            if p.constructed && p.family != "modules" {
                Some(Failure { key: "hang:interrupted".into(), what: "a generated (terminating) program had to be interrupted".into(), bits, observed: "interrupted after 4 s".into() })
            } else {
                None
            }
        }
        _ => None,
    }
}

// ---------------------------------------------------------------- parallel evaluation
/// Runs `jobs` (program index, bits, mode) on the pool's child processes; bits are pinned to a
/// worker (bits % workers) so that each child keeps few VMs alive.
fn run_jobs(progs: &[Prog], jobs: Vec<(usize, u32, &'static str)>, pool: &mut Vec<Child>) -> Vec<(usize, u32, serde_json::Value)> {
    let workers = pool.len();
    let mut queues: Vec<Vec<(usize, u32, &'static str)>> = vec![vec![]; workers];
    for j in jobs {
        queues[(j.1 as usize) % workers].push(j);
    }
    // balance: acceptance checks all use BASE_BITS; spread those round robin instead
    let total: usize = queues.iter().map(|q| q.len()).sum();
    if queues.iter().any(|q| q.len() > total / workers.max(1) * 2 + 10) {
        let all: Vec<_> = queues.drain(..).flatten().collect();
        queues = vec![vec![]; workers];
        for (i, j) in all.into_iter().enumerate() {
            queues[i % workers].push(j);
        }
    }
    let results = Arc::new(Mutex::new(Vec::new()));
    std::thread::scope(|s| {
        for (q, child) in queues.into_iter().zip(pool.iter_mut()) {
            let results = results.clone();
            s.spawn(move || {
                let mut local = Vec::with_capacity(q.len());
                for (pi, bits, mode) in q {
                    let r = child.ask(&progs[pi].req(bits, mode));
                    local.push((pi, bits, r));
                }
                results.lock().unwrap().extend(local);
            });
        }
    });
    let r = std::mem::take(&mut *results.lock().unwrap());
    r
}

// ---------------------------------------------------------------- shrinking
/// Greedy shrinking of an AST program under "still accepted and still fails with the same key".
fn shrink(p: &Prog, f: &Failure, child: &mut Child, budget: usize) -> Option<Prog> {
    let (ast, layout) = p.ast.clone()?;
    if !p.modules.is_empty() {
        return None;
    }
    let st = style_of(layout);
    let mut best = ast;
    let mut spent = 0;
    let mut improved = true;
    while improved && spent < budget {
        improved = false;
        let mut cands = shrink_candidates(&best.expr);
        cands.sort_by_key(|c| c.size());
        for c in cands {
            if spent >= budget {
                break;
            }
            if c.size() >= best.expr.size() {
                continue;
            }
            spent += 1;
            let cand = Program { types: best.types.clone(), expr: c, ty: best.ty.clone() };
            let q = Prog { id: 9_000_000 + spent as u64, family: p.family.clone(), name: p.name.clone(), main: to_gluon(&cand, &st), modules: vec![], ast: Some((cand.clone(), layout)), constructed: false, tags: p.tags.clone() };
            let r = child.ask(&q.req(f.bits, "run"));
            if let Some(f2) = judge(&q, f.bits, &r) {
                if f2.key == f.key {
                    best = cand;
                    improved = true;
                    break;
                }
            }
        }
    }
    let main = to_gluon(&best, &st);
    Some(Prog { id: p.id, family: p.family.clone(), name: format!("{} (shrunk)", p.name), main, modules: vec![], ast: Some((best, layout)), constructed: false, tags: p.tags.clone() })
}

// ---------------------------------------------------------------- corpus
fn load_corpus(next_id: &mut u64) -> Vec<Prog> {
    let dir = std::path::Path::new(env!("CARGO_MANIFEST_DIR")).join("../corpus/C02");
    let mut out = vec![];
    let mut names: Vec<_> = match std::fs::read_dir(&dir) {
        Ok(d) => d.filter_map(|e| e.ok()).map(|e| e.path()).filter(|p| p.extension().map_or(false, |x| x == "json")).collect(),
        Err(_) => vec![],
    };
    names.sort();
    for path in names {
        let text = match std::fs::read_to_string(&path) {
            Ok(t) => t,
            Err(_) => continue,
        };
        let v: serde_json::Value = match serde_json::from_str(&text) {
            Ok(v) => v,
            Err(_) => continue,
        };
        let uid = *next_id;
        *next_id += 1;
        // module names are made unique per run (`$U` in names and sources)
        let fix = |s: &str| s.replace("$U", &uid.to_string());
        let modules = v["modules"].as_array().map(|a| a.iter().map(|m| (fix(m[0].as_str().unwrap_or("")), fix(m[1].as_str().unwrap_or("")))).collect()).unwrap_or_default();
        let tags = v["tags"].as_array().map(|a| a.iter().filter_map(|t| t.as_str().map(|s| s.to_string())).collect()).unwrap_or_default();
        out.push(Prog {
            id: uid,
            family: "corpus".into(),
            name: path.file_name().unwrap().to_string_lossy().to_string(),
            main: fix(v["main"].as_str().unwrap_or("")),
            modules,
            ast: None,
            constructed: false,
            tags,
        });
    }
    out
}

fn replay(path: &str) {
    let text = std::fs::read_to_string(path).expect("replay file");
    let v: serde_json::Value = serde_json::from_str(&text).expect("replay json");
    let case = &v["case"];
    let p = Prog {
        id: 1,
        family: "replay".into(),
        name: "replay".into(),
        main: case["main"].as_str().unwrap_or("").to_string(),
        modules: case["modules"].as_array().map(|a| a.iter().map(|m| (m[0].as_str().unwrap_or("").to_string(), m[1].as_str().unwrap_or("").to_string())).collect()).unwrap_or_default(),
        ast: None,
        constructed: false,
        tags: case["tags"].as_array().map(|a| a.iter().filter_map(|t| t.as_str().map(|s| s.to_string())).collect()).unwrap_or_default(),
    };
    println!("program:\n{}", p.main);
    for (n, s) in &p.modules {
        println!("module {}:\n{}", n, s);
    }
    let mut child = Child::new();
    let mut bad = 0;
    for bits in 0..32u32 {
        let r = child.ask(&p.req(bits, "run"));
        let verdict = match judge(&p, bits, &r) {
            Some(f) => {
                bad += 1;
                format!("FAIL {} — {}", f.key, f.observed)
            }
            None => "ok".to_string(),
        };
        println!("[{}] {} :: {} :: {}", bits_name(bits), outcome_of(&r), r["type"].as_str().unwrap_or(""), verdict);
        if let (Some(ts), Some(val)) = (r["tsexp"].as_str(), r["value"].as_str()) {
            println!("      shape line: (shape {} {})", ts, val);
        }
    }
    println!("{} of 32 settings fail the monitor (the shape lines are decided by the extracted check_raw)", bad);
}

// ---------------------------------------------------------------- main
fn main() {
    if std::env::args().nth(1).as_deref() == Some("child") {
        server::child_main();
        return;
    }
    let args = Args::parse();
    if let Some(path) = &args.replay {
        replay(path);
        return;
    }
    let thorough = args.thorough();
    let get = |k: &str, d: usize| args.extra.get(k).and_then(|v| v.parse().ok()).unwrap_or(d);
    let n_constructed = get("constructed", if thorough { 18_000 } else { 1_500 });
    let n_mutants = get("mutants", if thorough { 36_000 } else { 3_000 });
    let n_modules = get("modules", if thorough { 2_000 } else { 160 });
    let n_rankn = get("rankn", if thorough { 3_000 } else { 200 });
    let n_alias = get("alias", if thorough { 2_000 } else { 128 });
    let workers = get("workers", 8);
    let shrink_budget = get("shrink", 120);
    let full_pct = get("full_pct", if thorough { 100 } else { 25 });
    // which of the 32 settings every accepted program is run under (all of them by default)
    let all_bits: Vec<u32> = match args.extra.get("bits") {
        Some(s) => s.split(',').filter_map(|x| x.parse().ok()).collect(),
        None => (0..32).collect(),
    };
    let mut rng = Rng::new(args.seed);
    let mut hist = Hist::default();
    let t0 = std::time::Instant::now();

    let mut cfg = GenConfig::default();
    cfg.features.multi_record_alts = true;
    cfg.features.update_reorder = true;
    cfg.features.floats = false;

    // ---- A. candidates
    let mut next_id = 1u64;
    let mut progs: Vec<Prog> = load_corpus(&mut next_id);
    let n_corpus = progs.len();
    for i in 0..n_constructed {
        let (p, used) = gen_program_traced(&mut rng, &cfg);
        let layout = i % 2 == 1;
        let main = to_gluon(&p, &style_of(layout));
        let mut tags: Vec<String> = used.iter().map(|s| s.to_string()).collect();
        tags.sort();
        tags.dedup();
        progs.push(Prog { id: next_id, family: "constructed".into(), name: format!("constructed#{}", i), main, modules: vec![], ast: Some((p, layout)), constructed: true, tags });
        next_id += 1;
    }
    let mut mcfg = cfg.clone();
    mcfg.max_depth = 4;
    mcfg.max_size = 40;
    for i in 0..n_mutants {
        let (p, _) = gen_program_traced(&mut rng, &mcfg);
        let layout = rng.chance(1, 2);
        let st = style_of(layout);
        let original = to_gluon(&p, &st);
        if i % 3 == 2 {
            // token level
            let h = header(&p, &st).len();
            let mut src = original.clone();
            let mut names = vec![];
            for _ in 0..(1 + rng.below(2)) {
                let (s, n) = mutate::mutate_tokens(&src, h, &mut rng);
                src = s;
                names.push(n);
            }
            if src == original {
                continue;
            }
            hist.add(&format!("mutation:{}", names[0]));
            progs.push(Prog { id: next_id, family: "token-mutant".into(), name: format!("token-mutant#{}", i), main: src, modules: vec![], ast: None, constructed: false, tags: names.iter().map(|s| s.to_string()).collect() });
        } else {
            let mut q = p.clone();
            let mut names = vec![];
            for _ in 0..(1 + rng.below(2)) {
                names.push(mutate::mutate_ast(&mut q.expr, &mut rng));
            }
            if q.expr == p.expr {
                continue;
            }
            hist.add(&format!("mutation:{}", names[0]));
            let main = to_gluon(&q, &st);
            progs.push(Prog { id: next_id, family: "ast-mutant".into(), name: format!("ast-mutant#{}", i), main, modules: vec![], ast: Some((q, layout)), constructed: false, tags: names.iter().map(|s| s.to_string()).collect() });
        }
        next_id += 1;
    }
    for i in 0..n_modules {
        let m = modules::gen_modules(&mut rng, &cfg, next_id);
        let ast = m.ty.as_ref().map(|_| ()); // module programs carry no single AST
        let _ = ast;
        for t in &m.tags {
            hist.add(&format!("modules:{}", t));
        }
        progs.push(Prog { id: next_id, family: "modules".into(), name: format!("modules#{}", i), main: m.main, modules: m.modules, ast: None, constructed: m.ty.is_some(), tags: m.tags });
        next_id += 1;
    }
    // higher-rank programs (well typed + wrong-rank mutants) and alias-mediated types
    for i in 0..n_rankn {
        let r = rankn::gen_rankn(&mut rng);
        for t in &r.tags {
            hist.add(&format!("family:{}", t));
        }
        let family = if r.well_typed { "rank-n" } else { "rank-n-mutant" };
        progs.push(Prog { id: next_id, family: family.into(), name: format!("{}#{}", family, i), main: r.main, modules: vec![], ast: None, constructed: false, tags: r.tags });
        next_id += 1;
    }
    for i in 0..n_alias {
        let a = if i % 4 == 3 { ioalias::gen_plain_alias(&mut rng) } else { ioalias::gen_io_alias(&mut rng, next_id) };
        for t in &a.tags {
            hist.add(&format!("family:{}", t));
        }
        progs.push(Prog { id: next_id, family: "alias".into(), name: format!("alias#{}", i), main: a.main, modules: a.modules, ast: None, constructed: false, tags: a.tags });
        next_id += 1;
    }
    eprintln!("[c02] {} candidates ({} corpus) generated in {:.1}s", progs.len(), n_corpus, t0.elapsed().as_secs_f64());

    // ---- B. acceptance by the real checker (base setting)
    let jobs: Vec<(usize, u32, &'static str)> = (0..progs.len()).map(|i| (i, BASE_BITS, "check")).collect();
    let mut pool: Vec<Child> = (0..workers.max(1)).map(|_| Child::new()).collect();
    let checked = run_jobs(&progs, jobs, &mut pool);
    let mut accepted: Vec<bool> = vec![false; progs.len()];
    let mut checker_panics: Vec<serde_json::Value> = vec![];
    let mut rejected_constructed: Vec<serde_json::Value> = vec![];
    for (pi, _, r) in &checked {
        let st = r["status"].as_str().unwrap_or("?");
        let fam = progs[*pi].family.clone();
        hist.add(&format!("check:{}:{}", fam, st));
        match st {
            "accepted" => accepted[*pi] = true,
            "checker-panic" | "crash" => {
                if checker_panics.len() < 20 {
                    checker_panics.push(json!({"program": progs[*pi].to_json(), "msg": r["msg"], "at": r["at"], "status": st}));
                }
            }
            _ => {
                if (progs[*pi].constructed || progs[*pi].family == "rank-n" || progs[*pi].family == "alias") && rejected_constructed.len() < 10 {
                    rejected_constructed.push(json!({"program": progs[*pi].to_json(), "msg": r["msg"]}));
                }
            }
        }
    }
    let kept: Vec<usize> = (0..progs.len()).filter(|i| accepted[*i]).collect();
    eprintln!("[c02] {} of {} candidates accepted by the checker ({:.1}s)", kept.len(), progs.len(), t0.elapsed().as_secs_f64());

    // ---- C. run every accepted program under every setting
    // Corpus and multi-module programs, and `full_pct` % of the others, run under ALL settings; the
    // rest under 8 of them: the base setting, its complement and 6 drawn at random (so that over
    // the run every combination is exercised equally often).
    let mut jobs: Vec<(usize, u32, &'static str)> = vec![];
    let mut n_full = 0u64;
    for &pi in &kept {
        let p = &progs[pi];
        let full = p.family == "corpus" || p.family == "modules" || p.family == "alias" || p.family.starts_with("rank-n") || rng.below(100) < full_pct as u64 || all_bits.len() < 32;
        if full {
            n_full += 1;
            for &b in &all_bits {
                jobs.push((pi, b, "run"));
            }
        } else {
            let mut bs = vec![BASE_BITS, BASE_BITS ^ 31];
            while bs.len() < 8 {
                let b = rng.below(32) as u32;
                if !bs.contains(&b) {
                    bs.push(b);
                }
            }
            for b in bs {
                jobs.push((pi, b, "run"));
            }
        }
    }
    let n_runs = jobs.len();
    // chunks of programs: run, judge, write, forget (the replies of a thorough run do not fit in memory)
    let mut jobs_by_prog: BTreeMap<usize, Vec<(usize, u32, &'static str)>> = BTreeMap::new();
    for j in jobs {
        jobs_by_prog.entry(j.0).or_default().push(j);
    }
    let prog_order: Vec<usize> = jobs_by_prog.keys().copied().collect();

    // ---- D. monitor
    let mut failures: Vec<(usize, Failure)> = vec![];
    let mut model_in = args.file("model_in.txt");
    let mut impl_out = args.file("impl_out.txt");
    let mut cases = args.file("cases.txt");
    let mut distinct: HashSet<u64> = HashSet::new();
    let mut n_lines = 0u64;
    let mut n_shape_lines = 0u64;
    let mut opaque_types = 0u64;
    let mut samples: Vec<serde_json::Value> = vec![];
    let mut us_total: u64 = 0;
    let mut opt_div_count = 0u64;
    let mut opt_div_samples: Vec<serde_json::Value> = vec![];
    for chunk in prog_order.chunks(1500) {
    let chunk_jobs: Vec<(usize, u32, &'static str)> = chunk.iter().flat_map(|pi| jobs_by_prog[pi].clone()).collect();
    let ran = run_jobs(&progs, chunk_jobs, &mut pool);
    let mut by_prog: BTreeMap<usize, BTreeMap<u32, serde_json::Value>> = BTreeMap::new();
    for (pi, bits, r) in ran {
        by_prog.entry(pi).or_default().insert(bits, r);
    }
    eprintln!("[c02] chunk of {} programs run ({:.1}s)", chunk.len(), t0.elapsed().as_secs_f64());
    for (&pi, rs) in &by_prog {
        let p = &progs[pi];
        let mut seen_shape: HashSet<String> = HashSet::new();
        let mut outcomes: BTreeMap<String, Vec<u32>> = BTreeMap::new();
        // the type reaches IO through an alias: the printed type does not mention IO
        let mut io_typed = p.tags.iter().any(|t| t == "io-alias");
        for (&bits, r) in rs {
            us_total += r["us"].as_u64().unwrap_or(0);
            let st = r["status"].as_str().unwrap_or("?");
            hist.add(&format!("run:{}:{}", p.family, st));
            if st == "error" {
                hist.add(&format!("error-class:{}", r["class"].as_str().unwrap_or("?")));
            }
            if let Some(f) = judge(p, bits, r) {
                failures.push((pi, f));
            } else if st == "interrupted" {
                hist.add("inconclusive:diverges");
            } else if st == "crash" {
                hist.add(&format!("inconclusive:{}", r["crash_class"].as_str().unwrap_or("unknown")));
            }
            if r["type"].as_str().map_or(false, |t| t.contains("IO")) {
                io_typed = true;
            }
            if st == "value" {
                let ts = r["tsexp"].as_str().unwrap_or("");
                let val = r["value"].as_str().unwrap_or("");
                if r["opaque"].as_array().map_or(false, |a| !a.is_empty()) {
                    opaque_types += 1;
                }
                let line = format!("(shape {} {})", ts, val);
                if seen_shape.insert(line.clone()) {
                    writeln!(model_in, "{}", line).unwrap();
                    writeln!(impl_out, "shape ok").unwrap();
                    writeln!(cases, "{}", json!({"kind": "shape", "program": p.to_json(), "bits": bits, "settings": bits_name(bits), "type": r["type"], "value": val,
                        "multi_record_alts": p.ast.as_ref().map_or(false, |a| has_multi_record_alts(&a.0.expr)),
                        "annotated_record_order": p.ast.as_ref().map_or(false, |a| has_reordered_annotated_record(&a.0.expr))})).unwrap();
                    n_lines += 1;
                    n_shape_lines += 1;
                }
            }
            // resource-limit outcomes (watchdog, memory, stack) depend on timing and on how much the
            // setting makes the program allocate: they take no part in the cross-setting comparison
            let resource = st == "interrupted" || st == "crash" || (st == "error" && matches!(r["class"].as_str(), Some("oom") | Some("stackoverflow")));
            if resource {
                hist.add("resource-limit-outcome");
            } else if st != "rejected" && st != "checker-panic" {
                outcomes.entry(outcome_of(r)).or_default().push(bits);
            } else {
                hist.add("rejected-under-some-setting");
            }
        }
        // cross-setting consistency
        let diverges = if !io_typed && !p.tags.iter().any(|t| t == "imports-io-module") {
            outcomes.len() > 1
        } else {
            // compare within each run_io class
            let mut on: HashSet<&String> = HashSet::new();
            let mut off: HashSet<&String> = HashSet::new();
            for (o, bs) in &outcomes {
                for b in bs {
                    if b & 8 != 0 { on.insert(o); } else { off.insert(o); }
                }
            }
            on.len() > 1 || off.len() > 1
        };
        if diverges {
            // name the setting(s) whose flip changes the outcome
            let mut which = vec![];
            for i in 0..5 {
                let differs = rs.iter().any(|(b, r)| rs.get(&(b ^ (1 << i))).map_or(false, |r2| {
                    let ok = |x: &serde_json::Value| {
                        !matches!(x["status"].as_str(), Some("rejected") | Some("checker-panic") | Some("interrupted") | Some("crash"))
                            && !matches!(x["class"].as_str(), Some("oom") | Some("stackoverflow"))
                    };
                    ok(r) && ok(r2) && outcome_of(r) != outcome_of(r2) && !(i == 3 && io_typed)
                }));
                if differs {
                    which.push(server::SETTING_NAMES[i]);
                }
            }
            // a divergence that is only the shadow of a failure already reported is not reported twice
            let already = failures.iter().any(|(q, _)| *q == pi);
            if !already && which == ["optimize"] {
                // an outcome that depends on `optimize` alone is C04's observable (optimisation
                // preserves behaviour), not a type-soundness failure: recorded, not flagged
                opt_div_count += 1;
                if opt_div_samples.len() < 5 {
                    let summary: Vec<String> = outcomes.iter().map(|(o, bs)| format!("{} settings: {}", bs.len(), o.chars().take(160).collect::<String>())).collect();
                    opt_div_samples.push(json!({"program": p.to_json(), "outcomes": summary}));
                }
            } else if !already && !which.is_empty() {
                let summary: Vec<String> = outcomes.iter().map(|(o, bs)| format!("{} settings: {}", bs.len(), o.chars().take(200).collect::<String>())).collect();
                failures.push((pi, Failure { key: format!("settings-divergence:{}:{:08x}", which.join("+"), fnv(p.main.as_bytes()) as u32), what: format!("the outcome of an accepted program depends on the compiler setting(s) {}", which.join(", ")), bits: *outcomes.values().nth(1).and_then(|v| v.first()).unwrap_or(&0), observed: summary.join(" || ") }));
            }
        }
        // the model runs the constructed single-module programs
        if p.constructed {
            if let Some((ast, _)) = &p.ast {
                writeln!(model_in, "(run {})", program_to_sexp(ast)).unwrap();
                writeln!(impl_out, "run ok").unwrap();
                writeln!(cases, "{}", json!({"kind": "run", "program": p.to_json()})).unwrap();
                n_lines += 1;
            }
        }
        if (p.ast.as_ref().map_or(true, |a| a.0.nontrivial())) && distinct.insert(fnv(p.main.as_bytes())) {}
        if samples.len() < 6 && (pi % 97 == 3 || p.family == "modules" && samples.len() < 2) {
            samples.push(json!({"program": p.to_json(), "outcome_base": rs.get(&BASE_BITS).map(outcome_of), "type": rs.get(&BASE_BITS).map(|r| r["type"].clone())}));
        }
    }
    }
    let crashes_b: u64 = 0;
    let crashes_c: u64 = pool.iter().map(|c| c.crashes).sum();
    model_in.flush().unwrap();
    impl_out.flush().unwrap();
    cases.flush().unwrap();

    // ---- E. shrink and write the failures (at most 3 programs per key, each with all failing settings)
    let mut fout = args.file("failures.jsonl");
    let mut per_key: BTreeMap<String, Vec<(usize, Failure)>> = BTreeMap::new();
    for (pi, f) in failures {
        per_key.entry(f.key.clone()).or_default().push((pi, f));
    }
    let child = &mut pool[0];
    for (key, fs) in &per_key {
        let mut progs_of_key: Vec<usize> = fs.iter().map(|x| x.0).collect();
        progs_of_key.dedup();
        let n_programs = progs_of_key.iter().collect::<HashSet<_>>().len();
        // smallest program first
        let mut firsts: Vec<&(usize, Failure)> = vec![];
        let mut seen = HashSet::new();
        for x in fs {
            if seen.insert(x.0) {
                firsts.push(x);
            }
        }
        firsts.sort_by_key(|x| progs[x.0].main.len());
        let (pi, f) = firsts[0];
        let p = &progs[*pi];
        let failing_bits: Vec<u32> = fs.iter().filter(|x| x.0 == *pi).map(|x| x.1.bits).collect();
        let shrunk = if shrink_budget > 0 { shrink(p, f, child, shrink_budget) } else { None };
        writeln!(fout, "{}", json!({
            "key": key, "what": f.what, "observed": f.observed, "bits": f.bits, "settings": bits_name(f.bits),
            "failing_settings": failing_bits.iter().map(|b| bits_name(*b)).collect::<Vec<_>>(),
            "n_failing_settings": failing_bits.len(),
            "program": p.to_json(),
            "shrunk": shrunk.as_ref().map(|q| q.to_json()),
            "n_programs_with_this_key": n_programs,
        })).unwrap();
    }
    fout.flush().unwrap();

    let stats = json!({
        "evaluations": n_runs,
        "distinct_nontrivial": distinct.len(),
        "rule": "distinct accepted program texts (FNV of the source) whose expression is more than a literal and binds a variable; each is run under every listed setting",
        "hist": hist.to_json(),
        "candidates": progs.len(),
        "accepted": kept.len(),
        "settings": all_bits.len(),
        "programs_run_under_all_settings": n_full,
        "programs_run_under_8_settings": kept.len() as u64 - n_full,
        "model_lines": n_lines,
        "shape_lines": n_shape_lines,
        "types_with_opaque_parts": opaque_types,
        "failure_keys": per_key.keys().collect::<Vec<_>>(),
        "checker_panics_not_c02": checker_panics,
        "constructed_rejected_by_checker": rejected_constructed,
        "child_crashes": crashes_b + crashes_c,
        "optimize_only_divergences": {"count": opt_div_count, "samples": opt_div_samples},
        "mean_run_us": if n_runs > 0 { us_total / n_runs as u64 } else { 0 },
        "samples": samples,
        "wall_s": t0.elapsed().as_secs_f64(),
    });
    gvh::out::write_json(&args.out.join("stats.json"), &stats);
    eprintln!("[c02] {} model lines, {} failure keys, {:.1}s", n_lines, per_key.len(), t0.elapsed().as_secs_f64());
}
