//! Translation of the type the REAL checker reports (`ArcType`) into the model's `ty`
//! (coq/theories/Lang/Types.v) plus the variant declarations it mentions.  Trusted glue.
//!
//! Modelled class: builtin Int/Byte/Char/String/Float, functions (explicit and implicit arguments:
//! both are passed at run time), closed records (value fields in row order; type fields carry no
//! run-time slot), applied / unapplied aliases of closed variant types whose constructors are
//! simple (`A -> B -> Self`), aliases of records (expanded), `Array a`, generic / unresolved type
//! variables (`tvar`: no value can sit there), outer and nested `forall` (stripped).
//! `IO a` is represented at run time by a function awaiting the world token
//! (vm/src/thread.rs execute_io calls the value with one argument), so it is translated to
//! `(fun (opaque) opaque)`.  Everything else (userdata, open rows, effects, GADT-style
//! constructors, …) becomes `opaque`, on which `check_shape` is vacuous.
use gluon_base::symbol::Symbol;
use gluon_base::types::{ArcType, ArgType, BuiltinType, Type};
use std::collections::BTreeMap;

#[derive(Clone, Debug, PartialEq)]
pub enum MTy {
    Int,
    Byte,
    Char,
    Str,
    Float,
    Fun(Box<MTy>, Box<MTy>),
    Rcd(Vec<(String, MTy)>),
    Data(String, Vec<MTy>),
    Arr(Box<MTy>),
    Var(String),
    Opaque,
}

#[derive(Clone, Debug, PartialEq)]
pub struct Decl {
    pub params: Vec<String>,
    pub ctors: Vec<(String, Vec<MTy>)>,
}

#[derive(Default)]
pub struct Translator {
    pub decls: BTreeMap<String, Decl>,
    /// constructs that fell outside the modelled class (for statistics)
    pub opaque_reasons: Vec<String>,
    anon: u32,
}

fn atom(s: &str) -> String {
    // names become s-expression atoms: keep them free of blanks and parentheses
    s.chars().map(|c| if c.is_whitespace() || c == '(' || c == ')' { '_' } else { c }).collect()
}

fn sym(s: &Symbol) -> String {
    atom(s.declared_name())
}

impl Translator {
    pub fn new() -> Translator {
        Translator::default()
    }

    fn opaque(&mut self, why: &str) -> MTy {
        if self.opaque_reasons.len() < 16 {
            self.opaque_reasons.push(why.to_string());
        }
        MTy::Opaque
    }

    pub fn tr(&mut self, t: &ArcType) -> MTy {
        self.go(t, &[], 0)
    }

    fn go(&mut self, t: &ArcType, sub: &[(String, MTy)], depth: u32) -> MTy {
        if depth > 40 {
            return self.opaque("depth");
        }
        match &**t {
            Type::Forall(_, body) => self.go(body, sub, depth + 1),
            Type::Builtin(b) => match b {
                BuiltinType::Int => MTy::Int,
                BuiltinType::Byte => MTy::Byte,
                BuiltinType::Char => MTy::Char,
                BuiltinType::String => MTy::Str,
                BuiltinType::Float => MTy::Float,
                _ => self.opaque("builtin constructor"),
            },
            Type::Function(at, a, r) => {
                let _ = at == &ArgType::Implicit;
                let a = self.go(a, sub, depth + 1);
                let r = self.go(r, sub, depth + 1);
                MTy::Fun(Box::new(a), Box::new(r))
            }
            Type::App(f, args) => match &**f {
                Type::Builtin(BuiltinType::Array) if args.len() == 1 => MTy::Arr(Box::new(self.go(&args[0], sub, depth + 1))),
                Type::Builtin(BuiltinType::Function) if args.len() == 2 => {
                    let a = self.go(&args[0], sub, depth + 1);
                    let r = self.go(&args[1], sub, depth + 1);
                    MTy::Fun(Box::new(a), Box::new(r))
                }
                Type::Alias(alias) => {
                    let targs: Vec<MTy> = args.iter().map(|a| self.go(a, sub, depth + 1)).collect();
                    self.alias(&alias.name, alias.params().iter().map(|g| atom(g.id.declared_name())).collect(), alias.unresolved_type(), targs, depth)
                }
                Type::Ident(id) => {
                    let targs: Vec<MTy> = args.iter().map(|a| self.go(a, sub, depth + 1)).collect();
                    self.ident(&id.name, targs)
                }
                _ => self.opaque("application"),
            },
            Type::Record(row) => self.record(row, sub, depth),
            Type::Variant(row) => {
                self.anon += 1;
                let name = format!("anon_variant_{}", self.anon);
                match self.variant_decl(&name, vec![], row, depth) {
                    true => MTy::Data(name, vec![]),
                    false => self.opaque("open or non-simple variant"),
                }
            }
            Type::Alias(alias) => {
                self.alias(&alias.name, alias.params().iter().map(|g| atom(g.id.declared_name())).collect(), alias.unresolved_type(), vec![], depth)
            }
            Type::Ident(id) => self.ident(&id.name, vec![]),
            Type::Generic(g) => {
                let n = atom(g.id.declared_name());
                match sub.iter().find(|(k, _)| *k == n) {
                    Some((_, t)) => t.clone(),
                    None => MTy::Var(n),
                }
            }
            Type::Variable(v) => MTy::Var(format!("_{}", v.id)),
            Type::Skolem(s) => MTy::Var(format!("{}_{}", atom(s.name.declared_name()), s.id)),
            Type::Opaque => self.opaque("opaque"),
            Type::Hole => self.opaque("hole"),
            Type::Error => self.opaque("error"),
            Type::Effect(_) => self.opaque("effect"),
            Type::EmptyRow | Type::ExtendRow { .. } | Type::ExtendTypeRow { .. } => self.opaque("bare row"),
            Type::Projection(_) => self.opaque("projection"),
        }
    }

    fn record(&mut self, row: &ArcType, sub: &[(String, MTy)], depth: u32) -> MTy {
        let mut fields = vec![];
        let mut it = gluon_base::types::row_iter(row);
        for f in it.by_ref() {
            fields.push((atom(f.name.declared_name()), f.typ.clone()));
        }
        // the rest of the row must be closed, otherwise the layout is unknown
        let mut rest = it.current_type();
        loop {
            match &**rest {
                Type::EmptyRow => break,
                Type::ExtendTypeRow { rest: r, .. } => rest = r,
                _ => return self.opaque("open record row"),
            }
        }
        let fs = fields.into_iter().map(|(n, t)| (n, self.go(&t, sub, depth + 1))).collect();
        MTy::Rcd(fs)
    }

    /// registers `name` as a declared variant; false when the variant is outside the modelled class
    fn variant_decl(&mut self, name: &str, params: Vec<String>, row: &ArcType, depth: u32) -> bool {
        let mut ctors_src = vec![];
        let mut it = gluon_base::types::row_iter(row);
        for f in it.by_ref() {
            ctors_src.push((atom(f.name.declared_name()), f.typ.clone()));
        }
        if !matches!(&**it.current_type(), Type::EmptyRow) {
            return false;
        }
        // register first: constructor fields may mention the type itself
        self.decls.insert(name.to_string(), Decl { params: params.clone(), ctors: vec![] });
        let mut ctors = vec![];
        for (c, t) in ctors_src {
            let mut args = vec![];
            let mut cur = t;
            loop {
                let next = match &*cur {
                    Type::Function(_, a, r) => {
                        args.push(a.clone());
                        r.clone()
                    }
                    Type::Opaque => break,
                    _ => {
                        self.decls.remove(name);
                        return false;
                    }
                };
                cur = next;
            }
            let targs = args.iter().map(|a| self.go(a, &[], depth + 1)).collect();
            ctors.push((c, targs));
        }
        self.decls.insert(name.to_string(), Decl { params, ctors });
        true
    }

    fn alias(&mut self, name: &Symbol, params: Vec<String>, body: &ArcType, targs: Vec<MTy>, depth: u32) -> MTy {
        let n = sym(name);
        if n == "IO" || n.ends_with(".IO") {
            return MTy::Fun(Box::new(MTy::Opaque), Box::new(MTy::Opaque));
        }
        let mut body = body;
        while let Type::Forall(_, b) = &**body {
            body = b;
        }
        match &**body {
            Type::Variant(row) => {
                if !self.decls.contains_key(&n) {
                    if !self.variant_decl(&n, params, row, depth) {
                        return self.opaque("open or non-simple variant alias");
                    }
                }
                MTy::Data(n, targs)
            }
            Type::Record(_) | Type::Function(..) | Type::Builtin(_) | Type::App(..) | Type::Alias(_) => {
                if params.len() != targs.len() {
                    return self.opaque("partially applied alias");
                }
                let sub: Vec<(String, MTy)> = params.into_iter().zip(targs.into_iter()).collect();
                self.go(&body.clone(), &sub, depth + 1)
            }
            _ => self.opaque("alias of unmodelled type"),
        }
    }

    fn ident(&mut self, name: &Symbol, targs: Vec<MTy>) -> MTy {
        let n = sym(name);
        if self.decls.contains_key(&n) {
            MTy::Data(n, targs)
        } else {
            self.opaque("unresolved type identifier")
        }
    }
}

// ---------------------------------------------------------------- s-expressions (format of harness/src/mg/sexp.rs + `opaque`)
pub fn ty_sexp(t: &MTy, out: &mut String) {
    match t {
        MTy::Int => out.push_str("int"),
        MTy::Byte => out.push_str("byte"),
        MTy::Char => out.push_str("char"),
        MTy::Str => out.push_str("str"),
        MTy::Float => out.push_str("float"),
        MTy::Opaque => out.push_str("opaque"),
        MTy::Fun(a, r) => {
            out.push_str("(fun (");
            ty_sexp(a, out);
            out.push_str(") ");
            ty_sexp(r, out);
            out.push(')');
        }
        MTy::Rcd(fs) => {
            out.push_str("(trcd (");
            for (i, (l, x)) in fs.iter().enumerate() {
                if i > 0 {
                    out.push(' ');
                }
                out.push_str(&format!("({} ", l));
                ty_sexp(x, out);
                out.push(')');
            }
            out.push_str("))");
        }
        MTy::Data(n, ts) => {
            out.push_str(&format!("(named {}", n));
            for x in ts {
                out.push(' ');
                ty_sexp(x, out);
            }
            out.push(')');
        }
        MTy::Arr(x) => {
            out.push_str("(tarr ");
            ty_sexp(x, out);
            out.push(')');
        }
        MTy::Var(v) => out.push_str(&format!("(tvar {})", v)),
    }
}

pub fn decls_sexp(decls: &BTreeMap<String, Decl>) -> String {
    let mut out = String::from("(types");
    for (name, d) in decls {
        out.push_str(&format!(" ({} ({}) (", name, d.params.join(" ")));
        for (i, (c, ts)) in d.ctors.iter().enumerate() {
            if i > 0 {
                out.push(' ');
            }
            out.push_str(&format!("({} {}", c, i));
            for t in ts {
                out.push(' ');
                ty_sexp(t, &mut out);
            }
            out.push(')');
        }
        out.push_str("))");
    }
    out.push(')');
    out
}

/// `<decls> <type>` of a reported type
pub fn reported_type_sexp(t: &ArcType) -> (String, Vec<String>) {
    let mut tr = Translator::new();
    let m = tr.tr(t);
    let mut s = decls_sexp(&tr.decls);
    s.push(' ');
    ty_sexp(&m, &mut s);
    (s, tr.opaque_reasons)
}
