//! Multi-module programs: 2–4 modules registered with the VM (`add_module`) that import each other
//! with `import!`.  Module kinds: a plain first-order value, a record of functions, a module that
//! re-exports an earlier module through a generated function, and `IO a` actions (std.io), also
//! inside a record.  The main program imports them and uses them at their types.
use gvh::mg::ast::*;
use gvh::mg::generate::{gen_program_of, GenConfig};
use gvh::mg::print::{header, to_gluon, Style};
use gvh::rng::Rng;

pub struct ModProg {
    pub modules: Vec<(String, String)>,
    pub main: String,
    pub tags: Vec<String>,
    /// the constructed type of the main expression when it is inside MiniGluon (no IO)
    pub ty: Option<Ty>,
    pub types: Vec<TypeDecl>,
}

fn small_cfg(cfg: &GenConfig) -> GenConfig {
    let mut c = cfg.clone();
    c.max_depth = 3;
    c.max_size = 25;
    // a module whose body fails cannot be imported: keep the bodies (mostly) total
    c.weights.error_pm = 0;
    c.weights.boundary_pct = 0;
    c.features.partial_matches = false;
    c.features.array_prims = false;
    c
}

fn first_order_ty(rng: &mut Rng) -> Ty {
    match rng.below(6) {
        0 => Ty::Int,
        1 => Ty::Str,
        2 => Ty::Tuple(vec![Ty::Int, Ty::Bool]),
        3 => Ty::Record(vec![("a".into(), Ty::Int), ("b".into(), Ty::Str)]),
        4 => Ty::Named("Opt".into(), vec![Ty::Int]),
        _ => Ty::named("T"),
    }
}

fn fun_record_ty(rng: &mut Rng) -> Ty {
    let mut fs = vec![("inc".to_string(), Ty::Fun(vec![Ty::Int], Box::new(Ty::Int)))];
    if rng.chance(1, 2) {
        fs.push(("pair".into(), Ty::Fun(vec![Ty::Int, Ty::Str], Box::new(Ty::Tuple(vec![Ty::Int, Ty::Str])))));
    }
    if rng.chance(1, 2) {
        fs.push(("k".into(), first_order_ty(rng)));
    }
    if rng.chance(1, 3) {
        fs.push(("pick".into(), Ty::Fun(vec![Ty::named("T")], Box::new(Ty::Int))));
    }
    Ty::Record(fs)
}

/// the text of a module whose value is the generated closed program `p`
fn module_text(p: &Program, st: &Style) -> String {
    to_gluon(p, st)
}

/// `P dep…` where `P` is a generated closed function from the dependencies' types to `res`:
/// the module / main text, with the `let depK = import! name` lines after the header.
fn applied_text(rng: &mut Rng, cfg: &GenConfig, deps: &[(String, Ty)], res: &Ty, st: &Style) -> (String, Program) {
    let fty = Ty::fun(deps.iter().map(|d| d.1.clone()).collect(), res.clone());
    let f = gen_program_of(rng, cfg, &fty);
    let args: Vec<Expr> = (0..deps.len()).map(|i| Expr::Var(format!("dep{}", i))).collect();
    let whole = Program { types: f.types.clone(), expr: Expr::App(Box::new(f.expr.clone()), args), ty: res.clone() };
    let text = to_gluon(&whole, st);
    // insert the imports after the header lines
    let h = header(&whole, st).len();
    let tail = if st.layout { "" } else { " in" };
    let mut out = String::new();
    for (i, l) in text.lines().enumerate() {
        if i == h {
            for (k, (name, _)) in deps.iter().enumerate() {
                out.push_str(&format!("let dep{} = import! {}{}\n", k, name, tail));
            }
        }
        out.push_str(l);
        out.push('\n');
    }
    (out, whole)
}

pub fn gen_modules(rng: &mut Rng, cfg: &GenConfig, uid: u64) -> ModProg {
    let cfg = small_cfg(cfg);
    let st = if rng.chance(1, 2) { Style::explicit() } else { Style::layout() };
    let mut tags = vec![];
    let mut modules: Vec<(String, String)> = vec![];
    // the MiniGluon modules: (name, type)
    let mut deps: Vec<(String, Ty)> = vec![];
    let n_plain = 1 + rng.below(2) as usize; // 1..2 generated library modules
    for i in 0..n_plain {
        let name = format!("c02m_{}_{}", uid, i);
        let kind = rng.below(3);
        if kind == 0 || deps.is_empty() && kind == 2 {
            let ty = first_order_ty(rng);
            let p = gen_program_of(rng, &cfg, &ty);
            modules.push((name.clone(), module_text(&p, &st)));
            deps.push((name, ty));
            tags.push("mod:value".into());
        } else if kind == 1 {
            let ty = fun_record_ty(rng);
            let p = gen_program_of(rng, &cfg, &ty);
            modules.push((name.clone(), module_text(&p, &st)));
            deps.push((name, ty));
            tags.push("mod:record-of-functions".into());
        } else {
            // re-export: a module computed from the earlier ones
            let ty = if rng.chance(1, 2) { first_order_ty(rng) } else { fun_record_ty(rng) };
            let (text, _) = applied_text(rng, &cfg, &deps, &ty, &st);
            modules.push((name.clone(), text));
            deps.push((name, ty));
            tags.push("mod:re-export".into());
        }
    }
    // optionally an IO module
    let io_kind = rng.below(4); // 0: none
    let res_ty = first_order_ty(rng);
    if io_kind == 0 {
        let (main, whole) = applied_text(rng, &cfg, &deps, &res_ty, &st);
        return ModProg { modules, main, tags, ty: Some(whole.ty.clone()), types: whole.types };
    }
    let io_name = format!("c02m_{}_io", uid);
    let n = rng.range(0, 9);
    let (io_src, io_use): (String, String) = match io_kind {
        1 => {
            tags.push("mod:io-unit".into());
            (format!("let io = import! std.io\nio.println \"m{}\"\n", n), "m".into())
        }
        2 => {
            tags.push("mod:io-int".into());
            (format!("let io = import! std.io\nio.applicative.wrap {}\n", n), "m".into())
        }
        _ => {
            tags.push("mod:record-with-io".into());
            (format!("let io = import! std.io\n{{ act = io.applicative.wrap {}, k = {} }}\n", n, n + 1), "m.act".into())
        }
    };
    modules.push((io_name.clone(), io_src));
    tags.push("imports-io-module".into());
    // main: the MiniGluon part is computed first (a value `v`), then the IO module is used as an IO value
    let (pure_text, _) = applied_text(rng, &cfg, &deps, &res_ty, &Style::explicit());
    // `pure_text` ends with the expression; bind it
    let h = pure_text.lines().filter(|l| l.ends_with(" in")).count();
    let _ = h;
    let usage = match rng.below(4) {
        0 => {
            tags.push("io-use:flat_map".into());
            format!("io.monad.flat_map (\\_ -> io.applicative.wrap v) {}", io_use)
        }
        1 => {
            tags.push("io-use:return-action".into());
            io_use.clone()
        }
        2 => {
            tags.push("io-use:in-record".into());
            format!("{{ act = {}, v }}", io_use)
        }
        _ => {
            tags.push("io-use:flat_map-result".into());
            format!("io.monad.flat_map (\\x -> io.applicative.wrap (x, v)) {}", io_use)
        }
    };
    // explicit style: everything before the final expression are `… in` lines; wrap the final
    // expression (possibly several lines) in `let v =\n <expr>\nin`
    let lines: Vec<&str> = pure_text.lines().collect();
    let mut split = 0;
    for (i, l) in lines.iter().enumerate() {
        if l.starts_with("let ") && l.ends_with(" in") || l.starts_with("type ") && l.ends_with(" in") {
            split = i + 1;
        } else {
            break;
        }
    }
    let mut main = String::new();
    main.push_str("let io = import! std.io in\n");
    main.push_str(&format!("let m = import! {} in\n", io_name));
    for l in &lines[..split] {
        main.push_str(l);
        main.push('\n');
    }
    main.push_str("let v =\n");
    for l in &lines[split..] {
        main.push_str("    ");
        main.push_str(l);
        main.push('\n');
    }
    main.push_str("in\n");
    main.push_str(&usage);
    main.push('\n');
    ModProg { modules, main, tags, ty: None, types: vec![] }
}
