//! Higher-rank programs: functions that take polymorphic functions (explicit `forall` in parameter
//! position), records with fields of polymorphic function type, rank-2 function VALUES flowing
//! through signatures / arguments / typed record fields — and their ill-typed mutants (a value
//! used at the wrong rank), which the real checker must reject; a mutant it accepts is run and
//! monitored like every accepted program (its body applies a monomorphic function at a second
//! type, so an unsound acceptance goes wrong observably).
//!
//! The programs are text templates (MiniGluon has no `forall` types); they are not run by the
//! reference semantics, only by the real implementation under the monitor.
use gvh::rng::Rng;

pub struct RankProg {
    pub main: String,
    pub tags: Vec<String>,
    /// constructed to be well typed (false: an ill-typed mutant)
    pub well_typed: bool,
}

/// a kind of polymorphic function type together with implementations, consumers that use the
/// argument at two different types, and a monomorphic instance
struct Kind {
    name: &'static str,
    poly: &'static str,
    poly_impls: &'static [&'static str],
    /// (result type, body using `f` at two types)
    consumers: &'static [(&'static str, &'static str)],
    mono: &'static str,
    mono_impls: &'static [&'static str],
    /// (result type, body using `f` at the monomorphic type only)
    mono_consumers: &'static [(&'static str, &'static str)],
}

const KINDS: [Kind; 4] = [
    Kind {
        name: "id",
        poly: "forall a . a -> a",
        poly_impls: &["\\x -> x", "\\x -> let y = x in y", "\\x -> (\\z -> z) x"],
        consumers: &[
            ("(Int, String)", "(f 1, f \"s\")"),
            ("Int", "let _ = f \"not an int\" in f 1"),
            ("String", "let _ = f 2 in f \"a string\""),
            ("{ a : Int, b : Char }", "{ a = f 1, b = f 'c' }"),
            ("Int", "f (f 2) #Int+ (let _ = f \"t\" in 0)"),
        ],
        mono: "Int -> Int",
        mono_impls: &["\\x -> x #Int+ 1", "\\x -> 1", "\\x -> x #Int* x"],
        mono_consumers: &[("Int", "f 1 #Int+ 1"), ("(Int, Int)", "(f 2, f 3)")],
    },
    Kind {
        name: "k2",
        poly: "forall a . a -> a -> a",
        poly_impls: &["\\x y -> x", "\\x y -> y"],
        consumers: &[("(Int, String)", "(f 1 2, f \"a\" \"b\")"), ("String", "let _ = f 1 2 in f \"p\" \"q\"")],
        mono: "Int -> Int -> Int",
        mono_impls: &["\\x y -> x #Int+ y", "\\x y -> x #Int- y"],
        mono_consumers: &[("Int", "f 1 2")],
    },
    Kind {
        name: "ci",
        poly: "forall a . a -> Int",
        poly_impls: &["\\_ -> 7", "\\x -> let _ = x in 3"],
        consumers: &[("Int", "f 1 #Int+ f \"s\""), ("(Int, Int)", "(f 'c', f { k = 1 })")],
        mono: "Int -> Int",
        mono_impls: &["\\x -> x #Int* 2", "\\x -> x #Int+ 40"],
        mono_consumers: &[("Int", "f 5")],
    },
    Kind {
        name: "dup",
        poly: "forall a . a -> (a, a)",
        poly_impls: &["\\x -> (x, x)"],
        consumers: &[("((Int, Int), (String, String))", "(f 1, f \"s\")"), ("(String, String)", "let _ = f 1 in f \"d\"")],
        mono: "Int -> (Int, Int)",
        mono_impls: &["\\x -> (x, x #Int+ 1)", "\\x -> (0, x)"],
        mono_consumers: &[("(Int, Int)", "f 4")],
    },
];

pub fn gen_rankn(rng: &mut Rng) -> RankProg {
    let k = &KINDS[rng.below(KINDS.len() as u64) as usize];
    let (res, body) = *rng.pick(k.consumers);
    let pimpl = *rng.pick(k.poly_impls);
    let mimpl = *rng.pick(k.mono_impls);
    let (mres, mbody) = *rng.pick(k.mono_consumers);
    let form = rng.below(16);
    let mut tags = vec![format!("rank-n:{}", k.name)];
    let (main, well_typed, what): (String, bool, &str) = match form {
        // ---------------- well typed by construction
        0 => (format!("let use f : ({}) -> {} = {}\nuse ({})\n", k.poly, res, body, pimpl), true, "apply-rank2"),
        1 => (
            format!("type P = {{ fld : {} }}\nlet r : P = {{ fld = {} }}\n{}\n", k.poly, pimpl, body.replace("f ", "r.fld ")),
            true,
            "poly-record-field",
        ),
        2 => (
            format!(
                "let use f : ({p}) -> {r} = {b}\nlet app g h : (({p}) -> {r}) -> ({p}) -> {r} = g h\napp use ({i})\n",
                p = k.poly,
                r = res,
                b = body,
                i = pimpl
            ),
            true,
            "pass-rank2-function",
        ),
        3 => (format!("let use f : ({p}) -> {r} = {b}\nlet g : ({p}) -> {r} = use\ng ({i})\n", p = k.poly, r = res, b = body, i = pimpl), true, "rebind-same-rank"),
        4 => (
            // the legal direction: a function that needs less of its argument flows where a
            // polymorphic argument will be supplied
            format!("let usei f : ({m}) -> {r} = {b}\nlet g : ({p}) -> {r} = usei\ng ({i})\n", m = k.mono, p = k.poly, r = mres, b = mbody, i = pimpl),
            true,
            "flow-less-polymorphic-argument",
        ),
        5 => (
            format!("let use f : ({p}) -> {r} = {b}\ntype H = {{ h : ({p}) -> {r} }}\nlet rec_ : H = {{ h = use }}\nrec_.h ({i})\n", p = k.poly, r = res, b = body, i = pimpl),
            true,
            "rank2-function-in-record",
        ),
        6 => (
            format!("let use f : ({p}) -> {r} = {b}\nlet pick c : Int -> ({p}) -> {r} = use\n(pick 0) ({i})\n", p = k.poly, r = res, b = body, i = pimpl),
            true,
            "return-rank2-function",
        ),
        7 => (
            format!("let poly : {p} = {i}\nlet use f : ({p}) -> {r} = {b}\nuse poly\n", p = k.poly, r = res, b = body, i = pimpl),
            true,
            "named-polymorphic-argument",
        ),
        // ---------------- ill-typed mutants: a value used at the wrong rank
        8 => (
            format!("let use f : ({p}) -> {r} = {b}\nlet g : ({m}) -> {r} = use\ng ({mi})\n", p = k.poly, m = k.mono, r = res, b = body, mi = mimpl),
            false,
            "mutant:flow-into-monomorphic-signature",
        ),
        9 => (
            format!(
                "let use f : ({p}) -> {r} = {b}\nlet app g h : (({m}) -> {r}) -> ({m}) -> {r} = g h\napp use ({mi})\n",
                p = k.poly,
                m = k.mono,
                r = res,
                b = body,
                mi = mimpl
            ),
            false,
            "mutant:flow-into-monomorphic-parameter",
        ),
        10 => (
            format!("let use f : ({p}) -> {r} = {b}\ntype H = {{ h : ({m}) -> {r} }}\nlet rec_ : H = {{ h = use }}\nrec_.h ({mi})\n", p = k.poly, m = k.mono, r = res, b = body, mi = mimpl),
            false,
            "mutant:flow-into-monomorphic-field",
        ),
        11 => (format!("let use f : ({p}) -> {r} = {b}\nuse ({mi})\n", p = k.poly, r = res, b = body, mi = mimpl), false, "mutant:monomorphic-argument"),
        12 => (
            format!("type P = {{ fld : {} }}\nlet r : P = {{ fld = {} }}\n{}\n", k.poly, mimpl, body.replace("f ", "r.fld ")),
            false,
            "mutant:monomorphic-record-field",
        ),
        13 => (format!("let use f = {}\nuse ({})\n", body, pimpl), false, "mutant:unannotated-rank2"),
        14 => (
            format!("let use f : ({p}) -> {r} = {b}\nlet pick c : Int -> ({m}) -> {r} = use\n(pick 0) ({mi})\n", p = k.poly, m = k.mono, r = res, b = body, mi = mimpl),
            false,
            "mutant:return-at-monomorphic-type",
        ),
        _ => (
            format!("let use f : ({p}) -> {r} = {b}\nlet g : ({m}) -> {r} = \\h -> use h\ng ({mi})\n", p = k.poly, m = k.mono, r = res, b = body, mi = mimpl),
            false,
            "mutant:eta-expanded-flow",
        ),
    };
    tags.push(what.to_string());
    RankProg { main, tags, well_typed }
}
