//! C08 (infix part): real parser + rename + metadata + reparse_infix on generated operator
//! chains, printed in the same line format as the extracted model (`coq/extract/c08`).
//!
//! Output files in --out:
//!   model_in.txt   one case per line for the model driver
//!   impl_out.txt   one canonical result line per case (same order)
//!   cases.txt      the Gluon source of each case (one line, for replays)
//!   stats.json     input distribution
use gluon::compiler_pipeline::InfixReparseable;
use gluon::ThreadExt;
use gluon_base::ast::{Expr, Literal, SpannedExpr};
use gluon_base::symbol::Symbol;
use gvh::out::{Args, Hist, fnv};
use gvh::rng::Rng;
use std::io::Write;

#[derive(Clone)]
struct Op {
    name: &'static str,
    prec: i32,
    left: bool,
    user: bool,
}

fn table() -> Vec<Op> {
    let u = |name, prec, left| Op { name, prec, left, user: true };
    let b = |name, prec, left| Op { name, prec, left, user: false };
    vec![
        u("+++", 5, true),
        u("---", 5, true),
        u("***", 5, false),
        u("^^^", 5, false),
        u("<|", 3, true),
        u("|>", 3, false),
        u("<<<", 7, true),
        u(">>>", 7, false),
        u("%%", 6, true),
        // built-in table rows, reached through the `#Type` prefix rule / `&&` `||`
        b("#Int+", 6, true),
        b("#Int*", 7, true),
        b("#Int==", 4, true),
        b("&&", 3, false),
        b("||", 2, false),
        b("#Float-", 6, true),
        b("#Byte<", 4, true),
    ]
}

#[derive(Clone, Debug)]
enum Operand {
    Lit(u32),
    App(u32),
    Paren(Box<Chain>),
}
#[derive(Clone, Debug)]
struct Chain {
    first: Operand,
    rest: Vec<(usize, Operand)>,
}

fn chain_src(c: &Chain, t: &[Op], out: &mut String) {
    operand_src(&c.first, t, out);
    for (o, a) in &c.rest {
        out.push(' ');
        out.push_str(t[*o].name);
        out.push(' ');
        operand_src(a, t, out);
    }
}
fn operand_src(o: &Operand, t: &[Op], out: &mut String) {
    match o {
        Operand::Lit(k) => out.push_str(&k.to_string()),
        Operand::App(k) => out.push_str(&format!("f {} 0", k)),
        Operand::Paren(c) => {
            out.push('(');
            chain_src(c, t, out);
            out.push(')');
        }
    }
}
fn chain_model(c: &Chain, out: &mut String) {
    out.push_str("[ ");
    operand_model(&c.first, out);
    for (o, a) in &c.rest {
        out.push_str(&format!("{} ", o));
        operand_model(a, out);
    }
    out.push_str("] ");
}
fn operand_model(o: &Operand, out: &mut String) {
    match o {
        Operand::Lit(k) => out.push_str(&format!("{} ", k)),
        Operand::App(k) => out.push_str(&format!("a{} ", k)),
        Operand::Paren(c) => chain_model(c, out),
    }
}

fn name_bytes(s: &str) -> String {
    s.bytes().map(|b| b.to_string()).collect::<Vec<_>>().join(".")
}

fn prelude_src(t: &[Op]) -> String {
    let mut s = String::new();
    s.push_str("let f x y = x\n");
    for o in t.iter().filter(|o| o.user) {
        s.push_str(&format!(
            "#[infix({}, {})]\nlet ({}) x y = x\n",
            if o.left { "left" } else { "right" },
            o.prec,
            o.name
        ));
    }
    s
}

fn show(e: &SpannedExpr<Symbol>, t: &[Op], out: &mut String) {
    match &e.value {
        Expr::Literal(Literal::Int(k)) => out.push_str(&format!("(l {})", k)),
        Expr::App { args, .. } => match &args[0].value {
            Expr::Literal(Literal::Int(k)) => out.push_str(&format!("(a {})", k)),
            _ => out.push_str("(?app)"),
        },
        Expr::Tuple { elems, .. } if elems.len() == 1 => {
            out.push_str("(p ");
            show(&elems[0], t, out);
            out.push(')');
        }
        Expr::Infix { lhs, op, rhs, .. } => {
            let n = op.value.name.declared_name();
            let idx = t.iter().position(|o| o.name == n).map(|i| i.to_string()).unwrap_or_else(|| format!("?{}", n));
            out.push_str("(n ");
            show(lhs, t, out);
            out.push_str(&format!(" {} ", idx));
            show(rhs, t, out);
            out.push(')');
        }
        Expr::Error(_) => out.push_str("(error)"),
        _ => out.push_str("(?)"),
    }
}

fn body<'a, 'ast>(e: &'a SpannedExpr<'ast, Symbol>) -> &'a SpannedExpr<'ast, Symbol> {
    match &e.value {
        Expr::LetBindings(_, b) => body(b),
        _ => e,
    }
}

fn run_impl(vm: &gluon::RootedThread, src: &str, t: &[Op]) -> String {
    let mut db = vm.get_database();
    let mut compiler = vm.module_compiler(&mut db);
    let r = futures::executor::block_on(src.reparse_infix(&mut compiler, vm, "c08", src));
    match r {
        Ok(v) => {
            let mut s = String::from("ok ");
            show(body(v.expr.expr()), t, &mut s);
            s
        }
        Err(gluon_base::error::Salvage { error, .. }) => canonical_error(&error, t),
    }
}

fn canonical_error(e: &gluon::Error, t: &[Op]) -> String {
    // Conflicting fixities are rendered by infix::Error's Display:
    //   "Conflicting fixities at the same precedence level. left: `infixl 5 +++`, right: `infixr 5 ***`"
    let text = format!("{}", e);
    let mut out = String::from("conflicts");
    let mut found = false;
    for line in text.lines() {
        if let Some(pos) = line.find("Conflicting fixities at the same precedence level. left: `") {
            let rest = &line[pos..];
            let parts: Vec<&str> = rest.split('`').collect();
            // parts[1] = "infixl 5 +++", parts[3] = "infixr 5 ***"
            if parts.len() >= 4 {
                let f = |p: &str| -> String {
                    let ws: Vec<&str> = p.split_whitespace().collect();
                    if ws.len() != 3 {
                        return format!("?{}", p);
                    }
                    let idx = t
                        .iter()
                        .position(|o| o.name == ws[2] && o.prec.to_string() == ws[1] && (if o.left { "infixl" } else { "infixr" }) == ws[0])
                        .map(|i| i.to_string())
                        .unwrap_or_else(|| format!("?{}", p.replace(' ', "_")));
                    idx
                };
                out.push_str(&format!(" ({} {})", f(parts[1]), f(parts[3])));
                found = true;
            }
        }
    }
    if found { out } else { format!("error {}", text.replace('\n', " | ")) }
}

fn gen_chain(rng: &mut Rng, t: &[Op], ops_pool: &[usize], len: usize, depth: u32, next_id: &mut u32) -> Chain {
    let mut operand = |rng: &mut Rng, next_id: &mut u32| -> Operand {
        let k = *next_id;
        *next_id += 1;
        if depth > 0 && rng.chance(1, 5) {
            let l = rng.below(4) as usize;
            Operand::Paren(Box::new(gen_chain(rng, t, ops_pool, l, depth - 1, next_id)))
        } else if rng.chance(1, 6) {
            Operand::App(k)
        } else {
            Operand::Lit(k)
        }
    };
    let first = operand(rng, next_id);
    let mut rest = vec![];
    for _ in 0..len {
        let o = *rng.pick(ops_pool);
        let a = operand(rng, next_id);
        rest.push((o, a));
    }
    Chain { first, rest }
}

fn main() {
    let args = Args::parse();
    let t = table();
    let new_vm = || {
        let vm = gluon::VmBuilder::new().build();
        vm.get_database_mut().implicit_prelude(false);
        vm
    };
    // the compiler database accumulates one file map per parsed source: renew the VM regularly
    let mut vm = new_vm();
    let prelude = prelude_src(&t);
    let user_field: String = t
        .iter()
        .filter(|o| o.user)
        .map(|o| format!("{}:{}:{}", name_bytes(o.name), o.prec, if o.left { "L" } else { "R" }))
        .collect::<Vec<_>>()
        .join(",");
    let ops_field: String = t.iter().map(|o| name_bytes(o.name)).collect::<Vec<_>>().join(",");

    let mut model_in = args.file("model_in.txt");
    let mut impl_out = args.file("impl_out.txt");
    let mut cases = args.file("cases.txt");
    let mut hist = Hist::default();
    let mut distinct = std::collections::HashSet::new();
    let mut n_cases = 0u64;
    let mut nontrivial = 0u64;

    let mut emit = |c: &Chain, family: &str, hist: &mut Hist| {
        let mut src = String::new();
        chain_src(c, &t, &mut src);
        let full = format!("{}{}", prelude, src);
        if n_cases % 2000 == 1999 {
            vm = new_vm();
        }
        let r = run_impl(&vm, &full, &t);
        let mut m = String::new();
        chain_model(c, &mut m);
        writeln!(model_in, "u={};ops={};chain={}", user_field, ops_field, m.trim_end()).unwrap();
        writeln!(impl_out, "{}", r).unwrap();
        writeln!(cases, "{}", src).unwrap();
        n_cases += 1;
        hist.add(&format!("family:{}", family));
        hist.add(&format!("len:{}", c.rest.len()));
        hist.add(if r.starts_with("ok") { "impl:ok" } else if r.starts_with("conflicts") { "impl:conflict" } else { "impl:other" });
        if c.rest.len() >= 2 && distinct.insert(fnv(src.as_bytes())) {
            nontrivial += 1;
        }
    };

    if let Some(path) = &args.replay {
        // replay file: JSON with "case": source of the chain in the model line format is not
        // needed; we re-run the stored source text.
        let v: serde_json::Value = serde_json::from_str(&std::fs::read_to_string(path).expect("replay file")).expect("json");
        let src = v["case"]["source"].as_str().expect("case.source").to_string();
        let full = format!("{}{}", prelude, src);
        println!("source: {}", src);
        println!("impl: {}", run_impl(&vm, &full, &t));
        println!("expected(model): {}", v["expected"].as_str().unwrap_or("?"));
        return;
    }

    // Family 1: exhaustive flat chains over the 9 user operators (every precedence relation x
    // fixity combination), length <= 4 (quick) / 5 (thorough; 6 and 7 by VERIF_C08_MAXLEN).
    let user_ops: Vec<usize> = (0..t.len()).filter(|i| t[*i].user).collect();
    let maxlen: usize = args
        .extra
        .get("maxlen")
        .and_then(|s| s.parse().ok())
        .unwrap_or(if args.thorough() { 6 } else { 5 });
    for len in 0..=maxlen {
        let n = user_ops.len();
        let total = n.pow(len as u32);
        for code in 0..total {
            let mut c = code;
            let mut rest = vec![];
            for i in 0..len {
                rest.push((user_ops[c % n], Operand::Lit(i as u32 + 1)));
                c /= n;
            }
            let chain = Chain { first: Operand::Lit(0), rest };
            emit(&chain, "exhaustive-user", &mut hist);
        }
    }
    // Family 2: exhaustive flat chains over the built-in rows, length <= 3 (quick) / 4.
    let builtin_ops: Vec<usize> = (0..t.len()).filter(|i| !t[*i].user).collect();
    let bl = if args.thorough() { 4 } else { 3 };
    for len in 1..=bl {
        let n = builtin_ops.len();
        for code in 0..n.pow(len as u32) {
            let mut c = code;
            let mut rest = vec![];
            for i in 0..len {
                rest.push((builtin_ops[c % n], Operand::Lit(i as u32 + 1)));
                c /= n;
            }
            emit(&Chain { first: Operand::Lit(0), rest }, "exhaustive-builtin", &mut hist);
        }
    }
    // Family 3: random long / nested chains over all operators; half of them drawn from a
    // conflict-free sub-table so that long successful re-associations are exercised too.
    let mut rng = Rng::new(args.seed);
    let all_ops: Vec<usize> = (0..t.len()).collect();
    let conflict_free: Vec<usize> = (0..t.len())
        .filter(|i| {
            let o = &t[*i];
            // keep one fixity per precedence level: L at 5,6,7,4 and R at 3,2
            match o.prec {
                5 | 6 | 7 | 4 => o.left,
                _ => !o.left,
            }
        })
        .collect();
    let nrand = if args.thorough() { 40000 } else { 4000 };
    for i in 0..nrand {
        let pool = if i % 2 == 0 { &conflict_free } else { &all_ops };
        let len = 1 + rng.below(if i % 2 == 0 { 12 } else { 6 }) as usize;
        let mut id = 0;
        let c = gen_chain(&mut rng, &t, pool, len, 2, &mut id);
        emit(&c, if i % 2 == 0 { "random-conflict-free" } else { "random-all" }, &mut hist);
    }

    drop(emit);
    model_in.flush().unwrap();
    impl_out.flush().unwrap();
    cases.flush().unwrap();
    gvh::out::write_json(
        &args.out.join("stats.json"),
        &serde_json::json!({
            "evaluations": n_cases,
            "distinct_nontrivial": nontrivial,
            "rule": "flat chains: exhaustive over the 9-operator user table up to the stated length and over the built-in rows; random chains with parenthesised sub-chains and applications as operands; non-trivial = at least two operators, distinct by source text",
            "exhaustive_user_maxlen": maxlen,
            "hist": hist.to_json(),
        }),
    );
}
