//! C04 — "optimisation never changes what a program does".
//!
//! Tie V: the core IR of every case before and after `gluon_vm::core::optimize::optimize`
//! (the same translation, so that symbols keep their identity) is written as an s-expression
//! pair for the extracted, proved-sound checker `valid_opt` (coq/extract/c04).  That the pair is
//! what the compiler pipeline really uses is cross-checked against
//! `Compileable::compile(..).core_expr` / the `core_expr` salsa query with `Settings::optimize`
//! off and on.  Cases: hand-picked corpus programs, generated programs, every `std/**/*.glu`.
//!
//! Tie C: each program runs on two long-lived VMs (`set_optimize(false)` / `(true)`): value,
//! error class and the call log of the extern function `c04.host.eff` must agree, except that
//! the optimised run may get past an arithmetic failure of the unoptimised one.  The extracted
//! evaluator `eval_core` runs on both IR trees and must reproduce both runs.
//!
//! Output files in --out:
//!   model_in.txt  `V <core> <core>` / `E <env> <tags> <core>` lines for the model driver
//!   impl_out.txt  `accept` for V lines, the canonical outcome of the real VM for E lines
//!   cases.txt     one JSON object per line: kind, name, family, source
//!   behav.jsonl   one JSON object per program whose two runs differ (shrunk)
//!   stats.json
use gluon::compiler_pipeline::{Compileable, Typecheckable};
use gluon::query::{AsyncCompilation, CompilationBase};
use gluon::vm::api::{Hole, OpaqueValue, ValueRef};
use gluon::vm::ExternModule;
use gluon::{RootedThread, ThreadExt};
use gluon_base::ast::TypedIdent;
use gluon_base::resolve::remove_aliases_cow;
use gluon_base::symbol::Symbol;
use gluon_base::types::{ArcType, BuiltinType, NullInterner, Type, TypeEnv, TypeExt};
use gluon_vm::core::{self, Expr, Literal, Named, Pattern};
use gvh::out::{fnv, Args, Hist};
use gvh::rng::Rng;
use std::cell::RefCell;
use std::collections::{BTreeMap, HashMap, HashSet};
use std::io::Write;

// ---------------------------------------------------------------------------------------------
// host functions
// ---------------------------------------------------------------------------------------------
thread_local! {
    static LOG: RefCell<Vec<i64>> = RefCell::new(Vec::new());
}
fn eff(n: i64) -> i64 {
    LOG.with(|l| l.borrow_mut().push(n));
    n
}
fn log_take() -> Vec<i64> {
    LOG.with(|l| std::mem::take(&mut *l.borrow_mut()))
}

const LIB_SRC: &str = r#"let host = import! c04.host
let prim = import! std.prim
{
    inc = \x -> x #Int+ 1,
    tell = \x -> host.eff x,
    boom = \x -> prim.error "lib",
    add = \x y -> x #Int+ y,
    inner = { tell = \x -> host.eff (x #Int+ 100), n = 7 },
}
"#;

fn new_vm(optimize: bool) -> RootedThread {
    new_vm_with(optimize, false)
}

/// `prelude`: the standard library modules are written against the implicit prelude (those
/// that are not say `//@NO-IMPLICIT-PRELUDE` themselves); generated programs do without it.
fn new_vm_with(optimize: bool, prelude: bool) -> RootedThread {
    new_vm_full(optimize, prelude, true)
}

fn new_vm_full(optimize: bool, prelude: bool, debug_info: bool) -> RootedThread {
    let vm = gluon::VmBuilder::new().build();
    {
        let mut db = vm.get_database_mut();
        db.set_implicit_prelude(prelude);
        db.set_optimize(optimize);
        db.set_emit_debug_info(debug_info);
        db.add_module("c04.lib".into(), LIB_SRC);
    }
    gluon::import::add_extern_module(&vm, "c04.host", |thread| {
        ExternModule::new(thread, gluon::record! { eff => gluon::primitive!(1, "c04.host.eff", eff) })
    });
    // the effect primitive of the shared MiniGluon generator (gvh::mg), logging into this harness
    gluon::import::add_extern_module(&vm, "mg.prim", |thread| {
        ExternModule::new(thread, gluon::record! { eff => gluon::primitive!(1, "mg.prim.eff", eff) })
    });
    vm
}

// ---------------------------------------------------------------------------------------------
// canonical outcomes of real runs
// ---------------------------------------------------------------------------------------------
fn canon_value(v: ValueRef<'_>, out: &mut String, depth: u32) {
    if depth > 12 {
        out.push_str("(deep)");
        return;
    }
    match v {
        ValueRef::Int(i) => out.push_str(&format!("(int {})", i)),
        ValueRef::Byte(b) => out.push_str(&format!("(byte {})", b)),
        ValueRef::Float(f) => out.push_str(&format!("(f64 {})", f.to_bits())),
        ValueRef::String(s) => {
            out.push_str("(str");
            for b in s.bytes() {
                out.push_str(&format!(" {}", b));
            }
            out.push(')');
        }
        ValueRef::Data(d) => {
            out.push_str(&format!("(data {}", d.tag()));
            for i in 0..d.len() {
                out.push(' ');
                canon_value(d.get(i).unwrap(), out, depth + 1);
            }
            out.push(')');
        }
        ValueRef::Array(a) => {
            out.push_str("(arr");
            for x in a.iter() {
                out.push(' ');
                canon_value(x.as_ref(), out, depth + 1);
            }
            out.push(')');
        }
        ValueRef::Closure(_) | ValueRef::Internal => out.push_str("(fun)"),
        ValueRef::Userdata(_) => out.push_str("(userdata)"),
        ValueRef::Thread(_) => out.push_str("(thread)"),
    }
}

#[derive(Clone, Debug, PartialEq, Eq)]
struct Outcome {
    /// `val <v>` | `err <kind>`
    head: String,
    log: Vec<i64>,
}
impl Outcome {
    fn canonical(&self) -> String {
        let mut s = format!("({} (log", self.head);
        for x in &self.log {
            s.push_str(&format!(" {}", x));
        }
        s.push_str("))");
        s
    }
    fn is_arith(&self) -> bool {
        self.head == "err arith"
    }
    fn class(&self) -> &str {
        if self.head.starts_with("val") { "val" } else { self.head.split(' ').nth(1).unwrap_or("err") }
    }
}

fn classify(e: &gluon::Error) -> String {
    use gluon::vm::Error as V;
    match e {
        gluon::Error::VM(v) => match v {
            V::Panic(msg, _) => {
                if msg == "Unmatched pattern" {
                    "err unmatched".to_string()
                } else {
                    let mut s = String::from("err explicit");
                    for b in msg.bytes() {
                        s.push_str(&format!(" {}", b));
                    }
                    s
                }
            }
            V::Message(m) if m == "Arithmetic overflow" => "err arith".to_string(),
            V::StackOverflow(_) => "err stackoverflow".to_string(),
            V::OutOfMemory { .. } => "err oom".to_string(),
            other => format!("err other vm: {}", one_line(&other.to_string())),
        },
        gluon::Error::Multiple(es) => match es.iter().next() {
            Some(e) => classify(e),
            None => "err other empty".to_string(),
        },
        gluon::Error::Parse(p) => format!("err frontend parse: {}", one_line(&p.to_string())),
        gluon::Error::Macro(p) => format!("err frontend macro: {}", one_line(&p.to_string())),
        gluon::Error::Typecheck(p) => format!("err frontend typecheck: {}", one_line(&p.to_string())),
        other => format!("err other {}", one_line(&other.to_string())),
    }
}
fn one_line(s: &str) -> String {
    let t = s.replace('\n', " | ");
    t.chars().take(300).collect()
}

fn run(vm: &RootedThread, src: &str) -> Outcome {
    log_take();
    let r = std::panic::catch_unwind(std::panic::AssertUnwindSafe(|| {
        match vm.run_expr::<OpaqueValue<RootedThread, Hole>>("c04", src) {
            Ok((v, _)) => {
                let mut s = String::from("val ");
                canon_value(v.get_variant().as_ref(), &mut s, 0);
                s
            }
            Err(e) => classify(&e),
        }
    }));
    let log = log_take();
    match r {
        Ok(head) => Outcome { head, log },
        Err(_) => Outcome { head: "err hostpanic".into(), log },
    }
}

/// The relation the property allows between the unoptimised and the optimised run (the same
/// as `rrel` of coq/theories/Lang/OptValidProofs.v): equal, or the unoptimised run stops in an
/// arithmetic failure and the optimised one has at least the same calls before going on.
fn allowed(off: &Outcome, on: &Outcome) -> bool {
    off == on || (off.is_arith() && on.log.len() >= off.log.len() && on.log[..off.log.len()] == off.log[..])
}

// ---------------------------------------------------------------------------------------------
// core IR -> s-expression
// ---------------------------------------------------------------------------------------------
#[derive(Default)]
struct Interner {
    locals: HashMap<usize, u64>,
    globals: HashMap<String, u64>,
    fields: HashMap<String, u64>,
    ctors: HashMap<String, u64>,
    tags: BTreeMap<u64, usize>,
    names: BTreeMap<u64, String>,
    next: u64,
}
impl Interner {
    fn new() -> Interner {
        let mut i = Interner { next: 10, ..Default::default() };
        i.ctors.insert("False".into(), 0);
        i.ctors.insert("True".into(), 1);
        i.ctors.insert("<array>".into(), 2);
        i
    }
    fn fresh(&mut self) -> u64 {
        self.next += 1;
        self.next
    }
    fn ident(&mut self, s: &Symbol) -> u64 {
        if s.is_global() {
            let k = s.as_str().to_string();
            if let Some(i) = self.globals.get(&k) {
                return *i;
            }
            let i = self.fresh();
            self.names.insert(i, k.clone());
            self.globals.insert(k, i);
            i
        } else {
            let p = (&**s) as *const gluon_base::symbol::SymbolRef as *const u8 as usize;
            if let Some(i) = self.locals.get(&p) {
                return *i;
            }
            let i = self.fresh();
            self.names.insert(i, s.as_str().to_string());
            self.locals.insert(p, i);
            i
        }
    }
    fn field(&mut self, s: &str) -> u64 {
        if let Some(i) = self.fields.get(s) {
            return *i;
        }
        let i = self.fresh();
        self.fields.insert(s.to_string(), i);
        i
    }
    fn ctor(&mut self, s: &str) -> u64 {
        if let Some(i) = self.ctors.get(s) {
            return *i;
        }
        let i = self.fresh();
        self.ctors.insert(s.to_string(), i);
        i
    }
    fn tags_sexp(&self) -> String {
        let mut s = String::from("(tags");
        for (c, t) in &self.tags {
            s.push_str(&format!(" ({} {})", c, t));
        }
        s.push(')');
        s
    }
}

const PRIMS: &[&str] = &[
    "#Int+", "#Int-", "#Int*", "#Int/", "#Int<", "#Int==", "#Char<", "#Char==", "#Byte+", "#Byte-", "#Byte*", "#Byte/",
    "#Byte<", "#Byte==", "#Float+", "#Float-", "#Float*", "#Float/", "#Float<", "#Float==", "&&", "||",
];

enum Kind {
    Record(Vec<String>),
    Array,
    Variant(Option<usize>),
    Unknown,
}

fn data_kind(env: &dyn TypeEnv<Type = ArcType>, id: &TypedIdent<Symbol>) -> Kind {
    let typ = remove_aliases_cow(env, &mut NullInterner, id.typ.remove_forall());
    match &**typ.remove_forall() {
        Type::Record(_) => Kind::Record(typ.remove_forall().row_iter().map(|f| f.name.declared_name().to_string()).collect()),
        Type::App(a, _) if matches!(&**a, Type::Builtin(BuiltinType::Array)) => Kind::Array,
        Type::Variant(row) => Kind::Variant(row.row_iter().position(|f| f.name.name_eq(&id.name))),
        _ => Kind::Unknown,
    }
}

/// `names`: render symbols by (normalised) name instead of identity, for the comparison with
/// the trees of a different compilation.
struct Ser<'a> {
    env: &'a dyn TypeEnv<Type = ArcType>,
    it: &'a mut Interner,
    names: bool,
    nodes: usize,
}

impl<'a> Ser<'a> {
    fn id(&mut self, s: &Symbol) -> String {
        if self.names {
            let n = s.as_str();
            // names that embed an address or a per-VM counter: `bind_arg0x7f..`, `implicit?1234@3_5`
            if n.starts_with("bind_arg") {
                "bind_arg".to_string()
            } else if let Some(rest) = n.strip_prefix("implicit?") {
                format!("implicit?{}", rest.trim_start_matches(|c: char| c.is_ascii_digit()))
            } else {
                n.replace(' ', "_")
            }
        } else {
            self.it.ident(s).to_string()
        }
    }
    fn lit(&self, l: &Literal) -> String {
        match l {
            Literal::Int(i) => format!("(i {})", i),
            Literal::Byte(b) => format!("(b {})", b),
            Literal::Char(c) => format!("(i {})", *c as u32),
            Literal::Float(f) => format!("(f {})", f.into_inner().to_bits()),
            Literal::String(s) => {
                let mut o = String::from("(s");
                for b in s.bytes() {
                    o.push_str(&format!(" {}", b));
                }
                o.push(')');
                o
            }
        }
    }
    fn expr(&mut self, e: &Expr<'_>, out: &mut String) {
        self.nodes += 1;
        match e {
            Expr::Const(l, _) => {
                out.push_str("(c ");
                out.push_str(&self.lit(l));
                out.push(')');
            }
            Expr::Ident(id, _) => {
                let n = id.name.as_str();
                if PRIMS.contains(&n) {
                    out.push_str(&format!("(p {})", n));
                } else {
                    let i = self.id(&id.name);
                    out.push_str(&format!("(v {})", i));
                }
            }
            Expr::Call(f, args) => {
                out.push_str("(call ");
                self.expr(f, out);
                for a in args.iter() {
                    out.push(' ');
                    self.expr(a, out);
                }
                out.push(')');
            }
            Expr::Data(id, args, _) => {
                match data_kind(self.env, id) {
                    Kind::Record(names) if names.len() == args.len() => {
                        out.push_str("(rec (");
                        for (i, n) in names.iter().enumerate() {
                            if i > 0 {
                                out.push(' ');
                            }
                            let f = if self.names { n.clone() } else { self.it.field(n).to_string() };
                            out.push_str(&f);
                        }
                        out.push(')');
                    }
                    Kind::Array => out.push_str("(data 2"),
                    Kind::Variant(tag) => {
                        let name = id.name.declared_name();
                        let c = self.it.ctor(name);
                        if let Some(t) = tag {
                            self.it.tags.insert(c, t);
                        }
                        if self.names {
                            out.push_str(&format!("(data {}", name));
                        } else {
                            out.push_str(&format!("(data {}", c));
                        }
                    }
                    _ => {
                        // the type does not say (Hole, or a record whose row count differs): keep
                        // the constructor's name; such a node can only be compared structurally
                        let name = format!("?{}", id.name.declared_name());
                        if self.names {
                            out.push_str(&format!("(data {}", name.replace(' ', "_")));
                        } else {
                            let c = self.it.ctor(&name);
                            out.push_str(&format!("(data {}", c));
                        }
                    }
                }
                for a in args.iter() {
                    out.push(' ');
                    self.expr(a, out);
                }
                out.push(')');
            }
            Expr::Let(b, body) => match &b.expr {
                Named::Expr(rhs) => {
                    let x = self.id(&b.name.name);
                    out.push_str(&format!("(let {} ", x));
                    self.expr(rhs, out);
                    out.push(' ');
                    self.expr(body, out);
                    out.push(')');
                }
                Named::Recursive(cs) => {
                    out.push_str("(letrec (");
                    for (i, c) in cs.iter().enumerate() {
                        if i > 0 {
                            out.push(' ');
                        }
                        let f = self.id(&c.name.name);
                        out.push_str(&format!("({} (", f));
                        for (j, a) in c.args.iter().enumerate() {
                            if j > 0 {
                                out.push(' ');
                            }
                            let a = self.id(&a.name);
                            out.push_str(&a);
                        }
                        out.push_str(") ");
                        self.expr(c.expr, out);
                        out.push(')');
                    }
                    out.push_str(") ");
                    self.expr(body, out);
                    out.push(')');
                }
            },
            Expr::Match(s, alts) => {
                out.push_str("(match ");
                self.expr(s, out);
                for alt in alts.iter() {
                    out.push_str(" (");
                    match &alt.pattern {
                        Pattern::Constructor(id, args) => {
                            let name = id.name.declared_name();
                            let c = if self.names { name.to_string() } else { self.it.ctor(name).to_string() };
                            out.push_str(&format!("(pc {}", c));
                            for a in args {
                                let a = self.id(&a.name);
                                out.push_str(&format!(" {}", a));
                            }
                            out.push(')');
                        }
                        Pattern::Record { fields, .. } => {
                            out.push_str("(pr");
                            for (f, b) in fields {
                                let fname = f.name.declared_name();
                                let fi = if self.names { fname.to_string() } else { self.it.field(fname).to_string() };
                                let binder = self.id(b.as_ref().unwrap_or(&f.name));
                                out.push_str(&format!(" ({} {})", fi, binder));
                            }
                            out.push(')');
                        }
                        Pattern::Ident(id) => {
                            let x = self.id(&id.name);
                            out.push_str(&format!("(pv {})", x));
                        }
                        Pattern::Literal(l) => {
                            out.push_str("(pl ");
                            out.push_str(&self.lit(l));
                            out.push(')');
                        }
                    }
                    out.push(' ');
                    self.expr(alt.expr, out);
                    out.push(')');
                }
                out.push(')');
            }
            Expr::Cast(e, _) => {
                out.push_str("(cast ");
                self.expr(e, out);
                out.push(')');
            }
        }
    }
}

fn ser(env: &dyn TypeEnv<Type = ArcType>, it: &mut Interner, names: bool, e: &Expr<'_>) -> (String, usize) {
    let mut s = Ser { env, it, names, nodes: 0 };
    let mut out = String::new();
    s.expr(e, &mut out);
    (out, s.nodes)
}

/// The IR pair of one typechecked expression: translated once, optimised by the real
/// `optimize`; both trees by identity (for `valid_opt`) and by name (for the cross-check).
struct Pair {
    off: String,
    on: String,
    off_names: String,
    on_names: String,
    nodes_off: usize,
    nodes_on: usize,
}

fn ir_pair(vm: &RootedThread, it: &mut Interner, ast: &gluon_base::ast::SpannedExpr<'_, Symbol>) -> Pair {
    let env = vm.get_env();
    core::with_translator(&env, |translator| {
        let expr = translator.translate_expr(ast);
        let (off, nodes_off) = ser(&env, it, false, expr);
        let (off_names, _) = ser(&env, it, true, expr);
        let opt = core::optimize::optimize(&translator.allocator, &env, expr);
        let (on, nodes_on) = ser(&env, it, false, opt.value.expr());
        let (on_names, _) = ser(&env, it, true, opt.value.expr());
        Pair { off, on, off_names, on_names, nodes_off, nodes_on }
    })
}

fn first_diff(a: &str, b: &str) -> String {
    let (x, y) = (a.as_bytes(), b.as_bytes());
    let mut i = 0;
    while i < x.len() && i < y.len() && x[i] == y[i] {
        i += 1;
    }
    let cut = |s: &str| -> String { s.chars().skip(i.saturating_sub(60)).take(160).collect() };
    format!("at {}: own `{}` pipeline `{}`", i, cut(a), cut(b))
}

fn names_of(vm: &RootedThread, e: &Expr<'_>) -> String {
    let env = vm.get_env();
    let mut it = Interner::new();
    ser(&env, &mut it, true, e).0
}

// ---------------------------------------------------------------------------------------------
// programs
// ---------------------------------------------------------------------------------------------
#[derive(Clone, Copy, Debug, PartialEq, Eq)]
enum Ty {
    Int,
    F1,
    F2,
    R,
    M,
    T,
}

#[derive(Clone, Debug)]
enum E {
    Int(i64),
    Var(String),
    Prim(&'static str, Box<E>, Box<E>),
    If(Box<E>, Box<E>, Box<E>),
    Call(Box<E>, Vec<E>),
    Lam(Vec<String>, Box<E>),
    Proj(Box<E>, &'static str),
    Rec(Vec<(&'static str, E)>),
    Let(String, Box<E>, Box<E>),
    MatchT(Box<E>, String, Box<E>, Box<E>),
    MatchI(Box<E>, i64, Box<E>, Box<E>),
    ConA(Box<E>),
    ConB,
    Error(&'static str),
}

#[derive(Clone, Debug)]
enum Stmt {
    Let(String, E),
    LetFn(String, Vec<String>, E),
    Destr(Vec<(&'static str, String)>, E),
    /// `rec let r = { .. } let s = { .. } let h x = ..`: value members (no parameters) and function
    /// members of one recursive group
    RecGroup(Vec<(String, Vec<String>, E)>),
}

#[derive(Clone, Debug)]
struct Prog {
    stmts: Vec<Stmt>,
    fin: E,
}

const HEADER: &str = "let host = import! c04.host\nlet prim = import! std.prim\nlet lib = import! c04.lib\ntype T = | A Int | B\n";

struct P {
    s: String,
    col: usize,
}
impl P {
    fn w(&mut self, t: &str) {
        for c in t.chars() {
            if c == '\n' {
                self.col = 0;
            } else {
                self.col += 1;
            }
        }
        self.s.push_str(t);
    }
    fn nl(&mut self, col: usize) {
        self.s.push('\n');
        for _ in 0..col {
            self.s.push(' ');
        }
        self.col = col;
    }
    fn atom(&mut self, e: &E) {
        match e {
            E::Int(_) | E::Var(_) | E::ConB => self.e(e),
            E::Proj(..) => self.e(e),
            _ => {
                self.w("(");
                self.e(e);
                self.w(")");
            }
        }
    }
    fn e(&mut self, e: &E) {
        match e {
            E::Int(i) => {
                if *i < 0 {
                    // no negative literals: (0 #Int- n)
                    self.w(&format!("(0 #Int- {})", (*i as i128).unsigned_abs()));
                } else {
                    self.w(&i.to_string())
                }
            }
            E::Var(x) => self.w(x),
            E::Prim(op, a, b) => {
                self.atom(a);
                self.w(&format!(" {} ", op));
                self.atom(b);
            }
            E::If(c, t, f) => {
                self.w("if ");
                self.e(c);
                self.w(" then ");
                self.atom(t);
                self.w(" else ");
                self.atom(f);
            }
            E::Call(f, args) => {
                self.atom(f);
                for a in args {
                    self.w(" ");
                    self.atom(a);
                }
            }
            E::Lam(ps, b) => {
                self.w(&format!("\\{} -> ", ps.join(" ")));
                self.atom(b);
            }
            E::Proj(r, f) => {
                self.atom(r);
                self.w(&format!(".{}", f));
            }
            E::Rec(fs) => {
                self.w("{ ");
                for (i, (n, v)) in fs.iter().enumerate() {
                    if i > 0 {
                        self.w(", ");
                    }
                    self.w(&format!("{} = ", n));
                    self.atom(v);
                }
                self.w(" }");
            }
            E::Let(x, a, b) => {
                self.w(&format!("let {} = ", x));
                self.atom(a);
                self.w(" in ");
                self.atom(b);
            }
            E::MatchT(s, x, a, b) => {
                let col = self.col;
                self.w("match ");
                self.atom(s);
                self.w(" with");
                self.nl(col);
                self.w(&format!("| A {} -> ", x));
                self.atom(a);
                self.nl(col);
                self.w("| B -> ");
                self.atom(b);
            }
            E::MatchI(s, k, a, b) => {
                let col = self.col;
                self.w("match ");
                self.atom(s);
                self.w(" with");
                self.nl(col);
                self.w(&format!("| {} -> ", k));
                self.atom(a);
                self.nl(col);
                self.w("| _ -> ");
                self.atom(b);
            }
            E::ConA(a) => {
                self.w("A ");
                self.atom(a);
            }
            E::ConB => self.w("B"),
            E::Error(m) => self.w(&format!("prim.error \"{}\"", m)),
        }
    }
}

fn print_prog(p: &Prog) -> String {
    let mut pr = P { s: String::from(HEADER), col: 0 };
    for st in &p.stmts {
        match st {
            Stmt::Let(x, e) => {
                pr.w(&format!("let {} = ", x));
                pr.atom(e);
            }
            Stmt::LetFn(f, ps, e) => {
                pr.w(&format!("let {} {} = ", f, ps.join(" ")));
                pr.atom(e);
            }
            Stmt::RecGroup(ms) => {
                for (i, (f, ps, e)) in ms.iter().enumerate() {
                    if i == 0 {
                        pr.w("rec let ");
                    } else {
                        pr.nl(4);
                        pr.w("let ");
                    }
                    pr.w(f);
                    for p in ps {
                        pr.w(" ");
                        pr.w(p);
                    }
                    pr.w(" = ");
                    pr.atom(e);
                }
                // without `in` the following `let`s would join the recursive group
                pr.nl(0);
                pr.w("in");
            }
            Stmt::Destr(fs, e) => {
                pr.w("let { ");
                for (i, (f, x)) in fs.iter().enumerate() {
                    if i > 0 {
                        pr.w(", ");
                    }
                    pr.w(&format!("{} = {}", f, x));
                }
                pr.w(" } = ");
                pr.atom(e);
            }
        }
        pr.nl(0);
    }
    pr.atom(&p.fin);
    pr.w("\n");
    pr.s
}

struct Gen<'a> {
    rng: &'a mut Rng,
    next: u32,
}

const BIG: i64 = 9223372036854775807;

impl<'a> Gen<'a> {
    fn fresh(&mut self, p: &str) -> String {
        self.next += 1;
        format!("{}{}", p, self.next)
    }
    fn vars(&self, sc: &[(String, Ty)], t: Ty) -> Vec<String> {
        sc.iter().filter(|(_, u)| *u == t).map(|(x, _)| x.clone()).collect()
    }
    fn int_lit(&mut self) -> E {
        match self.rng.below(12) {
            0 => E::Int(BIG),
            1 => E::Int(0),
            2 => E::Int(-BIG),
            _ => E::Int(self.rng.range(0, 9)),
        }
    }
    fn mk(&mut self, t: Ty, d: u32, sc: &mut Vec<(String, Ty)>) -> E {
        let vs = self.vars(sc, t);
        if !vs.is_empty() && self.rng.chance(if d == 0 { 3 } else { 1 }, 4) {
            return E::Var(self.rng.pick(&vs).clone());
        }
        match t {
            Ty::Int => self.gen_int(d, sc),
            Ty::F1 => self.gen_f1(d, sc),
            Ty::F2 => self.gen_f2(d, sc),
            Ty::R => {
                if d > 0 && self.rng.chance(1, 4) {
                    E::Proj(Box::new(self.mk(Ty::M, d - 1, sc)), "inner")
                } else {
                    let dd = d.saturating_sub(1);
                    E::Rec(vec![("f", self.mk(Ty::F1, dd, sc)), ("g", self.mk(Ty::F2, dd, sc)), ("n", self.mk(Ty::Int, dd, sc))])
                }
            }
            Ty::M => {
                let dd = d.saturating_sub(1);
                E::Rec(vec![("inner", self.mk(Ty::R, dd, sc)), ("k", self.mk(Ty::F1, dd, sc))])
            }
            Ty::T => {
                if self.rng.chance(2, 3) {
                    E::ConA(Box::new(self.mk(Ty::Int, d.saturating_sub(1), sc)))
                } else {
                    E::ConB
                }
            }
        }
    }
    fn cond(&mut self, d: u32, sc: &mut Vec<(String, Ty)>) -> E {
        let op = if self.rng.chance(1, 2) { "#Int<" } else { "#Int==" };
        E::Prim(op, Box::new(self.mk(Ty::Int, d, sc)), Box::new(self.mk(Ty::Int, d, sc)))
    }
    fn gen_int(&mut self, d: u32, sc: &mut Vec<(String, Ty)>) -> E {
        if d == 0 {
            return match self.rng.below(6) {
                0 => E::Call(Box::new(E::Proj(Box::new(E::Var("host".into())), "eff")), vec![self.int_lit()]),
                1 if !self.vars(sc, Ty::R).is_empty() => {
                    let r = self.vars(sc, Ty::R);
                    E::Proj(Box::new(E::Var(self.rng.pick(&r).clone())), "n")
                }
                _ => self.int_lit(),
            };
        }
        let d1 = d - 1;
        match self.rng.below(20) {
            0 | 1 => {
                let op = *self.rng.pick(&["#Int+", "#Int-", "#Int*", "#Int/"]);
                E::Prim(op, Box::new(self.mk(Ty::Int, d1, sc)), Box::new(self.mk(Ty::Int, d1, sc)))
            }
            2 => E::If(Box::new(self.cond(d1, sc)), Box::new(self.mk(Ty::Int, d1, sc)), Box::new(self.mk(Ty::Int, d1, sc))),
            // calls: the callee is an arbitrary expression of function type
            3..=8 => E::Call(Box::new(self.mk(Ty::F1, d1, sc)), vec![self.mk(Ty::Int, d1, sc)]),
            9 | 10 => E::Call(Box::new(self.mk(Ty::F2, d1, sc)), vec![self.mk(Ty::Int, d1, sc), self.mk(Ty::Int, d1, sc)]),
            11 => E::Call(Box::new(E::Proj(Box::new(E::Var("host".into())), "eff")), vec![self.mk(Ty::Int, d1, sc)]),
            12 => {
                let f = *self.rng.pick(&["inc", "tell", "boom"]);
                E::Call(Box::new(E::Proj(Box::new(E::Var("lib".into())), f)), vec![self.mk(Ty::Int, d1, sc)])
            }
            13 => E::Call(
                Box::new(E::Proj(Box::new(E::Proj(Box::new(E::Var("lib".into())), "inner")), "tell")),
                vec![self.mk(Ty::Int, d1, sc)],
            ),
            14 => E::Proj(Box::new(self.mk(Ty::R, d1, sc)), "n"),
            15 => {
                let x = self.fresh("a");
                let s = self.mk(Ty::T, d1, sc);
                sc.push((x.clone(), Ty::Int));
                let a = self.mk(Ty::Int, d1, sc);
                sc.pop();
                let b = self.mk(Ty::Int, d1, sc);
                E::MatchT(Box::new(s), x, Box::new(a), Box::new(b))
            }
            16 => E::MatchI(
                Box::new(self.mk(Ty::Int, d1, sc)),
                self.rng.range(0, 3),
                Box::new(self.mk(Ty::Int, d1, sc)),
                Box::new(self.mk(Ty::Int, d1, sc)),
            ),
            17 | 18 => {
                // a local binding, half of the time discarded
                let discard = self.rng.chance(1, 2);
                let t = *self.rng.pick(&[Ty::Int, Ty::Int, Ty::F1, Ty::R]);
                let rhs = self.mk(t, d1, sc);
                let x = if discard { "_".to_string() } else { self.fresh("l") };
                if !discard {
                    sc.push((x.clone(), t));
                }
                let body = self.mk(Ty::Int, d1, sc);
                if !discard {
                    sc.pop();
                }
                E::Let(x, Box::new(rhs), Box::new(body))
            }
            _ => {
                if self.rng.chance(1, 3) {
                    E::Error("boom")
                } else {
                    self.int_lit()
                }
            }
        }
    }
    fn body_int(&mut self, d: u32, sc: &mut Vec<(String, Ty)>) -> E {
        // bodies of functions: failing and effectful more often than elsewhere
        match self.rng.below(6) {
            0 => E::Error("boom"),
            1 => E::Call(Box::new(E::Proj(Box::new(E::Var("host".into())), "eff")), vec![self.mk(Ty::Int, d, sc)]),
            2 => E::Prim("#Int/", Box::new(self.mk(Ty::Int, d, sc)), Box::new(E::Int(0))),
            _ => self.mk(Ty::Int, d, sc),
        }
    }
    fn gen_f1(&mut self, d: u32, sc: &mut Vec<(String, Ty)>) -> E {
        let d1 = d.saturating_sub(1);
        let k = if d == 0 { self.rng.below(3) } else { self.rng.below(10) };
        match k {
            0 | 1 => {
                let x = self.fresh("x");
                sc.push((x.clone(), Ty::Int));
                let b = self.body_int(d1, sc);
                sc.pop();
                E::Lam(vec![x], Box::new(b))
            }
            2 => E::Proj(Box::new(E::Var("host".into())), "eff"),
            3 => E::Proj(Box::new(self.mk(Ty::R, d1, sc)), "f"),
            4 => E::Proj(Box::new(self.mk(Ty::M, d1, sc)), "k"),
            5 => E::Call(Box::new(self.mk(Ty::F2, d1, sc)), vec![self.mk(Ty::Int, d1, sc)]),
            6 => E::If(Box::new(self.cond(d1, sc)), Box::new(self.mk(Ty::F1, d1, sc)), Box::new(self.mk(Ty::F1, d1, sc))),
            7 => {
                let g = self.fresh("g");
                let rhs = self.mk(Ty::F1, d1, sc);
                E::Let(g.clone(), Box::new(rhs), Box::new(E::Var(g)))
            }
            8 => {
                let f = *self.rng.pick(&["inc", "tell", "boom"]);
                E::Proj(Box::new(E::Var("lib".into())), f)
            }
            _ => E::Proj(Box::new(E::Proj(Box::new(E::Var("lib".into())), "inner")), "tell"),
        }
    }
    fn gen_f2(&mut self, d: u32, sc: &mut Vec<(String, Ty)>) -> E {
        let d1 = d.saturating_sub(1);
        match self.rng.below(if d == 0 { 2 } else { 5 }) {
            0 => {
                let x = self.fresh("x");
                let y = self.fresh("y");
                sc.push((x.clone(), Ty::Int));
                sc.push((y.clone(), Ty::Int));
                let b = self.body_int(d1, sc);
                sc.pop();
                sc.pop();
                E::Lam(vec![x, y], Box::new(b))
            }
            1 => E::Proj(Box::new(E::Var("lib".into())), "add"),
            2 => {
                // curried: a one-parameter closure returning a closure (over-application when called with two)
                let x = self.fresh("x");
                sc.push((x.clone(), Ty::Int));
                let b = self.mk(Ty::F1, d1, sc);
                sc.pop();
                E::Lam(vec![x], Box::new(b))
            }
            3 => E::Proj(Box::new(self.mk(Ty::R, d1, sc)), "g"),
            _ => E::If(Box::new(self.cond(d1, sc)), Box::new(self.mk(Ty::F2, d1, sc)), Box::new(self.mk(Ty::F2, d1, sc))),
        }
    }
    /// A recursive group with value members: records whose function fields refer to LATER members
    /// (not yet initialised when the field is built) and to their own data field, plus function
    /// members using the records.  References only go forward, so calls terminate.  Only some members
    /// enter the scope: the others are dead, or referenced from dead members only.  The data field
    /// of a member may have an effect or fail when the group is made.
    fn rec_group(&mut self, depth: u32, sc: &mut Vec<(String, Ty)>) -> Stmt {
        let k = 1 + self.rng.below(3) as usize;
        let names: Vec<String> = (0..k).map(|_| self.fresh("rv")).collect();
        let mut members = vec![];
        let d1 = depth.saturating_sub(1);
        for i in 0..k {
            let base = sc.len();
            for j in (i + 1)..k {
                sc.push((names[j].clone(), Ty::R));
            }
            let f = if self.rng.chance(1, 3) {
                // own data field, read when the function runs
                let x = self.fresh("x");
                E::Lam(
                    vec![x.clone()],
                    Box::new(E::Prim("#Int+", Box::new(E::Proj(Box::new(E::Var(names[i].clone())), "n")), Box::new(E::Var(x)))),
                )
            } else if i + 1 < k && self.rng.chance(1, 2) {
                let x = self.fresh("x");
                let callee = E::Proj(Box::new(E::Var(names[i + 1].clone())), "f");
                E::Lam(vec![x.clone()], Box::new(E::Call(Box::new(callee), vec![E::Var(x)])))
            } else {
                let x = self.fresh("x");
                sc.push((x.clone(), Ty::Int));
                let b = self.body_int(d1, sc);
                sc.pop();
                E::Lam(vec![x], Box::new(b))
            };
            // (the other fields are built when the group is made: they must not look at members that
            // are not initialised yet)
            sc.truncate(base);
            let g = self.gen_f2(d1, sc);
            let n = match self.rng.below(5) {
                0 => E::Call(Box::new(E::Proj(Box::new(E::Var("host".into())), "eff")), vec![self.int_lit()]),
                1 => E::Prim("#Int/", Box::new(self.int_lit()), Box::new(E::Int(0))),
                2 => self.mk(Ty::Int, d1, sc),
                _ => self.int_lit(),
            };
            members.push((names[i].clone(), vec![], E::Rec(vec![("f", f), ("g", g), ("n", n)])));
        }
        let mut fnames = vec![];
        for _ in 0..self.rng.below(3) {
            let h = self.fresh("rh");
            let x = self.fresh("x");
            let base = sc.len();
            for nm in &names {
                sc.push((nm.clone(), Ty::R));
            }
            sc.push((x.clone(), Ty::Int));
            let b = self.body_int(d1.max(1), sc);
            sc.truncate(base);
            members.push((h.clone(), vec![x], b));
            fnames.push(h);
        }
        // shuffle function members between the value members now and then
        if members.len() > 1 && self.rng.chance(1, 3) {
            let last = members.pop().unwrap();
            let at = self.rng.below(members.len() as u64 + 1) as usize;
            members.insert(at, last);
        }
        for nm in names {
            if self.rng.chance(1, 2) {
                sc.push((nm, Ty::R));
            }
        }
        for h in fnames {
            if self.rng.chance(1, 2) {
                sc.push((h, Ty::F1));
            }
        }
        Stmt::RecGroup(members)
    }

    fn prog(&mut self, depth: u32) -> Prog {
        let mut sc: Vec<(String, Ty)> = vec![];
        let n = 2 + self.rng.below(7);
        let mut stmts = vec![];
        for _ in 0..n {
            match self.rng.below(22) {
                0..=4 => stmts.push(Stmt::Let("_".into(), self.gen_int(depth.max(1), &mut sc))),
                // (a bare expression statement `e1 <newline> e2` is monadic sequencing in Gluon: it
                // needs a `flat_map` in scope, so discarding is always written `let _ = e`)
                5 | 6 => stmts.push(Stmt::Let("_".into(), self.gen_int(depth.max(1), &mut sc))),
                7..=9 => {
                    let x = self.fresh("v");
                    let e = self.mk(Ty::Int, depth, &mut sc);
                    stmts.push(Stmt::Let(x.clone(), e));
                    sc.push((x, Ty::Int));
                }
                10 | 11 => {
                    let f = self.fresh("f");
                    let two = self.rng.chance(1, 3);
                    let x = self.fresh("x");
                    let y = self.fresh("y");
                    sc.push((x.clone(), Ty::Int));
                    if two {
                        sc.push((y.clone(), Ty::Int));
                    }
                    let b = self.body_int(depth, &mut sc);
                    sc.pop();
                    if two {
                        sc.pop();
                    }
                    stmts.push(Stmt::LetFn(f.clone(), if two { vec![x, y] } else { vec![x] }, b));
                    sc.push((f, if two { Ty::F2 } else { Ty::F1 }));
                }
                12..=14 => {
                    let r = self.fresh("r");
                    let e = self.mk(Ty::R, depth.max(1), &mut sc);
                    stmts.push(Stmt::Let(r.clone(), e));
                    sc.push((r, Ty::R));
                }
                15 => {
                    let m = self.fresh("m");
                    let e = self.mk(Ty::M, depth.max(1), &mut sc);
                    stmts.push(Stmt::Let(m.clone(), e));
                    sc.push((m, Ty::M));
                }
                16 => {
                    let t = self.fresh("t");
                    let e = self.mk(Ty::T, depth, &mut sc);
                    stmts.push(Stmt::Let(t.clone(), e));
                    sc.push((t, Ty::T));
                }
                17 => {
                    let h = self.fresh("h");
                    let e = self.mk(Ty::F1, depth.max(1), &mut sc);
                    stmts.push(Stmt::Let(h.clone(), e));
                    sc.push((h, Ty::F1));
                }
                20 | 21 => {
                    let st = self.rec_group(depth, &mut sc);
                    stmts.push(st);
                }
                _ => {
                    let f = self.fresh("pf");
                    let n = self.fresh("pn");
                    let e = self.mk(Ty::R, depth.max(1), &mut sc);
                    let all = self.rng.chance(1, 2);
                    let mut fs = vec![("f", f.clone())];
                    if all {
                        fs.push(("n", n.clone()));
                    }
                    stmts.push(Stmt::Destr(fs, e));
                    sc.push((f, Ty::F1));
                    if all {
                        sc.push((n, Ty::Int));
                    }
                }
            }
        }
        let fin = if self.rng.chance(1, 5) {
            E::Rec(vec![("a", self.mk(Ty::Int, depth, &mut sc)), ("t", self.mk(Ty::T, 1, &mut sc)), ("b", self.mk(Ty::Int, 1, &mut sc))])
        } else {
            self.mk(Ty::Int, depth, &mut sc)
        };
        Prog { stmts, fin }
    }
}

// ---------------------------------------------------------------------------------------------
// one case
// ---------------------------------------------------------------------------------------------
struct Vms {
    off: RootedThread,
    on: RootedThread,
    /// the same two settings with `emit_debug_info` off (the default is on)
    off_nd: RootedThread,
    on_nd: RootedThread,
    uses: usize,
    /// the library module as a global of the model's environment: (interner seeded with it, env s-expr)
    lib: Option<String>,
}

impl Vms {
    fn new() -> Vms {
        Vms { off: new_vm(false), on: new_vm(true), off_nd: new_vm_full(false, false, false), on_nd: new_vm_full(true, false, false), uses: 0, lib: None }
    }
    fn renew(&mut self) {
        *self = Vms::new();
    }
}

struct Out {
    model_in: std::io::BufWriter<std::fs::File>,
    impl_out: std::io::BufWriter<std::fs::File>,
    cases: std::io::BufWriter<std::fs::File>,
    behav: std::io::BufWriter<std::fs::File>,
    hist: Hist,
    n_lines: u64,
    n_programs: u64,
    n_pairs: u64,
    n_changed_pairs: u64,
    distinct: HashSet<u64>,
    nontrivial: u64,
    behav_diffs: u64,
    pipeline_mismatch: Vec<String>,
    skipped: Vec<String>,
    nodes: u64,
}

impl Out {
    fn line(&mut self, kind: &str, name: &str, family: &str, source: &str, model: &str, imp: &str) {
        writeln!(self.model_in, "{}", model).unwrap();
        writeln!(self.impl_out, "{}", imp).unwrap();
        writeln!(
            self.cases,
            "{}",
            serde_json::json!({"kind": kind, "name": name, "family": family, "source": source})
        )
        .unwrap();
        self.n_lines += 1;
    }
}

fn block<F: std::future::Future>(f: F) -> F::Output {
    futures::executor::block_on(f)
}

/// Typechecks `src` on the optimising VM and returns its IR pair (None: the front end refuses it).
fn program_pair(vms: &Vms, it: &mut Interner, src: &str) -> Result<Pair, String> {
    let vm = &vms.on;
    let mut db = vm.get_database();
    let mut compiler = vm.module_compiler(&mut db);
    let tc = block(src.typecheck(&mut compiler, vm, "c04", src));
    match tc {
        Ok(tc) => Ok(ir_pair(vm, it, tc.expr.expr())),
        Err(e) => Err(one_line(&e.error.to_string())),
    }
}

/// What the pipeline itself produces for `src` under this VM's `Settings::optimize`, by name.
fn pipeline_names(vm: &RootedThread, src: &str) -> Result<String, String> {
    let mut db = vm.get_database();
    let mut compiler = vm.module_compiler(&mut db);
    let r = block(src.compile(&mut compiler, vm, "c04", src, None));
    match r {
        Ok(cv) => Ok(names_of(vm, cv.core_expr.value.expr())),
        Err(e) => Err(one_line(&e.to_string())),
    }
}

fn host_env(it: &mut Interner, lib: Option<&str>) -> String {
    let mut s = String::from("(env");
    let hid = global_id(it, "@c04.host");
    let eff = it.field("eff");
    s.push_str(&format!(" ({} (host ({} eff)))", hid, eff));
    let pid = global_id(it, "@std.prim");
    let err = it.field("error");
    s.push_str(&format!(" ({} (host ({} error)))", pid, err));
    let mid = global_id(it, "@mg.prim");
    s.push_str(&format!(" ({} (host ({} eff)))", mid, eff));
    // `import! std.types` is a record of types only
    let tid = global_id(it, "@std.types");
    s.push_str(&format!(" ({} (host))", tid));
    if let Some(l) = lib {
        let lid = global_id(it, "@c04.lib");
        s.push_str(&format!(" ({} (core {}))", lid, l));
    }
    s.push(')');
    s
}

fn global_id(it: &mut Interner, name: &str) -> u64 {
    if let Some(i) = it.globals.get(name) {
        if *i != 0 {
            return *i;
        }
    }
    let i = it.fresh();
    it.names.insert(i, name.to_string());
    it.globals.insert(name.to_string(), i);
    i
}

/// The unoptimised core IR of the library module, for the model's environment.
fn lib_core(vms: &Vms, it: &mut Interner) -> Option<String> {
    let vm = &vms.off;
    // make sure the module is loaded
    let _ = vm.run_expr::<OpaqueValue<RootedThread, Hole>>("c04", "let lib = import! c04.lib\n0");
    let mut db = vm.get_database();
    let r = block(db.core_expr("c04.lib".into(), None));
    match r {
        Ok(g) => {
            let env = vm.get_env();
            Some(ser(&env, it, false, g.value.expr()).0)
        }
        Err(_) => None,
    }
}

#[derive(Clone)]
struct CaseResult {
    off: Outcome,
    on: Outcome,
}

fn run_both(vms: &mut Vms, src: &str) -> CaseResult {
    vms.uses += 1;
    let off = run(&vms.off, src);
    let on = run(&vms.on, src);
    CaseResult { off, on }
}

fn shrink(vms: &mut Vms, p: &Prog) -> Prog {
    let differs = |vms: &mut Vms, q: &Prog| {
        let r = run_both(vms, &print_prog(q));
        !r.off.head.starts_with("err frontend") && !allowed(&r.off, &r.on)
    };
    let mut cur = p.clone();
    let mut progress = true;
    while progress {
        progress = false;
        let mut i = 0;
        while i < cur.stmts.len() {
            let mut q = cur.clone();
            q.stmts.remove(i);
            if differs(vms, &q) {
                cur = q;
                progress = true;
            } else {
                i += 1;
            }
        }
        if !matches!(cur.fin, E::Int(0)) {
            let mut q = cur.clone();
            q.fin = E::Int(0);
            if differs(vms, &q) {
                cur = q;
                progress = true;
            }
        }
    }
    cur
}

/// A panic inside gluon's front end or compiler (an internal compiler error) must not take the
/// harness down: the program is skipped and the VMs are renewed.
fn do_program(vms: &mut Vms, out: &mut Out, name: &str, family: &str, src: &str, prog: Option<&Prog>) {
    let r = std::panic::catch_unwind(std::panic::AssertUnwindSafe(|| do_program_inner(vms, out, name, family, src, prog)));
    if r.is_err() {
        out.hist.add("program:gluon-panic");
        out.skipped.push(format!("{}: panic inside gluon while compiling", name));
        vms.renew();
    }
}

fn do_program_inner(vms: &mut Vms, out: &mut Out, name: &str, family: &str, src: &str, prog: Option<&Prog>) {
    if vms.uses > 3000 {
        vms.renew();
    }
    out.n_programs += 1;
    let mut it = Interner::new();
    // the environment of the model: host records and the library module (its ids first)
    let lib = lib_core(vms, &mut it);
    let env = host_env(&mut it, lib.as_deref());
    let pair = match program_pair(vms, &mut it, src) {
        Ok(p) => p,
        Err(e) => {
            out.hist.add("program:frontend-refused");
            out.skipped.push(format!("{}: {}", name, e));
            return;
        }
    };
    out.hist.add(&format!("family:{}", family));
    out.n_pairs += 1;
    out.nodes += pair.nodes_off as u64;
    if pair.off != pair.on {
        out.n_changed_pairs += 1;
        out.hist.add("pair:changed-by-optimiser");
    } else {
        out.hist.add("pair:unchanged");
    }
    if out.distinct.insert(fnv(pair.off_names.as_bytes())) && pair.off != pair.on {
        out.nontrivial += 1;
    }
    // cross-check: this pair is what the pipeline uses
    match (pipeline_names(&vms.off, src), pipeline_names(&vms.on, src)) {
        (Ok(a), Ok(b)) => {
            if a != pair.off_names {
                out.pipeline_mismatch.push(format!("{} (optimize=false) {}", name, first_diff(&pair.off_names, &a)));
            }
            if b != pair.on_names {
                out.pipeline_mismatch.push(format!("{} (optimize=true) {}", name, first_diff(&pair.on_names, &b)));
            }
        }
        (a, b) => out.pipeline_mismatch.push(format!("{}: pipeline compile failed: {:?} {:?}", name, a.err(), b.err())),
    }
    out.line("V", name, family, src, &format!("V {} {}", pair.off, pair.on), "accept");
    // behaviour
    let r = run_both(vms, src);
    out.hist.add(&format!("outcome-off:{}", r.off.class()));
    out.hist.add(&format!("log-len:{}", r.off.log.len().min(5)));
    let tags = it.tags_sexp();
    const KNOWN_GLOBALS: &[&str] = &["@c04.host", "@std.prim", "@c04.lib", "@mg.prim", "@std.types"];
    if it.globals.keys().all(|g| KNOWN_GLOBALS.contains(&g.as_str())) {
        out.line("E", name, family, src, &format!("E {} {} {}", env, tags, pair.off), &r.off.canonical());
        out.line("E", name, family, src, &format!("E {} {} {}", env, tags, pair.on), &r.on.canonical());
    } else {
        // the program imports a module the model's environment does not contain
        out.hist.add("eval_core:skipped-other-imports");
    }
    // emit_debug_info must not matter at all, whatever the optimisation setting
    {
        vms.uses += 1;
        let off_nd = run(&vms.off_nd, src);
        let on_nd = run(&vms.on_nd, src);
        if off_nd != r.off || on_nd != r.on {
            out.behav_diffs += 1;
            out.hist.add("behaviour:debug-info-differs");
            writeln!(
                out.behav,
                "{}",
                serde_json::json!({"kind": "debug-info", "name": name, "family": family, "source": src,
                                   "off": r.off.canonical(), "on": r.on.canonical(),
                                   "shrunk_name": name, "shrunk_source": src,
                                   "shrunk_off": format!("debug info on: optimize=false {} optimize=true {}", r.off.canonical(), r.on.canonical()),
                                   "shrunk_on": format!("debug info off: optimize=false {} optimize=true {}", off_nd.canonical(), on_nd.canonical())})
            )
            .unwrap();
        } else {
            out.hist.add("debug-info:same-outcome");
        }
    }
    if !allowed(&r.off, &r.on) {
        out.behav_diffs += 1;
        out.hist.add("behaviour:differs");
        let (ssrc, soff, son) = match prog {
            Some(p) => {
                let q = shrink(vms, p);
                let s = print_prog(&q);
                let rr = run_both(vms, &s);
                (s, rr.off.canonical(), rr.on.canonical())
            }
            None => (src.to_string(), r.off.canonical(), r.on.canonical()),
        };
        // the verdict of the checker on the shrunk program names the rewrite
        let mut it2 = Interner::new();
        let lib2 = lib_core(vms, &mut it2);
        let _ = host_env(&mut it2, lib2.as_deref());
        let sname = format!("{}#shrunk", name);
        if let Ok(p2) = program_pair(vms, &mut it2, &ssrc) {
            out.line("V", &sname, family, &ssrc, &format!("V {} {}", p2.off, p2.on), "accept");
        }
        writeln!(
            out.behav,
            "{}",
            serde_json::json!({"kind": "optimize", "name": name, "family": family, "source": src, "off": r.off.canonical(), "on": r.on.canonical(),
                               "shrunk_name": sname, "shrunk_source": ssrc, "shrunk_off": soff, "shrunk_on": son})
        )
        .unwrap();
    } else if r.off != r.on {
        out.hist.add("behaviour:permitted-arith-difference");
    }
}

fn std_modules(repo: &str) -> Vec<String> {
    fn walk(dir: &std::path::Path, prefix: &str, out: &mut Vec<String>) {
        let mut entries: Vec<_> = match std::fs::read_dir(dir) {
            Ok(r) => r.filter_map(|e| e.ok()).collect(),
            Err(_) => return,
        };
        entries.sort_by_key(|e| e.file_name());
        for e in entries {
            let p = e.path();
            let n = e.file_name().to_string_lossy().to_string();
            if p.is_dir() {
                walk(&p, &format!("{}.{}", prefix, n), out);
            } else if let Some(stem) = n.strip_suffix(".glu") {
                out.push(format!("{}.{}", prefix, stem));
            }
        }
    }
    let mut v = vec![];
    walk(&std::path::Path::new(repo).join("std"), "std", &mut v);
    v
}

fn do_module(vms: &mut Vms, out: &mut Out, module: &str) {
    let vm_on = vms.on.clone();
    let vm_off = vms.off.clone();
    let mut it = Interner::new();
    let r = std::panic::catch_unwind(std::panic::AssertUnwindSafe(|| {
        let mut db = vm_on.get_database();
        let tc = block(db.typechecked_source_module(module.to_string(), None));
        let tc = match tc {
            Ok(t) => t,
            Err(e) => return Err(one_line(&e.error.to_string())),
        };
        let pair = ir_pair(&vm_on, &mut it, tc.expr.expr());
        let on_q = block(db.core_expr(module.to_string(), None)).map_err(|e| one_line(&e.to_string()))?;
        let on_names = names_of(&vm_on, on_q.value.expr());
        let mut db_off = vm_off.get_database();
        let off_q = block(db_off.core_expr(module.to_string(), None)).map_err(|e| one_line(&e.to_string()))?;
        let off_names = names_of(&vm_off, off_q.value.expr());
        Ok((pair, off_names, on_names))
    }));
    match r {
        Ok(Ok((pair, off_names, on_names))) => {
            out.hist.add("family:std-module");
            out.n_pairs += 1;
            out.nodes += pair.nodes_off as u64;
            if pair.off != pair.on {
                out.n_changed_pairs += 1;
                out.hist.add("pair:changed-by-optimiser");
                if out.distinct.insert(fnv(pair.off_names.as_bytes())) {
                    out.nontrivial += 1;
                }
            } else {
                out.hist.add("pair:unchanged");
            }
            if off_names != pair.off_names {
                out.pipeline_mismatch.push(format!("{} (optimize=false) {}", module, first_diff(&pair.off_names, &off_names)));
            }
            if on_names != pair.on_names {
                out.pipeline_mismatch.push(format!("{} (optimize=true) {}", module, first_diff(&pair.on_names, &on_names)));
            }
            out.hist.addn("std-ir-nodes", pair.nodes_off as u64);
            out.hist.addn("std-ir-nodes-removed", (pair.nodes_off - pair.nodes_on.min(pair.nodes_off)) as u64);
            out.line("V", module, "std-module", "", &format!("V {} {}", pair.off, pair.on), "accept");
            out.line("C", module, "std-module", "", &format!("C {} {}", pair.off, pair.on), "counts");
        }
        Ok(Err(e)) => {
            out.hist.add("std-module:not-compiled");
            out.skipped.push(format!("{}: {}", module, e));
        }
        Err(_) => {
            out.hist.add("std-module:panic");
            out.skipped.push(format!("{}: panic while compiling", module));
        }
    }
}

fn corpus_dir() -> std::path::PathBuf {
    let exe = std::env::var("VERIF_ROOT").unwrap_or_else(|_| "/verif".to_string());
    std::path::Path::new(&exe).join("corpus").join("C04")
}

fn main() {
    let mut args = Args::parse();
    // (the tests/optimize family changes the working directory)
    args.out = std::fs::canonicalize(&args.out).unwrap_or_else(|_| args.out.clone());
    let repo = std::env::var("GLUON_REPO").unwrap_or_else(|_| "/repo".to_string());
    let mut vms = Vms::new();

    if let Some(path) = &args.replay {
        let v: serde_json::Value = serde_json::from_str(&std::fs::read_to_string(path).expect("replay file")).expect("json");
        let src = v["case"]["source"].as_str().expect("case.source").to_string();
        println!("source:\n{}", src);
        let r = run_both(&mut vms, &src);
        println!("optimize=false: {}", r.off.canonical());
        println!("optimize=true : {}", r.on.canonical());
        println!("allowed difference: {}", allowed(&r.off, &r.on));
        let mut it = Interner::new();
        match program_pair(&vms, &mut it, &src) {
            Ok(p) => println!("V {} {}", p.off, p.on),
            Err(e) => println!("front end: {}", e),
        }
        std::process::exit(if allowed(&r.off, &r.on) { 0 } else { 1 });
    }

    let mut out = Out {
        model_in: args.file("model_in.txt"),
        impl_out: args.file("impl_out.txt"),
        cases: args.file("cases.txt"),
        behav: args.file("behav.jsonl"),
        hist: Hist::default(),
        n_lines: 0,
        n_programs: 0,
        n_pairs: 0,
        n_changed_pairs: 0,
        distinct: HashSet::new(),
        nontrivial: 0,
        behav_diffs: 0,
        pipeline_mismatch: vec![],
        skipped: vec![],
        nodes: 0,
    };
    let only = args.extra.get("only").cloned();
    let want = |f: &str| only.as_deref().map_or(true, |o| o.split(',').any(|x| x == f));

    // 1. corpus: hand-picked programs, always first
    if want("corpus") {
        let mut files: Vec<_> = std::fs::read_dir(corpus_dir()).map(|r| r.filter_map(|e| e.ok()).map(|e| e.path()).collect()).unwrap_or_default();
        files.sort();
        for f in files {
            if f.extension().map_or(false, |x| x == "glu") {
                let src = std::fs::read_to_string(&f).expect("corpus file");
                let name = format!("corpus/{}", f.file_name().unwrap().to_string_lossy());
                do_program(&mut vms, &mut out, &name, "corpus", &src, None);
            }
        }
    }

    // 1b. the optimiser's own regression inputs, tests/optimize/*.glu (they import each other
    // relative to the repository root)
    if want("tests") {
        let _ = std::env::set_current_dir(&repo);
        let mut files: Vec<_> = std::fs::read_dir(std::path::Path::new(&repo).join("tests").join("optimize"))
            .map(|r| r.filter_map(|e| e.ok()).map(|e| e.path()).collect())
            .unwrap_or_default();
        files.sort();
        for f in files {
            if f.extension().map_or(false, |x| x == "glu") {
                let src = std::fs::read_to_string(&f).expect("test file");
                let name = format!("tests/optimize/{}", f.file_name().unwrap().to_string_lossy());
                do_program(&mut vms, &mut out, &name, "repo-tests-optimize", &src, None);
            }
        }
    }

    // 2. generated programs
    if want("gen") {
        let mut rng = Rng::new(args.seed);
        let n: u64 = args.extra.get("programs").and_then(|s| s.parse().ok()).unwrap_or(if args.thorough() { 12000 } else { 2000 });
        for i in 0..n {
            let depth = 1 + (i % 3) as u32;
            let mut g = Gen { rng: &mut rng, next: 0 };
            let p = g.prog(depth);
            let src = print_prog(&p);
            do_program(&mut vms, &mut out, &format!("gen/{}", i), &format!("generated-depth-{}", depth), &src, Some(&p));
        }
    }

    // 2b. programs of the shared MiniGluon generator (gvh::mg): the whole fragment (nested patterns,
    // tuples, arrays, record update, recursive functions, strings, bytes ...), both printing styles
    if want("mg") {
        use gvh::mg::generate::{gen_program, GenConfig};
        use gvh::mg::print::{to_gluon, Style};
        let mut rng = Rng::new(args.seed ^ 0x6d67);
        let n: u64 = args.extra.get("mg").and_then(|s| s.parse().ok()).unwrap_or(if args.thorough() { 6000 } else { 800 });
        let mut cfg = GenConfig::default();
        cfg.features.floats = false; // float arithmetic is not interpreted by the model
        cfg.features.array_prims = false; // std.array.prim externs are not part of the model's environment
        cfg.features.multi_record_alts = false; // crashes gluon's pattern translator (finding of C01)
        cfg.features.update_reorder = false; // evaluation order finding of C01
        for i in 0..n {
            let p = gen_program(&mut rng, &cfg);
            let style = if i % 2 == 0 { Style::explicit() } else { Style::layout() };
            let src = to_gluon(&p, &style);
            do_program(&mut vms, &mut out, &format!("mg/{}", i), "minigluon", &src, None);
        }
    }

    // 3. every standard library module
    if want("std") {
        vms = Vms { off: new_vm_with(false, true), on: new_vm_with(true, true), off_nd: new_vm_full(false, true, false), on_nd: new_vm_full(true, true, false), uses: 0, lib: None };
        for m in std_modules(&repo) {
            do_module(&mut vms, &mut out, &m);
        }
    }

    out.model_in.flush().unwrap();
    out.impl_out.flush().unwrap();
    out.cases.flush().unwrap();
    out.behav.flush().unwrap();
    gvh::out::write_json(
        &args.out.join("stats.json"),
        &serde_json::json!({
            "evaluations": out.n_lines,
            "programs": out.n_programs,
            "ir_pairs": out.n_pairs,
            "ir_pairs_changed_by_optimiser": out.n_changed_pairs,
            "ir_nodes": out.nodes,
            "distinct_nontrivial": out.nontrivial,
            "rule": "one case = one line for the model (an IR pair for valid_opt, or an IR tree for eval_core with the real run's outcome); non-trivial = IR pairs the optimiser actually changed, distinct by the unoptimised tree",
            "behaviour_differences": out.behav_diffs,
            "pipeline_mismatch": out.pipeline_mismatch,
            "skipped": out.skipped,
            "hist": out.hist.to_json(),
        }),
    );
}
