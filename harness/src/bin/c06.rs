//! C06 — scripts cannot crash the host; errors are values and the VM stays usable.
//!
//! Parent mode (default): reads the primitive tables of /repo/vm/src/primitives.rs through the same
//! translator that produces coq/gen/PrimTableGen.v, asks the real type checker for the type of every
//! exported primitive, builds boundary + random argument tuples per argument type, and evaluates
//! every `prim args` expression in ISOLATED CHILD PROCESSES (same executable, `child` argument).  A
//! child prints `B <i>` before and `R <i> <result>` after each call, so a death of the child
//! (abort / signal) is attributed to the exact call; the parent resumes after the dying call.
//!
//! Output files in --out:
//!   model_in.txt   one line per case for the extracted model (coq/extract/c06/driver.ml)
//!   impl_out.txt   canonical result of the implementation, same order
//!   cases.txt      the Gluon source of each case
//!   detail.txt     per case: error text / panic message (diagnostics, not compared)
//!   hist_out.txt   results of the history / reclaim / stack-reuse checks (`ok ...` | `FAIL ...`)
//!   stats.json
use gluon::vm::api::{Hole, OpaqueValue, ValueRef};
use gluon::vm::thread::ThreadInternal;
use gluon::{RootedThread, ThreadExt};
use gvh::out::{Args, Hist, fnv};
use gvh::rng::Rng;
use std::collections::{BTreeMap, HashSet};
use std::io::Write;
use std::sync::atomic::{AtomicU64, Ordering};

// ------------------------------------------------------------------------------------------
// VM helpers
// ------------------------------------------------------------------------------------------

fn new_vm(prelude: bool) -> RootedThread {
    let vm = gluon::VmBuilder::new().build();
    vm.get_database_mut().implicit_prelude(prelude);
    vm
}

fn show_value(v: ValueRef, depth: u32, out: &mut String) {
    if depth > 6 {
        out.push('?');
        return;
    }
    match v {
        ValueRef::Int(i) => out.push_str(&i.to_string()),
        ValueRef::Byte(b) => out.push_str(&format!("{}b", b)),
        ValueRef::Float(f) => out.push_str(&format!("f{:016x}", f.to_bits())),
        ValueRef::String(s) => {
            out.push('s');
            for b in s.bytes() {
                out.push_str(&format!("{:02x}", b));
            }
        }
        ValueRef::Data(d) => {
            out.push('(');
            out.push_str(&d.tag().to_string());
            for i in 0..d.len() {
                out.push(' ');
                match d.get(i) {
                    Some(x) => show_value(x, depth + 1, out),
                    None => out.push('?'),
                }
            }
            out.push(')');
        }
        ValueRef::Array(a) => {
            out.push('[');
            let mut first = true;
            for x in a.iter() {
                if !first {
                    out.push(' ');
                }
                first = false;
                show_value(x.as_ref(), depth + 1, out);
            }
            out.push(']');
        }
        ValueRef::Userdata(_) => out.push_str("<userdata>"),
        ValueRef::Thread(_) => out.push_str("<thread>"),
        ValueRef::Closure(_) => out.push_str("<fun>"),
        ValueRef::Internal => out.push_str("<internal>"),
    }
}

/// (canonical result line, diagnostic detail)
fn eval(vm: &RootedThread, src: &str, io: bool) -> (String, String) {
    let r = std::panic::catch_unwind(std::panic::AssertUnwindSafe(|| {
        if io {
            vm.run_io(true);
        }
        vm.run_expr::<OpaqueValue<RootedThread, Hole>>("c06", src)
    }));
    match r {
        Err(p) => {
            let msg = p
                .downcast_ref::<String>()
                .cloned()
                .or_else(|| p.downcast_ref::<&str>().map(|s| s.to_string()))
                .unwrap_or_default();
            ("panic".into(), one_line(&msg))
        }
        Ok(Ok((v, _))) => {
            let mut s = String::from("ret ");
            show_value(v.get_ref(), 0, &mut s);
            (s, String::new())
        }
        Ok(Err(e)) => {
            let class = match &e {
                gluon::Error::VM(_) => "err:vm",
                gluon::Error::Parse(_) => "err:parse",
                gluon::Error::Typecheck(_) => "err:typecheck",
                gluon::Error::Macro(_) => "err:macro",
                gluon::Error::IO(_) => "err:io",
                gluon::Error::Other(_) => "err:other",
                gluon::Error::Multiple(_) => "err:multiple",
            };
            (class.into(), one_line(&e.to_string()))
        }
    }
}

fn one_line(s: &str) -> String {
    let t: String = s.chars().map(|c| if c == '\n' || c == '\r' || c == '\t' { ' ' } else { c }).collect();
    t.chars().take(240).collect()
}

// ------------------------------------------------------------------------------------------
// child: evaluate job lines [start, end) of a job file on one VM, with markers
// ------------------------------------------------------------------------------------------

static DEADLINE_MS: AtomicU64 = AtomicU64::new(u64::MAX);
static CURRENT: AtomicU64 = AtomicU64::new(0);

fn start_watchdog() -> std::time::Instant {
    // One line per panic and no backtrace: symbolising a backtrace of this binary takes seconds,
    // and the runtime prints one for every non-unwinding panic.
    std::panic::set_hook(Box::new(|info| {
        let msg = info
            .payload()
            .downcast_ref::<String>()
            .cloned()
            .or_else(|| info.payload().downcast_ref::<&str>().map(|s| s.to_string()))
            .unwrap_or_default();
        let loc = info.location().map(|l| format!("{}:{}:{}", l.file(), l.line(), l.column())).unwrap_or_default();
        eprintln!("C06PANIC {} :: {}", loc, one_line(&msg));
    }));
    let t0 = std::time::Instant::now();
    std::thread::spawn(move || {
        loop {
            std::thread::sleep(std::time::Duration::from_millis(100));
            let now = t0.elapsed().as_millis() as u64;
            if now > DEADLINE_MS.load(Ordering::SeqCst) {
                println!("H {}", CURRENT.load(Ordering::SeqCst));
                let _ = std::io::stdout().flush();
                std::process::exit(3);
            }
        }
    });
    t0
}

fn child_main(rest: &[String]) {
    // child <jobfile> <start> <end> <prelude 0|1>
    let jobs: Vec<String> = std::fs::read_to_string(&rest[0]).expect("job file").lines().map(|s| s.replace('\u{1}', "\n")).collect();
    let start: usize = rest[1].parse().unwrap();
    let end: usize = rest[2].parse().unwrap();
    let prelude = rest[3] == "1";
    let t0 = start_watchdog();
    let mut vm = new_vm(prelude);
    let out = std::io::stdout();
    for i in start..end.min(jobs.len()) {
        if (i - start) % 1500 == 1499 {
            vm = new_vm(prelude);
        }
        CURRENT.store(i as u64, Ordering::SeqCst);
        DEADLINE_MS.store(t0.elapsed().as_millis() as u64 + 60_000, Ordering::SeqCst);
        {
            let mut o = out.lock();
            writeln!(o, "B {}", i).unwrap();
            o.flush().unwrap();
        }
        let (r, d) = eval(&vm, &jobs[i], prelude);
        DEADLINE_MS.store(u64::MAX, Ordering::SeqCst);
        {
            let mut o = out.lock();
            writeln!(o, "R {} {}\t{}", i, r, d).unwrap();
            o.flush().unwrap();
        }
        if r == "panic" {
            vm = new_vm(prelude);
        }
    }
}

// ------------------------------------------------------------------------------------------
// parent side of the isolated runner
// ------------------------------------------------------------------------------------------

struct Outcome {
    result: String,
    detail: String,
}

fn run_isolated(jobfile: &std::path::Path, n: usize, prelude: bool, workers: usize, mode: &str, batch: usize) -> Vec<Outcome> {
    let exe = std::env::current_exe().expect("current_exe");
    let next_batch = std::sync::Arc::new(std::sync::atomic::AtomicUsize::new(0));
    let mut handles = vec![];
    for _ in 0..workers.max(1) {
        let exe = exe.clone();
        let jobfile = jobfile.to_path_buf();
        let mode = mode.to_string();
        let next_batch = next_batch.clone();
        handles.push(std::thread::spawn(move || {
            let mut res: Vec<(usize, Outcome)> = vec![];
            loop {
                let lo = next_batch.fetch_add(batch, Ordering::SeqCst);
                if lo >= n {
                    break;
                }
                let hi = (lo + batch).min(n);
                let mut start = lo;
                while start < hi {
                    let stop = hi;
                    let o = std::process::Command::new(&exe)
                        .arg(&mode)
                        .arg(&jobfile)
                        .arg(start.to_string())
                        .arg(stop.to_string())
                        .arg(if prelude { "1" } else { "0" })
                        .env("RUST_BACKTRACE", "0")
                        .output()
                        .expect("spawn child");
                    let stdout = String::from_utf8_lossy(&o.stdout).to_string();
                    let stderr = String::from_utf8_lossy(&o.stderr).to_string();
                    let mut begun: Option<usize> = None;
                    let mut hung = false;
                    let mut next = start;
                    for line in stdout.lines() {
                        if let Some(x) = line.strip_prefix("B ") {
                            begun = x.trim().parse().ok();
                        } else if let Some(x) = line.strip_prefix("R ") {
                            let (idx, rest) = x.split_once(' ').unwrap_or((x, ""));
                            let idx: usize = idx.parse().unwrap_or(usize::MAX);
                            let (r, d) = rest.split_once('\t').unwrap_or((rest, ""));
                            res.push((idx, Outcome { result: r.to_string(), detail: d.to_string() }));
                            begun = None;
                            next = idx + 1;
                        } else if line.starts_with("H ") {
                            hung = true;
                        }
                    }
                    if let Some(i) = begun {
                        // the child died (or was stopped by its watchdog) inside call i
                        use std::os::unix::process::ExitStatusExt;
                        let how = if hung {
                            "hang".to_string()
                        } else if let Some(sig) = o.status.signal() {
                            if sig == 6 { "abort".to_string() } else { format!("signal{}", sig) }
                        } else {
                            format!("exit{}", o.status.code().unwrap_or(-1))
                        };
                        // the panic message printed by the child's hook before the runtime aborted
                        let mut msg = String::new();
                        for l in stderr.lines() {
                            if let Some(m) = l.strip_prefix("C06PANIC ") {
                                if !m.contains("panic in a function that cannot unwind") {
                                    msg = m.to_string();
                                }
                            }
                        }
                        res.push((i, Outcome { result: how, detail: one_line(&msg) }));
                        next = i + 1;
                    } else if next < stop {
                        if o.status.success() {
                            next = stop;
                        } else {
                            // died between calls (e.g. while building the VM): attribute to the next call
                            res.push((next, Outcome { result: "died-between-calls".into(), detail: one_line(&stderr) }));
                            next += 1;
                        }
                    }
                    start = next;
                }
            }
            res
        }));
    }
    let mut all: Vec<Option<Outcome>> = (0..n).map(|_| None).collect();
    for h in handles {
        for (i, o) in h.join().expect("worker") {
            if i < n {
                all[i] = Some(o);
            }
        }
    }
    all.into_iter().map(|o| o.unwrap_or(Outcome { result: "missing".into(), detail: String::new() })).collect()
}

// ------------------------------------------------------------------------------------------
// arguments
// ------------------------------------------------------------------------------------------

#[derive(Clone, Debug, PartialEq)]
enum Ty {
    Int,
    Byte,
    Char,
    Float,
    Str,
    ArrA,
    ArrByte,
    Unit,
    Buf,
    Any,
    Other(String),
}

fn ty_of(s: &str) -> Ty {
    match s {
        "Int" => Ty::Int,
        "Byte" => Ty::Byte,
        "Char" => Ty::Char,
        "Float" => Ty::Float,
        "String" => Ty::Str,
        "Array a" => Ty::ArrA,
        "Array Byte" => Ty::ArrByte,
        "()" => Ty::Unit,
        "a" => Ty::Any,
        _ if s.starts_with("std.effect.st.string.StringBuf") => Ty::Buf,
        _ => Ty::Other(s.to_string()),
    }
}

fn ty_name(t: &Ty) -> String {
    match t {
        Ty::Int => "Int".into(),
        Ty::Byte => "Byte".into(),
        Ty::Char => "Char".into(),
        Ty::Float => "Float".into(),
        Ty::Str => "String".into(),
        Ty::ArrA => "Array".into(),
        Ty::ArrByte => "ArrayByte".into(),
        Ty::Unit => "Unit".into(),
        Ty::Buf => "Buf".into(),
        Ty::Any => "Any".into(),
        Ty::Other(s) => format!("?{}", s.replace(' ', "_")),
    }
}

#[derive(Clone, Debug)]
enum Arg {
    Int(i64),
    Byte(u8),
    Char(char),
    Float(&'static str),
    Str(String),
    ArrInt(Vec<i64>),
    /// array of another representation: (source text, length)
    ArrOther(&'static str, usize),
    ArrByte(Vec<u8>),
    Unit,
    Buf(String),
}

fn str_lit(s: &str) -> String {
    let mut o = String::from("\"");
    for c in s.chars() {
        match c {
            '"' => o.push_str("\\\""),
            '\\' => o.push_str("\\\\"),
            '\n' => o.push_str("\\n"),
            '\t' => o.push_str("\\t"),
            '\r' => o.push_str("\\r"),
            c => o.push(c),
        }
    }
    o.push('"');
    o
}

impl Arg {
    fn src(&self) -> String {
        match self {
            Arg::Int(i) => {
                if *i < 0 {
                    format!("({})", i)
                } else {
                    i.to_string()
                }
            }
            Arg::Byte(b) => format!("{}b", b),
            Arg::Char(c) => match *c {
                '\n' => "'\\n'".into(),
                '\t' => "'\\t'".into(),
                '\r' => "'\\r'".into(),
                '\'' => "'\\''".into(),
                '\\' => "'\\\\'".into(),
                c if c.is_ascii() && !c.is_ascii_control() => format!("'{}'", c),
                // the lexer cannot read a non-ASCII char literal: take it out of a string literal
                c => format!("(c06sp.char_at {} 0)", str_lit(&c.to_string())),
            },
            Arg::Float(s) => format!("({})", s),
            Arg::Str(s) => str_lit(s),
            Arg::ArrInt(v) => format!("[{}]", v.iter().map(|x| if *x < 0 { format!("({})", x) } else { x.to_string() }).collect::<Vec<_>>().join(", ")),
            Arg::ArrOther(s, _) => s.to_string(),
            Arg::ArrByte(v) => format!("[{}]", v.iter().map(|x| format!("{}b", x)).collect::<Vec<_>>().join(", ")),
            Arg::Unit => "()".into(),
            Arg::Buf(_) => "c06buf".into(),
        }
    }
    fn model(&self) -> String {
        fn hex(b: &[u8]) -> String {
            b.iter().map(|x| format!("{:02x}", x)).collect()
        }
        match self {
            Arg::Int(i) => format!("i:{}", i),
            Arg::Byte(b) => format!("b:{}", b),
            Arg::Char(c) => format!("c:{}", *c as u32),
            Arg::Float(_) => "f:0".into(),
            Arg::Str(s) => format!("s:{}", hex(s.as_bytes())),
            Arg::ArrInt(v) => format!("a:{}", v.iter().map(|x| x.to_string()).collect::<Vec<_>>().join(",")),
            Arg::ArrOther(_, n) => format!("a:{}", vec!["0"; *n].join(",")),
            Arg::ArrByte(v) => format!("y:{}", hex(v)),
            Arg::Unit => "u".into(),
            Arg::Buf(s) => format!("B:{}", hex(s.as_bytes())),
        }
    }
    fn exact(&self) -> bool {
        !matches!(self, Arg::ArrOther(..) | Arg::Float(_))
    }
}

const MAX: i64 = i64::MAX;
const MIN: i64 = i64::MIN;

fn ints_a(thorough: bool) -> Vec<i64> {
    let mut v = vec![0, 1, -1, 2, 3, 10, 255, (1 << 32) + 1, 3037000499, 3037000500, MAX, MIN, MIN + 1, -2, 1 << 62];
    if thorough {
        v.extend([7, 8, 36, 63, 64, 65, 100, 256, -64, -3037000500, MAX - 1, 1 << 31, (1 << 32) - 1, 1 << 32, 1 << 33, -(1 << 62), 55296, 1114111, 1114112]);
    }
    v
}
fn ints_b(thorough: bool) -> Vec<i64> {
    let mut v = vec![0, 1, -1, 2, 3, 7, 8, 36, 37, 62, 63, 64, 65, 99, 1 << 32, (1 << 32) + 2, (1 << 32) + 37, MAX, MIN, MIN + 1, -64, 1 << 31];
    if thorough {
        v.extend([9, 10, 16, 31, 32, 33, 35, 100, 127, 128, 255, 256, (1 << 32) - 1, (1 << 32) + 36, (1 << 32) + 63, (1 << 32) + 64, MAX - 1, -2, -63, -65, 3037000500]);
    }
    v
}
fn ints_unary() -> Vec<i64> {
    vec![0, 1, -1, 2, 7, 10, 36, 37, 63, 64, 65, 99, 127, 128, 255, 256, 55295, 55296, 57343, 57344, 65535, 1114111, 1114112, 1 << 31, (1 << 32) - 1, 1 << 32, (1 << 32) + 65, (1 << 32) + 55296, MAX, MAX - 1, MIN, MIN + 1, -2, -255, -256]
}
fn bytes_pool() -> Vec<u8> {
    vec![0, 1, 2, 3, 7, 8, 9, 15, 16, 36, 37, 127, 128, 200, 254, 255]
}
fn chars_pool() -> Vec<char> {
    vec!['a', 'z', 'A', 'Z', '0', '9', ' ', '\n', '_', 'é', 'ß', '€', '😀', '٣', '\u{10FFFF}', '\u{7f}', '\u{80}', '\u{7ff}', '\u{800}', '\u{ffff}', '\u{10000}']
}
fn radix_pool() -> Vec<i64> {
    vec![0, 1, 2, 8, 10, 16, 35, 36, 37, 99, (1 << 32) + 10, (1 << 32) + 36, (1 << 32) + 37, 1 << 32, MAX, MIN, -1]
}
fn floats_pool() -> Vec<&'static str> {
    vec![
        "0.0", "1.0", "-1.5", "0.5", "2.5", "1000000.0", "-0.0", "9007199254740993.0", "c06fp.nan", "c06fp.infinity", "c06fp.neg_infinity", "c06fp.max_", "c06fp.min_",
        "c06fp.min_positive", "c06fp.epsilon",
    ]
}
fn strings_pool() -> Vec<&'static str> {
    vec!["", "a", "hello", "h\u{e9}llo", "\u{20ac}uro", "a\u{1f600}b", "\u{df}\u{20ac}\u{1f600}", " \tpad \n", "12", "-7f", "zz", "+5", "9223372036854775807", "9223372036854775808", "1.5", "aXbXc", "X", "\u{e9}"]
}
fn index_strings() -> Vec<&'static str> {
    vec!["", "a", "hello", "h\u{e9}llo", "\u{20ac}u", "a\u{1f600}b", "\u{df}\u{20ac}\u{1f600}"]
}
fn idx_pool(len: usize) -> Vec<i64> {
    let mut v: Vec<i64> = (0..=(len as i64 + 1)).collect();
    v.extend([-1, MAX, MIN, 1 << 32]);
    v
}
fn int_arrays() -> Vec<Vec<i64>> {
    vec![vec![], vec![7], vec![1, 2, 3], vec![5, -6, 7, MIN, 9, MAX, 11, 12]]
}
fn other_arrays() -> Vec<(&'static str, usize)> {
    vec![("[\"a\", \"bc\"]", 2), ("[1.5, 2.5, 3.5]", 3), ("[1b, 2b]", 2), ("[[1], [2, 3]]", 2), ("[(), ()]", 2), ("[{ x = 1, y = \"s\" }]", 1)]
}
fn byte_arrays() -> Vec<Vec<u8>> {
    vec![vec![], vec![104, 105], vec![195, 169], vec![255], vec![195], vec![226, 130], vec![226, 130, 172], vec![240, 159, 152, 128], vec![237, 160, 128], vec![192, 128], vec![97, 128, 98], vec![244, 144, 128, 128]]
}

fn rand_int(rng: &mut Rng) -> i64 {
    match rng.below(8) {
        0 => rng.range(-3, 70),
        1 => rng.next_u64() as i64,
        2 => {
            let k = rng.below(64);
            let base = if k == 63 { MIN } else { 1i64 << k };
            base.wrapping_add(rng.range(-2, 2))
        }
        3 => -(rng.range(0, 1 << 40)),
        4 => (1i64 << 32) + rng.range(0, 70),
        5 => rng.range(0, 1 << 20),
        6 => *rng.pick(&[MIN, MAX, MIN + 1, MAX - 1, 0, -1]),
        _ => rng.range(-100000, 100000),
    }
}
fn rand_char(rng: &mut Rng) -> char {
    let pool = ['a', 'b', 'z', 'X', '0', '7', ' ', '-', '+', 'é', 'ß', '€', '😀', '٣', 'ñ', '中'];
    *rng.pick(&pool)
}
fn rand_string(rng: &mut Rng) -> String {
    let n = rng.below(7);
    (0..n).map(|_| rand_char(rng)).collect()
}

/// All tuples for a signature.  `family` labels go to the histogram.
fn tuples(sig: &[Ty], thorough: bool, rng: &mut Rng, cap: usize, nrand: usize) -> Vec<(Vec<Arg>, &'static str)> {
    let mut out: Vec<(Vec<Arg>, &'static str)> = vec![];
    let s: Vec<&Ty> = sig.iter().collect();
    let ints_u: Vec<Arg> = ints_unary().into_iter().map(Arg::Int).collect();
    let bytes: Vec<Arg> = bytes_pool().into_iter().map(Arg::Byte).collect();
    let chars: Vec<Arg> = chars_pool().into_iter().map(Arg::Char).collect();
    let floats: Vec<Arg> = floats_pool().into_iter().map(Arg::Float).collect();
    let strs: Vec<Arg> = strings_pool().into_iter().map(|x| Arg::Str(x.to_string())).collect();
    let mut push = |v: Vec<Arg>| out.push((v, "boundary"));
    match s.as_slice() {
        [Ty::Int] => ints_u.iter().for_each(|a| push(vec![a.clone()])),
        [Ty::Byte] => (0..=255u8).for_each(|b| push(vec![Arg::Byte(b)])),
        [Ty::Char] => chars.iter().for_each(|a| push(vec![a.clone()])),
        [Ty::Float] => floats.iter().for_each(|a| push(vec![a.clone()])),
        [Ty::Str] => strs.iter().for_each(|a| push(vec![a.clone()])),
        [Ty::Unit] => push(vec![Arg::Unit]),
        [Ty::Any] => {
            push(vec![Arg::Int(3)]);
            push(vec![Arg::Unit]);
            push(vec![Arg::Str("x".into())]);
            push(vec![Arg::ArrInt(vec![1])]);
            push(vec![Arg::Float("1.5")]);
        }
        [Ty::ArrA] => {
            int_arrays().into_iter().for_each(|a| push(vec![Arg::ArrInt(a)]));
            other_arrays().into_iter().for_each(|(s, n)| push(vec![Arg::ArrOther(s, n)]));
        }
        [Ty::ArrByte] => byte_arrays().into_iter().for_each(|a| push(vec![Arg::ArrByte(a)])),
        [Ty::Buf] => index_strings().into_iter().for_each(|x| push(vec![Arg::Buf(x.to_string())])),
        [Ty::Int, Ty::Int] => {
            for a in ints_a(thorough) {
                for b in ints_b(thorough) {
                    push(vec![Arg::Int(a), Arg::Int(b)]);
                }
            }
        }
        [Ty::Byte, Ty::Byte] => {
            for a in &bytes {
                for b in &bytes {
                    push(vec![a.clone(), b.clone()]);
                }
            }
        }
        [Ty::Byte, Ty::Int] => {
            for a in &bytes {
                for b in ints_b(thorough) {
                    push(vec![a.clone(), Arg::Int(b)]);
                }
            }
        }
        [Ty::Char, Ty::Int] => {
            for a in &chars {
                for b in radix_pool() {
                    push(vec![a.clone(), Arg::Int(b)]);
                }
            }
        }
        [Ty::Float, Ty::Float] => {
            for a in &floats {
                for b in &floats {
                    push(vec![a.clone(), b.clone()]);
                }
            }
        }
        [Ty::Float, Ty::Int] => {
            for a in &floats {
                for b in [0, 1, -1, 2, 1 << 31, (1 << 31) - 1, 1 << 32, MAX, MIN] {
                    push(vec![a.clone(), Arg::Int(b)]);
                }
            }
        }
        [Ty::Float, Ty::Float, Ty::Float] => {
            for a in &floats {
                for b in floats.iter().step_by(2) {
                    for c in floats.iter().step_by(3) {
                        push(vec![a.clone(), b.clone(), c.clone()]);
                    }
                }
            }
        }
        [Ty::Str, Ty::Str] => {
            for a in &strs {
                for b in &strs {
                    push(vec![a.clone(), b.clone()]);
                }
            }
        }
        [Ty::Str, Ty::Char] => {
            for a in strs.iter().take(7) {
                for b in &chars {
                    push(vec![a.clone(), b.clone()]);
                }
            }
        }
        [Ty::Str, Ty::Int] => {
            for a in strings_pool() {
                let mut ints = idx_pool(a.len());
                ints.extend(radix_pool());
                ints.sort();
                ints.dedup();
                for b in ints {
                    push(vec![Arg::Str(a.to_string()), Arg::Int(b)]);
                }
            }
        }
        [Ty::Str, Ty::Int, Ty::Int] => {
            for a in index_strings() {
                for b in idx_pool(a.len()) {
                    for c in idx_pool(a.len()) {
                        push(vec![Arg::Str(a.to_string()), Arg::Int(b), Arg::Int(c)]);
                    }
                }
            }
        }
        [Ty::Buf, Ty::Int, Ty::Int] => {
            for a in index_strings() {
                for b in idx_pool(a.len()) {
                    for c in idx_pool(a.len()) {
                        push(vec![Arg::Buf(a.to_string()), Arg::Int(b), Arg::Int(c)]);
                    }
                }
            }
        }
        [Ty::Buf, Ty::Str] => {
            for a in index_strings() {
                for b in strs.iter().take(6) {
                    push(vec![Arg::Buf(a.to_string()), b.clone()]);
                }
            }
        }
        [Ty::ArrA, Ty::Int] => {
            for a in int_arrays() {
                for b in idx_pool(a.len()) {
                    push(vec![Arg::ArrInt(a.clone()), Arg::Int(b)]);
                }
            }
            for (s, n) in other_arrays() {
                for b in idx_pool(n) {
                    push(vec![Arg::ArrOther(s, n), Arg::Int(b)]);
                }
            }
        }
        [Ty::ArrA, Ty::Int, Ty::Int] => {
            for a in int_arrays() {
                for b in idx_pool(a.len()) {
                    for c in idx_pool(a.len()) {
                        push(vec![Arg::ArrInt(a.clone()), Arg::Int(b), Arg::Int(c)]);
                    }
                }
            }
            for (s, n) in other_arrays() {
                for b in idx_pool(n) {
                    for c in idx_pool(n) {
                        push(vec![Arg::ArrOther(s, n), Arg::Int(b), Arg::Int(c)]);
                    }
                }
            }
        }
        [Ty::ArrA, Ty::ArrA] => {
            for a in int_arrays() {
                for b in int_arrays() {
                    push(vec![Arg::ArrInt(a.clone()), Arg::ArrInt(b)]);
                }
            }
            for (s, n) in other_arrays() {
                push(vec![Arg::ArrOther(s, n), Arg::ArrOther(s, n)]);
                push(vec![Arg::ArrOther(s, n), Arg::ArrInt(vec![])]);
                push(vec![Arg::ArrInt(vec![]), Arg::ArrOther(s, n)]);
            }
        }
        _ => {}
    }
    drop(push);
    // cap the boundary family by a seeded sample (keeps the run inside the tier's budget)
    // rare corner points are never sampled away
    let core_int = [MIN, -1, 0, 1, 2, 36, 37, 63, 64, 99, MAX, (1 << 32) + 2, (1 << 32) + 37];
    let core_byte = [0u8, 1, 2, 7, 8, 255];
    let is_core = |t: &Vec<Arg>| {
        t.iter().all(|a| match a {
            Arg::Int(i) => core_int.contains(i),
            Arg::Byte(b) => core_byte.contains(b),
            Arg::Char(c) => ['a', '9', '\u{e9}'].contains(c),
            _ => false,
        })
    };
    let mut core: Vec<(Vec<Arg>, &'static str)> = vec![];
    if out.len() > cap {
        let (c, rest): (Vec<_>, Vec<_>) = out.into_iter().partition(|(t, _)| is_core(t));
        core = c.into_iter().map(|(t, _)| (t, "corner")).collect();
        out = rest;
    }
    if out.len() > cap {
        let mut keep: Vec<(Vec<Arg>, &'static str)> = vec![];
        let n = out.len();
        let mut idx: Vec<usize> = (0..n).collect();
        for i in 0..cap {
            let j = i + rng.below((n - i) as u64) as usize;
            idx.swap(i, j);
        }
        let mut chosen: Vec<usize> = idx[..cap].to_vec();
        chosen.sort();
        for i in chosen {
            keep.push(out[i].clone());
        }
        out = keep;
    }
    out.extend(core);
    // random tuples from the seed
    for _ in 0..nrand {
        let mut v = vec![];
        let mut last_len: Option<usize> = None;
        let mut ok = true;
        for t in sig {
            let a = match t {
                Ty::Int => match last_len {
                    Some(l) if rng.chance(3, 4) => Arg::Int(rng.range(-1, l as i64 + 2)),
                    _ => Arg::Int(rand_int(rng)),
                },
                Ty::Byte => Arg::Byte(rng.below(256) as u8),
                Ty::Char => Arg::Char(rand_char(rng)),
                Ty::Float => Arg::Float(*rng.pick(&floats_pool())),
                Ty::Str => {
                    let s = rand_string(rng);
                    last_len = Some(s.len());
                    Arg::Str(s)
                }
                Ty::Buf => {
                    let s = rand_string(rng);
                    last_len = Some(s.len());
                    Arg::Buf(s)
                }
                Ty::ArrA => {
                    let n = rng.below(6) as usize;
                    last_len = Some(n);
                    Arg::ArrInt((0..n).map(|_| rand_int(rng)).collect())
                }
                Ty::ArrByte => {
                    let n = rng.below(6) as usize;
                    if rng.chance(1, 2) {
                        Arg::ArrByte(rand_string(rng).into_bytes())
                    } else {
                        Arg::ArrByte((0..n).map(|_| rng.below(256) as u8).collect())
                    }
                }
                Ty::Unit => Arg::Unit,
                Ty::Any => Arg::Int(rand_int(rng)),
                Ty::Other(_) => {
                    ok = false;
                    Arg::Unit
                }
            };
            v.push(a);
        }
        if ok && !sig.is_empty() {
            out.push((v, "random"));
        }
    }
    out
}

// ------------------------------------------------------------------------------------------
// cases
// ------------------------------------------------------------------------------------------

struct Case {
    module: String,
    name: String,
    src: String,
    model: String,
    family: &'static str,
}

fn case_src(module: &str, name: &str, args: &[Arg]) -> String {
    let mut s = String::new();
    let body: Vec<String> = args.iter().map(|a| a.src()).collect();
    if body.iter().any(|b| b.contains("c06sp.")) {
        s.push_str("let c06sp = import! std.string.prim in ");
    }
    if body.iter().any(|b| b.contains("c06fp.")) {
        s.push_str("let c06fp = import! std.float.prim in ");
    }
    s.push_str(&format!("let c06m = import! {} in ", module));
    let call = {
        let mut c = format!("c06m.{}", name);
        for b in &body {
            c.push(' ');
            c.push_str(b);
        }
        c
    };
    if let Some(Arg::Buf(content)) = args.iter().find(|a| matches!(a, Arg::Buf(_))) {
        // (push, call) in one tuple: fields are evaluated left to right and both are used
        s.push_str(&format!(
            "let c06buf = c06m.new () in match (c06m.push_str c06buf {}, {}) with | (_, c06r) -> c06r",
            str_lit(content),
            call
        ));
    } else {
        s.push_str(&call);
    }
    s
}

/// Modules whose primitives have a clause in Lib/Prims.v (compared with the model); the others are
/// monitored only (no abort / hang / panic).
fn modelled(module: &str) -> bool {
    matches!(module, "std.int.prim" | "std.byte.prim" | "std.char.prim" | "std.string.prim" | "std.array.prim" | "std.float.prim" | "std.prim" | "std.effect.st.string.prim")
}

fn signatures(table: &gvh::tr::primtable::Table) -> BTreeMap<(String, String), Vec<String>> {
    let mut out = BTreeMap::new();
    let mut mods: Vec<String> = table.entries.iter().map(|e| e.module.clone()).collect();
    mods.sort();
    mods.dedup();
    for m in mods {
        if m == "std.path.prim" || m == "std.fs.prim" {
            // need the prelude and `std.fs.prim` loaded first (importing std.path.prim on its own
            // panics: see the `import:` program); driven through std.path / std.fs in os_programs
            continue;
        }
        // std.path.prim / std.fs.prim need the prelude (std.path.types derives Show/Eq)
        for prelude in [false, true] {
            let vm = new_vm(prelude);
            let r = std::panic::catch_unwind(std::panic::AssertUnwindSafe(|| vm.typecheck_str("c06sig", &format!("import! {}", m), None)));
            if let Ok(Ok((_, typ))) = r {
                for f in gluon_base::types::row_iter(gluon_base::types::remove_forall(&typ)) {
                    let args: Vec<String> = gluon_base::types::arg_iter(gluon_base::types::remove_forall(&f.typ)).map(|a| a.to_string()).collect();
                    out.insert((m.clone(), f.name.declared_name().to_string()), args);
                }
                break;
            }
        }
    }
    out
}

// ------------------------------------------------------------------------------------------
// histories (one VM, failing and succeeding evaluations interleaved)
// ------------------------------------------------------------------------------------------

/// (source, expected to succeed)
fn program_pool() -> Vec<(String, bool)> {
    let v: Vec<(&'static str, bool)> = vec![
        // succeeding
        ("1 #Int+ 2", true),
        ("let f x = x #Int* 2 in f 21", true),
        ("rec let sum n acc = if n #Int== 0 then acc else sum (n #Int- 1) (acc #Int+ n) in sum 1000 0", true),
        ("rec let fib n = if n #Int< 2 then n else fib (n #Int- 1) #Int+ fib (n #Int- 2) in fib 15", true),
        ("{ a = 1, b = \"two\", c = [1, 2, 3] }", true),
        ("let m = import! std.int.prim in m.wrapping_add 9223372036854775807 1", true),
        ("let s = import! std.string.prim in s.slice \"h\u{e9}llo\" 1 3", true),
        ("let s = import! std.string.prim in s.append \"abc\" \"def\"", true),
        ("let a = import! std.array.prim in a.append [1, 2] [3]", true),
        ("let a = import! std.array.prim in a.index (a.slice [1, 2, 3, 4] 1 3) 1", true),
        ("let r = { f = \\x -> x #Int+ 1 } in r.f 41", true),
        ("type T = | A Int | B in match A 3 with | A x -> x | B -> 0", true),
        ("rec let build n acc = if n #Int== 0 then acc else build (n #Int- 1) ((import! std.string.prim).append acc \"x\") in (import! std.string.prim).len (build 200 \"\")", true),
        ("let c = import! std.char.prim in c.to_digit 'f' 16", true),
        ("1.5 #Float* 2.0", true),
        // failing: compile time
        ("1 +", false),
        ("let x = in 1", false),
        ("\"unterminated", false),
        ("1 #Int+ \"a\"", false),
        ("undefined_variable_c06", false),
        ("let f x = x in f 1 2", false),
        ("import! std.does.not.exist", false),
        ("{ a = 1 }.b", false),
        // failing: run time
        ("9223372036854775807 #Int+ 1", false),
        ("1 #Int/ 0", false),
        ("(0 #Int- 9223372036854775807 #Int- 1) #Int/ (0 #Int- 1)", false),
        ("(import! std.prim).error \"boom\"", false),
        ("let a = import! std.array.prim in a.index [1, 2] 5", false),
        ("let a = import! std.array.prim in a.slice [1, 2] 2 1", false),
        ("let s = import! std.string.prim in s.slice \"\u{e9}\" 0 1", false),
        ("let s = import! std.string.prim in s.char_at \"abc\" 3", false),
        ("let s = import! std.string.prim in s.split_at \"abc\" 9", false),
        ("let m = import! std.int.prim in m.rem 1 0", false),
        ("rec let f x = if x #Int== 0 then (import! std.prim).error \"deep\" else 1 #Int+ f (x #Int- 1) in f 300", false),
        ("let g y = [y, (import! std.array.prim).index [] 0, y] in let r = { h = g } in r.h 1", false),
        ("rec let f x = 1 #Int+ f (x #Int+ 1) in f 0", false),
        ("let a = import! std.array.prim in rec let f x = if x #Int== 0 then a.index [1] 7 else f (x #Int- 1) #Int+ 1 in f 50", false),
    ];
    v.into_iter().map(|(s, b)| (s.to_string(), b)).collect()
}

fn read_pool(path: &std::path::Path) -> Vec<(String, bool)> {
    std::fs::read_to_string(path)
        .expect("pool file")
        .lines()
        .filter_map(|l| l.split_once('\t').map(|(b, s)| (s.to_string(), b == "1")))
        .collect()
}

/// Single programs with the class of outcome the property demands (`ret` or `err`): every kind of
/// result value reaches the host, every kind of front-end failure is an error value.
fn programs() -> Vec<(String, String, &'static str)> {
    let mut v: Vec<(String, String, &'static str)> = vec![];
    let mut add = |label: &str, src: &str, want: &'static str| v.push((label.to_string(), src.to_string(), want));
    add("value:nan", "0.0 #Float/ 0.0", "ret");
    add("value:nan", "(import! std.float.prim).nan", "ret");
    add("value:nan", "(import! std.float.prim).sqrt (-1.0)", "ret");
    add("value:nan-in-record", "{ x = 0.0 #Float/ 0.0 }", "ret");
    add("value:infinity", "1.0 #Float/ 0.0", "ret");
    add("value:neg-zero", "-0.0", "ret");
    add("value:float", "1.5", "ret");
    add("value:int-min", "-9223372036854775808", "ret");
    add("value:closure", "\\x -> x", "ret");
    add("value:partial-application", "let f x y = x in f 1", "ret");
    add("value:primitive-function", "(import! std.int.prim).shl", "ret");
    add("value:empty-array", "[]", "ret");
    add("value:unit", "()", "ret");
    add("value:empty-string", "\"\"", "ret");
    add("value:userdata", "(import! std.effect.st.string.prim).new ()", "ret");
    add("value:variant", "type T = | A Int | B in A 1", "ret");
    add("value:nested-array", "[[1.5], []]", "ret");
    add("lex:invalid-string-escape", "\"\\q\"", "err");
    add("lex:invalid-string-escape", "\"a\\u{e9}b\"", "err");
    add("lex:invalid-char-escape", "'\\0'", "err");
    add("lex:non-ascii-char-literal", "'\u{e9}'", "any");
    add("lex:non-ascii-outside-string", "\u{e9}", "err");
    add("lex:non-ascii-outside-string", "1 #Int+ \u{20ac}", "err");
    add("lex:comment-at-eof", "1 // c", "ret");
    add("lex:block-comment-unterminated", "1 /* c", "err");
    add("lex:int-literal-overflow", "99999999999999999999", "err");
    add("lex:byte-literal-overflow", "256b", "err");
    add("lex:float-literal-huge", "1.0e999", "any");
    add("lex:unterminated-string", "\"abc", "err");
    add("lex:unterminated-char", "'a", "err");
    add("lex:empty-char", "''", "err");
    add("lex:raw-string-unterminated", "r#\"abc", "err");
    add("lex:lone-backslash", "\\", "err");
    add("lex:nul-byte", "1 \u{0} 2", "err");
    add("parse:empty", "", "err");
    add("parse:only-comment", "// nothing", "err");
    add("parse:unbalanced", "((1)", "err");
    add("parse:bad-layout", "let x =\n1\n  in x", "any");
    add("typecheck:occurs", "let f x = x x in f", "err");
    add("typecheck:missing-field", "{ a = 1 }.b", "err");
    add("macro:import-missing", "import! std.does.not.exist", "err");
    add("macro:import-not-ident", "import! 1", "err");
    add("macro:unknown", "nosuchmacro! 1", "err");
    add("import:std.path.prim-before-std.fs", "import! std.path.prim", "any");
    add("import:std.fs.prim", "import! std.fs.prim", "any");
    for n in [100usize, 1000, 5000] {
        add("nesting:parens", &format!("{}1{}", "(".repeat(n), ")".repeat(n)), "ret");
        add("nesting:infix-chain", &format!("1{}", " #Int+ 1".repeat(n)), "ret");
        add("nesting:let", &format!("{}x", "let x = 1 in ".repeat(n)), "ret");
        add("nesting:application", &format!("let f x = x in {}1{}", "f (".repeat(n), ")".repeat(n)), "ret");
        if n <= 1000 {
            // deeper ones are only slow (super-linear compile time), not wrong
            add("nesting:array", &format!("{}{}", "[".repeat(n), "]".repeat(n)), "any");
            add("nesting:lambda", &format!("{}1", "\\x -> ".repeat(n)), "ret");
        }
    }
    v
}

const PROBE: &str = "rec let sum n = if n #Int== 0 then 0 else n #Int+ sum (n #Int- 1) in { s = sum 100, t = (import! std.string.prim).append \"ok\" \"!\", u = [1, 2, 3] }";

fn set_stack_limit(vm: &RootedThread, limit: u32) {
    vm.context().set_max_stack_size(limit);
}
fn frames(vm: &RootedThread) -> usize {
    vm.context().stacktrace(0).frames.len()
}

fn warm_up(vm: &RootedThread, pool: &[(String, bool)]) {
    // every program of the pool once (imports stay loaded: that memory is legitimately kept)
    for (p, _) in pool {
        let _ = eval(vm, p, false);
    }
    let _ = eval(vm, PROBE, false);
    vm.collect();
}

/// hist child: `hist <file> <start> <end> <prelude>`; each line of the file is a space separated
/// list of program indices (or `S <n>` for the stack-reuse check).
fn hist_main(rest: &[String]) {
    let lines: Vec<String> = std::fs::read_to_string(&rest[0]).expect("hist file").lines().map(|s| s.to_string()).collect();
    let start: usize = rest[1].parse().unwrap();
    let end: usize = rest[2].parse().unwrap();
    let t0 = start_watchdog();
    let pool = read_pool(&std::path::Path::new(&rest[0]).with_file_name("pool.txt"));
    // result of each program on a FRESH VM (computed once per program, each on its own new VM)
    let mut fresh: BTreeMap<usize, String> = BTreeMap::new();
    let mut fresh_of = |i: usize| -> String {
        if let Some(r) = fresh.get(&i) {
            return r.clone();
        }
        let vm = new_vm(false);
        set_stack_limit(&vm, STACK_LIMIT);
        let r = eval(&vm, &pool[i].0, false).0;
        fresh.insert(i, r.clone());
        r
    };
    let probe_expected = {
        let vm = new_vm(false);
        eval(&vm, PROBE, false).0
    };
    let out = std::io::stdout();
    for li in start..end.min(lines.len()) {
        CURRENT.store(li as u64, Ordering::SeqCst);
        DEADLINE_MS.store(t0.elapsed().as_millis() as u64 + 120_000, Ordering::SeqCst);
        {
            let mut o = out.lock();
            writeln!(o, "B {}", li).unwrap();
            o.flush().unwrap();
        }
        let line = &lines[li];
        let mut verdict = String::from("ok");
        let vm = new_vm(false);
        set_stack_limit(&vm, STACK_LIMIT);
        warm_up(&vm, &pool);
        let base_mem = vm.allocated_memory();
        let base_frames = frames(&vm);
        let toks: Vec<&str> = line.split_whitespace().collect();
        if toks.first() == Some(&"S") {
            // stack reuse: n failing evaluations that die deep in the stack, then a probe that needs
            // most of the (small) stack limit.  Left-over frames or values would add up to an overflow.
            let n: usize = toks[1].parse().unwrap();
            let deep = "rec let f x = if x #Int== 0 then (import! std.prim).error \"deep\" else 1 #Int+ f (x #Int- 1) in f 150";
            let mut fails = 0;
            for k in 0..n {
                let (r, _) = eval(&vm, if k % 2 == 0 { deep } else { "let a = import! std.array.prim in rec let f x = if x #Int== 0 then a.index [1] 7 else f (x #Int- 1) #Int+ 1 in f 150" }, false);
                if r.starts_with("err:vm") {
                    fails += 1;
                }
            }
            if fails != n {
                verdict = format!("FAIL stack-reuse: only {} of {} deep evaluations failed with a VM error", fails, n);
            }
            let big = "rec let sum n = if n #Int== 0 then 0 else n #Int+ sum (n #Int- 1) in sum 400";
            let expect = fresh_big(big);
            let (r, d) = eval(&vm, big, false);
            if r != expect {
                verdict = format!("FAIL stack-reuse: after {} failing evaluations a {}-frame program gives `{}` ({}) but `{}` on a fresh VM", n, 400, r, d, expect);
            }
        } else {
            for (pos, t) in toks.iter().enumerate() {
                let i: usize = t.parse().unwrap();
                let (r, d) = eval(&vm, &pool[i].0, false);
                let f = fresh_of(i);
                if r != f {
                    verdict = format!("FAIL history step {} program {}: `{}` ({}) on the used VM but `{}` on a fresh VM", pos, i, r, d, f);
                    break;
                }
                if r == "panic" {
                    verdict = format!("FAIL history step {} program {}: host panic ({})", pos, i, d);
                    break;
                }
                if frames(&vm) != base_frames {
                    verdict = format!("FAIL history step {} program {}: {} frames left on the stack (baseline {})", pos, i, frames(&vm), base_frames);
                    break;
                }
            }
        }
        if verdict == "ok" {
            let (r, d) = eval(&vm, PROBE, false);
            if r != probe_expected {
                verdict = format!("FAIL probe after history: `{}` ({}) expected `{}`", r, d, probe_expected);
            }
        }
        if verdict == "ok" {
            vm.collect();
            let m = vm.allocated_memory();
            if m > base_mem {
                // one more round: the first collect may have been followed by allocations of the probe
                vm.collect();
            }
            let m = vm.allocated_memory();
            if m != base_mem {
                verdict = format!("FAIL reclaim: allocated_memory after collect = {} but the post-warm-up baseline is {}", m, base_mem);
            }
            if frames(&vm) != base_frames {
                verdict = format!("FAIL frames: {} frames after the history, baseline {}", frames(&vm), base_frames);
            }
        }
        DEADLINE_MS.store(u64::MAX, Ordering::SeqCst);
        let mut o = out.lock();
        writeln!(o, "R {} {}\t", li, verdict).unwrap();
        o.flush().unwrap();
    }
}

const STACK_LIMIT: u32 = 4000;

fn fresh_big(src: &str) -> String {
    let vm = new_vm(false);
    set_stack_limit(&vm, STACK_LIMIT);
    eval(&vm, src, false).0
}

// ------------------------------------------------------------------------------------------
// OS-touching modules: monitored only
// ------------------------------------------------------------------------------------------

fn os_programs(tmp: &str) -> Vec<(String, String)> {
    // (label, source) evaluated with the implicit prelude and run_io on; read-only or inside `tmp`
    let mut v: Vec<(String, String)> = vec![];
    // FIRST job of its child (fresh VM): importing the primitive module directly, before anything
    // loaded std.fs.prim (which registers the Metadata type std.path.prim refers to)
    v.push(("std.path.prim.import".into(), "import! std.path.prim".into()));
    let paths = ["", ".", "/", "a/b.txt", "/nonexistent/c06", "a//b/../c", "\u{e9}\u{20ac}", "..", "a.b.c", "/verif/.cache"];
    for f in ["is_absolute", "is_relative", "has_root", "parent", "ancestors", "file_name", "file_stem", "extension", "components", "exists", "is_file", "is_dir", "metadata", "symlink_metadata", "canonicalize", "read_link", "read_dir"] {
        for p in paths.iter() {
            v.push((format!("std.path.prim.{}", f), format!("let p = import! std.path in p.{} {}", f, str_lit(p))));
        }
    }
    for f in ["strip_prefix", "starts_with", "ends_with", "join", "with_file_name", "with_extension"] {
        for p in paths.iter().take(7) {
            for q in paths.iter().take(7) {
                v.push((format!("std.path.prim.{}", f), format!("let p = import! std.path in p.{} {} {}", f, str_lit(p), str_lit(q))));
            }
        }
    }
    for p in ["", "/nonexistent/c06", tmp, "/verif/.cache"] {
        v.push(("std.fs.prim.read_dir".into(), format!("let f = import! std.fs.prim in f.read_dir {}", str_lit(p))));
        v.push(("std.fs.read_dir".into(), format!("let f = import! std.fs in f.read_dir {}", str_lit(p))));
    }
    let file = format!("{}/c06-file.txt", tmp);
    for (label, src) in [
        ("std.io.read_file_to_string", format!("let io = import! std.io in io.read_file_to_string {}", str_lit("/nonexistent/c06"))),
        ("std.io.read_file_to_string", format!("let io = import! std.io in io.read_file_to_string {}", str_lit(&file))),
        ("std.io.read_file_to_array", format!("let io = import! std.io in io.read_file_to_array {}", str_lit(&file))),
        ("std.io.read_file_to_string", format!("let io = import! std.io in io.read_file_to_string {}", str_lit(tmp))),
        ("std.io.read_file_to_string", "let io = import! std.io in io.read_file_to_string \"\"".to_string()),
        ("std.io.open_file", format!("let io = import! std.io in io.open_file {}", str_lit("/nonexistent/c06"))),
        ("std.io.read_file", format!("let io @ {{ ? }} = import! std.io in do f = io.open_file {} in io.read_file f 0", str_lit(&file))),
        ("std.io.read_file", format!("let io @ {{ ? }} = import! std.io in do f = io.open_file {} in io.read_file f 5", str_lit(&file))),
        ("std.io.read_file", format!("let io @ {{ ? }} = import! std.io in do f = io.open_file {} in io.read_file f 1000000", str_lit(&file))),
        ("std.io.read_file", format!("let io @ {{ ? }} = import! std.io in do f = io.open_file {} in io.read_file f (-1)", str_lit(&file))),
        ("std.io.run_expr", "let io = import! std.io in io.run_expr \"1 #Int+\"".to_string()),
        ("std.io.run_expr", "let io = import! std.io in io.run_expr \"1 #Int+ 2\"".to_string()),
        ("std.io.load_script", "let io = import! std.io in io.load_script \"c06x\" \"1 +\"".to_string()),
        ("std.io.catch", "let io = import! std.io in io.catch (io.throw \"x\") (\\e -> io.println e)".to_string()),
        ("std.io.throw", "let io = import! std.io in io.throw \"thrown\"".to_string()),
        ("std.env.get_var", "let e = import! std.env in e.var \"C06_DOES_NOT_EXIST\"".to_string()),
        ("std.env.get_var", "let e = import! std.env in e.var \"\"".to_string()),
        ("std.env.get_var", "let e = import! std.env in e.var \"A=B\"".to_string()),
        ("std.random.next_int", "let r = import! std.random in r.thread_rng.next_int".to_string()),
        ("std.random.gen_int_range", "let r = import! std.random in r.thread_rng.gen_int_range 1 10".to_string()),
        ("std.random.gen_int_range", "let r = import! std.random in r.thread_rng.gen_int_range 10 1".to_string()),
        ("std.random.gen_int_range", "let r = import! std.random in r.thread_rng.gen_int_range 5 5".to_string()),
        ("std.random.gen_int_range", "let r = import! std.random in r.thread_rng.gen_int_range (-9223372036854775808) 9223372036854775807".to_string()),
        ("std.random.xor_shift_new", "let r = import! std.random.prim in r.xor_shift_new [1b, 2b]".to_string()),
        ("std.random.xor_shift_new", "let r = import! std.random.prim in r.xor_shift_new []".to_string()),
        ("std.random.xor_shift_new", "let r = import! std.random.prim in r.xor_shift_new [1b, 2b, 3b, 4b, 5b, 6b, 7b, 8b, 9b, 10b, 11b, 12b, 13b, 14b, 15b, 16b]".to_string()),
        ("std.regex.new", "let r = import! std.regex in r.new \"(\"".to_string()),
        ("std.regex.new", "let r = import! std.regex in r.new \"a{1000000000}\"".to_string()),
        ("std.regex.is_match", "let r = import! std.regex in\nmatch r.new \"a+\" with\n| Ok re -> r.is_match re \"caab\"\n| Err _ -> False".to_string()),
        ("std.regex.captures", "let r = import! std.regex in\nmatch r.new \"(a)|(b)\" with\n| Ok re -> r.captures re \"b\"\n| Err _ -> None".to_string()),
        ("std.regex.find", "let r = import! std.regex in\nmatch r.new \"\" with\n| Ok re -> r.find re \"\u{e9}\"\n| Err _ -> None".to_string()),
        ("std.json.de", "let de = import! std.json.de in de.deserialize de.value_deserializer \"{\"".to_string()),
        ("std.json.de", "let de = import! std.json.de in de.deserialize de.value_deserializer \"[1, 2.5, \\\"x\\\", null, {\\\"a\\\": []}]\"".to_string()),
        ("std.json.de", "let de = import! std.json.de in de.deserialize de.value_deserializer \"[[[[[[[[[[[[[[[[[[[[[[[[[[[[[[[[[[[[[[[[[[[[[[[[[[[[[[[[[[[[[[[[[[[[[[[[[[[[[[[[[[[[[[[[[[[[[[[[[[[[[[[[[[[[[[[[[[[[[[[[[[[[[[[[[[[[[[[[[[[[[[[[[[[[[[[[\"".to_string()),
        ("std.debug.show", "let d = import! std.debug in d.show { a = [1, 2], b = \"x\", c = \\x -> x }".to_string()),
        ("std.reference", "let { ? } = import! std.io in let r = import! std.reference in do x = r.ref 1 in do _ = r.(<-) x 2 in r.load x".to_string()),
        ("std.lazy", "let l = import! std.lazy in l.force (l.lazy (\\_ -> (import! std.prim).error \"lazy boom\"))".to_string()),
        ("std.lazy", "let l = import! std.lazy in rec let x = l.lazy (\\_ -> l.force x) in l.force x".to_string()),
        ("std.thread", "let t = import! std.thread in t.yield ()".to_string()),
        ("std.thread", "let { ? } = import! std.io in let t = import! std.thread in do th = t.new_thread () in t.resume th".to_string()),
    ] {
        v.push((label.to_string(), src));
    }
    v
}

// ------------------------------------------------------------------------------------------
// main
// ------------------------------------------------------------------------------------------

fn key_module(m: &str) -> String {
    m.strip_suffix(".prim").unwrap_or(m).to_string()
}

fn main() {
    let raw: Vec<String> = std::env::args().skip(1).collect();
    if raw.first().map(|s| s.as_str()) == Some("child") {
        return child_main(&raw[1..]);
    }
    if raw.first().map(|s| s.as_str()) == Some("hist") {
        return hist_main(&raw[1..]);
    }
    let args = Args::parse();
    if let Some(path) = &args.replay {
        return replay(path);
    }
    let thorough = args.thorough();
    let workers: usize = args.extra.get("workers").and_then(|s| s.parse().ok()).unwrap_or(12);
    let mut rng = Rng::new(args.seed);
    let mut hist = Hist::default();

    let table = match gvh::tr::primtable::table() {
        Ok(t) => t,
        Err(e) => {
            eprintln!("translator failed: {}", e.msg);
            std::process::exit(2);
        }
    };
    let sigs = signatures(&table);

    // ---- cases ----
    let mut cases: Vec<Case> = vec![];
    let mut sig_lines: Vec<(String, String)> = vec![]; // (model line, impl line)
    let mut uncovered: Vec<String> = vec![];
    let cap = if thorough { 1000 } else { 150 };
    let nrand = if thorough { 150 } else { 24 };
    let mut seen = HashSet::new();
    for e in &table.entries {
        let sig = match sigs.get(&(e.module.clone(), e.name.clone())) {
            Some(s) => s.clone(),
            None => {
                // nested records (std.fs.prim dir_entry.*) need a DirEntry/Metadata value: not driven
                uncovered.push(format!("{}.{} (no first-order signature)", e.module, e.name));
                continue;
            }
        };
        let tys: Vec<Ty> = sig.iter().map(|s| ty_of(s)).collect();
        if modelled(&e.module) {
            sig_lines.push((format!("sig {} {}", e.module, e.name), format!("sig {}", tys.iter().map(ty_name).collect::<Vec<_>>().join(","))));
        }
        if e.module == "std.path.prim" || e.module == "std.fs.prim" {
            continue; // monitored in the OS family below (prelude on)
        }
        let mut r = rng.fork();
        let ts = tuples(&tys, thorough, &mut r, cap, nrand);
        if ts.is_empty() {
            uncovered.push(format!("{}.{} (no generator for signature {:?})", e.module, e.name, sig));
            continue;
        }
        for (t, family) in ts {
            let src = case_src(&e.module, &e.name, &t);
            if !seen.insert(fnv(src.as_bytes())) {
                continue;
            }
            let exact = t.iter().all(|a| a.exact()) && e.module != "std.float.prim";
            let model = format!("{} {} {}{}", if exact { "val" } else { "cls" }, e.module, e.name, t.iter().map(|a| format!(" {}", a.model())).collect::<String>());
            hist.add(&format!("module:{}", e.module));
            hist.add(&format!("family:{}", family));
            cases.push(Case { module: e.module.clone(), name: e.name.clone(), src, model, family });
        }
    }
    // the same primitives reached through the user-facing modules (std.int re-exports std.int.prim)
    // -- a sample, with the implicit prelude, as a user program would call them
    let user_facing: Vec<(String, String)> = vec![
        ("std.int.from_str_radix".into(), "let int = import! std.int in int.from_str_radix \"1\" 99".into()),
        ("std.int.from_str_radix".into(), "let int = import! std.int in int.from_str_radix \"z\" 36".into()),
        ("std.int.shl".into(), "let int = import! std.int in int.shl 1 100".into()),
        ("std.int.shl".into(), "let int = import! std.int in int.shl 1 3".into()),
        ("std.string.slice".into(), "let string = import! std.string in string.slice \"hello\" 3 1".into()),
        ("std.string.slice".into(), "let string = import! std.string in string.slice \"hello\" 1 3".into()),
        ("std.char.to_digit".into(), "let char = import! std.char in char.to_digit 'a' 37".into()),
        ("std.byte.shl".into(), "let byte = import! std.byte in byte.shl 1b 9b".into()),
        ("std.array.index".into(), "let array = import! std.array in array.index [1, 2] 2".into()),
    ];

    // ---- run the primitive sweep ----
    let jobfile = args.out.join("jobs.txt");
    {
        let mut f = std::io::BufWriter::new(std::fs::File::create(&jobfile).unwrap());
        for c in &cases {
            writeln!(f, "{}", c.src.replace('\n', " ")).unwrap();
        }
    }
    let outcomes = run_isolated(&jobfile, cases.len(), false, workers, "child", 150);

    // ---- OS family + user-facing sample (prelude on, run_io on) ----
    let tmp = "/verif/.cache/c06-tmp";
    std::fs::create_dir_all(tmp).ok();
    std::fs::write(format!("{}/c06-file.txt", tmp), "hello c06\n").ok();
    let mut os = os_programs(tmp);
    os.extend(user_facing);
    let osfile = args.out.join("jobs_os.txt");
    {
        let mut f = std::io::BufWriter::new(std::fs::File::create(&osfile).unwrap());
        for (_, s) in &os {
            writeln!(f, "{}", s.replace('\n', "\u{1}")).unwrap();
        }
    }
    let os_out = run_isolated(&osfile, os.len(), true, workers, "child", 40);

    // ---- single programs: every kind of result value / front-end failure ----
    let mut progs: Vec<(String, String, &'static str)> = vec![];
    // corpus first
    if let Ok(text) = std::fs::read_to_string("/verif/corpus/C06/programs.txt") {
        for l in text.lines() {
            if l.starts_with('#') || l.trim().is_empty() {
                continue;
            }
            let f: Vec<&str> = l.splitn(3, '\t').collect();
            if f.len() == 3 {
                let want = match f[1] {
                    "ret" => "ret",
                    "err" => "err",
                    _ => "any",
                };
                progs.push((f[0].to_string(), f[2].to_string(), want));
            }
        }
    }
    progs.extend(programs());
    let progfile = args.out.join("jobs_prog.txt");
    {
        let mut f = std::io::BufWriter::new(std::fs::File::create(&progfile).unwrap());
        for (_, s, _) in &progs {
            writeln!(f, "{}", s.replace('\n', "\u{1}")).unwrap();
        }
    }
    let prog_out = run_isolated(&progfile, progs.len(), false, workers, "child", 6);
    {
        let mut f = args.file("prog_out.txt");
        for ((label, src, want), o) in progs.iter().zip(prog_out.iter()) {
            let class = o.result.split(' ').next().unwrap_or("");
            let ok = match *want {
                "ret" => class == "ret",
                "err" => class.starts_with("err"),
                _ => class == "ret" || class.starts_with("err"),
            };
            let shown: String = src.chars().take(120).collect();
            writeln!(f, "{}\t{}\t{}\t{}\t{}\t{}", if ok { "ok" } else { "FAIL" }, label, want, class, shown.replace('\n', " ").replace('\t', " "), o.detail).unwrap();
            hist.add(&format!("program:{}", class));
        }
        f.flush().unwrap();
    }

    // ---- histories ----
    // pool = fixed programs + a seeded sample of sweep cases that returned a value / a VM error
    let mut pool = program_pool();
    {
        let want = if thorough { 160 } else { 40 };
        let cand: Vec<usize> = (0..cases.len())
            .filter(|i| cases[*i].module != "std.float.prim" && (outcomes[*i].result.starts_with("ret ") || outcomes[*i].result == "err:vm"))
            .collect();
        let (mut n_ok, mut n_bad) = (0, 0);
        let mut tries = 0;
        while !cand.is_empty() && (n_ok < want / 2 || n_bad < want / 2) && tries < 200000 {
            tries += 1;
            let i = *rng.pick(&cand);
            let good = outcomes[i].result.starts_with("ret ");
            if good && n_ok < want / 2 {
                n_ok += 1;
                pool.push((cases[i].src.clone(), true));
            } else if !good && n_bad < want / 2 {
                n_bad += 1;
                pool.push((cases[i].src.clone(), false));
            }
        }
    }
    std::fs::write(args.out.join("pool.txt"), pool.iter().map(|(s, b)| format!("{}\t{}\n", if *b { 1 } else { 0 }, s.replace('\n', " "))).collect::<String>()).unwrap();
    let nhist = if thorough { 600 } else { 96 };
    let ok_idx: Vec<usize> = (0..pool.len()).filter(|i| pool[*i].1).collect();
    let bad_idx: Vec<usize> = (0..pool.len()).filter(|i| !pool[*i].1).collect();
    let mut hlines: Vec<String> = vec![];
    // every failing program once, surrounded by successes
    for b in &bad_idx {
        hlines.push(format!("{} {} {} {} {}", ok_idx[b % ok_idx.len()], b, ok_idx[(b + 3) % ok_idx.len()], b, ok_idx[(b + 5) % ok_idx.len()]));
    }
    for _ in 0..nhist {
        let len = 1 + rng.below(12) as usize;
        let mut v = vec![];
        for _ in 0..len {
            let i = if rng.chance(1, 2) { *rng.pick(&bad_idx) } else { *rng.pick(&ok_idx) };
            v.push(i.to_string());
        }
        hlines.push(v.join(" "));
    }
    hlines.push("S 1000".into());
    if thorough {
        hlines.push("S 3000".into());
    }
    let histfile = args.out.join("jobs_hist.txt");
    std::fs::write(&histfile, hlines.join("\n") + "\n").unwrap();
    let hist_out = run_isolated(&histfile, hlines.len(), false, workers, "hist", 8);

    // ---- write outputs ----
    let mut model_in = args.file("model_in.txt");
    let mut impl_out = args.file("impl_out.txt");
    let mut cases_f = args.file("cases.txt");
    let mut detail_f = args.file("detail.txt");
    for (m, i) in &sig_lines {
        writeln!(model_in, "{}", m).unwrap();
        writeln!(impl_out, "{}", i).unwrap();
        writeln!(cases_f, "{}", m).unwrap();
        writeln!(detail_f, "").unwrap();
    }
    let mut distinct = HashSet::new();
    let mut aborting: BTreeMap<String, u64> = BTreeMap::new();
    for (c, o) in cases.iter().zip(outcomes.iter()) {
        let monitored_only = !modelled(&c.module);
        // monitored-only modules: the model has no clause; only the class "did not take the host down" is recorded
        let line = if monitored_only { format!("mon {}", c.model) } else { c.model.clone() };
        writeln!(model_in, "{}", line).unwrap();
        writeln!(impl_out, "{}", o.result).unwrap();
        writeln!(cases_f, "{}.{}\t{}", key_module(&c.module), c.name, c.src).unwrap();
        writeln!(detail_f, "{}", o.detail).unwrap();
        let class = o.result.split(' ').next().unwrap_or("").to_string();
        hist.add(&format!("impl:{}", class));
        if distinct.insert(fnv(c.model.as_bytes())) {}
        if !(class == "ret" || class.starts_with("err")) {
            *aborting.entry(format!("{}.{}:{}", key_module(&c.module), c.name, class)).or_insert(0) += 1;
        }
        let _ = c.family;
    }
    let mut os_f = args.file("os_out.txt");
    for ((label, src), o) in os.iter().zip(os_out.iter()) {
        writeln!(os_f, "{}\t{}\t{}\t{}", label, o.result.split(' ').next().unwrap_or(""), src, o.detail).unwrap();
        hist.add(&format!("os:{}", o.result.split(' ').next().unwrap_or("")));
    }
    let mut hist_f = args.file("hist_out.txt");
    for (l, o) in hlines.iter().zip(hist_out.iter()) {
        let progs: Vec<String> = l.split_whitespace().filter_map(|t| t.parse::<usize>().ok()).filter(|i| *i < pool.len() && !l.starts_with('S')).map(|i| pool[i].0.clone()).collect();
        writeln!(hist_f, "{}\t{}\t{}", o.result, l, progs.join(" ;; ")).unwrap();
        hist.add(if o.result.starts_with("ok") { "history:ok" } else { "history:FAIL" });
        hist.add(&format!("history-len:{}", l.split_whitespace().count()));
    }
    model_in.flush().unwrap();
    impl_out.flush().unwrap();
    cases_f.flush().unwrap();
    detail_f.flush().unwrap();
    os_f.flush().unwrap();
    hist_f.flush().unwrap();
    gvh::out::write_json(
        &args.out.join("stats.json"),
        &serde_json::json!({
            "evaluations": cases.len() + os.len() + progs.len() + hlines.iter().map(|l| l.split_whitespace().count()).sum::<usize>(),
            "prim_cases": cases.len(),
            "signatures": sig_lines.len(),
            "os_cases": os.len(),
            "histories": hlines.len(),
            "programs": progs.len(),
            "history_pool": pool.len(),
            "distinct_nontrivial": distinct.len(),
            "rule": "one case = (primitive, argument tuple) evaluated as a Gluon program in an isolated child; distinct by (primitive, arguments); every case applies a primitive to at least one argument (none trivial); histories and OS-module probes are counted in evaluations only",
            "primitives_in_table": table.entries.len(),
            "primitives_driven": cases.iter().map(|c| format!("{}.{}", c.module, c.name)).collect::<HashSet<_>>().len(),
            "uncovered": uncovered,
            "aborting": aborting,
            "hist": hist.to_json(),
        }),
    );
}

fn replay(path: &str) {
    let v: serde_json::Value = serde_json::from_str(&std::fs::read_to_string(path).expect("replay file")).expect("json");
    let dir = std::path::PathBuf::from("/verif/.cache/run/c06-replay");
    std::fs::create_dir_all(&dir).unwrap();
    if let Some(hist) = v["case"]["history"].as_str() {
        // a history: the programs (if any) become the pool, evaluated in order on one VM
        let progs: Vec<String> = v["case"]["programs"].as_array().map(|a| a.iter().filter_map(|x| x.as_str().map(|s| s.to_string())).collect()).unwrap_or_default();
        let line = if hist.starts_with('S') { hist.to_string() } else { (0..progs.len()).map(|i| i.to_string()).collect::<Vec<_>>().join(" ") };
        let pool = if progs.is_empty() { program_pool() } else { progs.iter().map(|p| (p.clone(), true)).collect() };
        std::fs::write(dir.join("pool.txt"), pool.iter().map(|(s, b)| format!("{}\t{}\n", if *b { 1 } else { 0 }, s.replace('\n', " "))).collect::<String>()).unwrap();
        let job = dir.join("jobs_hist.txt");
        std::fs::write(&job, format!("{}\n", line)).unwrap();
        let o = run_isolated(&job, 1, false, 1, "hist", 1);
        println!("history: {}", line);
        for (i, p) in progs.iter().enumerate() {
            println!("  program {}: {}", i, p);
        }
        println!("impl: {}  {}", o[0].result, o[0].detail);
        println!("expected: {}", v["expected"].as_str().unwrap_or("?"));
        return;
    }
    let src = v["case"]["source"].as_str().expect("case.source").to_string();
    let prelude = v["case"]["prelude"].as_bool().unwrap_or(false);
    let job = dir.join("jobs.txt");
    std::fs::write(&job, format!("{}\n", src.replace('\n', "\u{1}"))).unwrap();
    let o = run_isolated(&job, 1, prelude, 1, "child", 1);
    println!("source: {}", src);
    println!("impl: {}  {}", o[0].result, o[0].detail);
    println!("expected: {}", v["expected"].as_str().unwrap_or("?"));
}
