use gluon::ThreadExt;
use gluon::vm::api::{Hole, OpaqueValue};
use gluon::RootedThread;
fn new_vm() -> RootedThread {
    let vm = gluon::VmBuilder::new().build();
    vm.get_database_mut().implicit_prelude(false);
    vm
}
fn main() {
    let vm = new_vm();
    let t = gvh::tr::primtable::table().ok().unwrap();
    let mut mods: Vec<String> = t.entries.iter().map(|e| e.module.clone()).collect();
    mods.dedup();
    for m in Vec::<String>::new() {
        match vm.typecheck_str("sig", &format!("import! {}", m), None) {
            Ok((_, typ)) => {
                for f in gluon_base::types::row_iter(gluon_base::types::remove_forall(&typ)) {
                    let mut args = vec![];
                    for a in gluon_base::types::arg_iter(gluon_base::types::remove_forall(&f.typ)) { args.push(a.to_string()); }
                    println!("{} {} : {:?}   [{}]", m, f.name, args, f.typ);
                }
            }
            Err(e) => println!("{} ERR {}", m, e),
        }
    }
    for src in ["\"\\u{e9}\"", "1 #Int+ 2", "\"\\q\"", "-1", "-9223372036854775808", "m.f -1", "'\\u{e9}'", "'\\x41'", "\"\\u{e9}\"", "\"a\\tb\"", "0 #Int- 1", "'a'", "'é'", "'\\n'", "'\\0'", "'\\u{10FFFF}'", "\"a\\u{e9}b\"", "\"é€😀\"", "255b", "1.5", "-1.5", "()", "[]", "[1,2]", "(import! std.float.prim).nan",
       "let m = import! std.int.prim in m.shl 1 3", "let m = import! std.array.prim in m.index [1,2] 5", "let m = import! std.int.prim in m.overflowing_add 1 3", "let m = import! std.int.prim in m.checked_rem 1 0", "let m = import! std.int.prim in m.from_str_radix \"12\" 10", "let m = import! std.char.prim in m.is_digit '1' 10", "let m = import! std.prim in m.string_compare \"a\" \"b\"", "9223372036854775807 #Int+ 1", "let m = import! std.prim in m.error \"boom\"", "1 +", "1 #Int+ \"a\"",
       "let p = import! std.effect.st.string.prim in let b = p.new () in let _ = p.push_str b \"hello\" in p.slice b 1 3"] {
        let r = std::panic::catch_unwind(std::panic::AssertUnwindSafe(|| vm.run_expr::<OpaqueValue<RootedThread, Hole>>("t", src)));
        let r = match r { Ok(r) => r, Err(_) => { println!("{} => PANIC", src); continue } };
        match r {
            Ok((v, t)) => println!("{} => {:?} : {}", src, v.get_ref(), t),
            Err(e) => println!("{} => ERR {:?}", src, e.to_string().lines().next()),
        }
    }
}
