//! C01 harness (probe / smoke modes for now)
use gvh::mg;
use gvh::mg::print::Style;
fn main() {
    let a: Vec<String> = std::env::args().collect();
    if a.len() >= 3 && a[1] == "probe" {
        let text = std::fs::read_to_string(&a[2]).unwrap();
        let vm = mg::run::new_vm();
        for src in text.split("\n%%\n") {
            println!("--- {}", src.trim());
            println!("{}", mg::run::run(&vm, src).canonical());
        }
        return;
    }
    if a.len() >= 3 && a[1] == "smoke" {
        let n: u64 = a[2].parse().unwrap();
        let seed: u64 = a.get(3).and_then(|s| s.parse().ok()).unwrap_or(1);
        let mut rng = gvh::rng::Rng::new(seed);
        let mut cfg = mg::generate::GenConfig::default();
        cfg.features.multi_record_alts = false;
        let mut vm = mg::run::new_vm();
        let mut hist = std::collections::BTreeMap::new();
        let mut shown = 0;
        let t0 = std::time::Instant::now();
        for i in 0..n {
            if i % 1000 == 999 { vm = mg::run::new_vm(); }
            let p = mg::generate::gen_program(&mut rng, &cfg);
            let mut outs = vec![];
            for st in Style::all() {
                let src = mg::print::to_gluon(&p, &st);
                let o = mg::run::run_program(&vm, &p, &src);
                *hist.entry(format!("{}:{}", st.name(), o.class())).or_insert(0u64) += 1;
                let bad = matches!(o.class(), "parse" | "typecheck" | "hostpanic" | "other") || o.canonical().contains("shape-mismatch");
                if bad && shown < 6 {
                    shown += 1;
                    println!("=== case {} style {}\n{}\n{}\n{}", i, st.name(), src, o.canonical().chars().take(1500).collect::<String>(), mg::sexp::program_to_sexp(&p));
                }
                outs.push(o.canonical());
            }
            if outs[0] != outs[1] && shown < 6 {
                shown += 1;
                println!("=== case {} styles disagree\n{}\n{}\n{}", i, mg::print::to_gluon(&p, &Style::layout()), outs[0], outs[1]);
            }
        }
        println!("{:?} in {:?}", hist, t0.elapsed());
    }
}
