//! C01 — evaluation matches the strict reference semantics.
//!
//! Generates MiniGluon programs (corpus, exhaustive small programs, type-directed random
//! programs with interaction combinators), prints each in two concrete-syntax styles, runs
//! the REAL implementation (`ThreadExt::run_expr`, prelude off) and writes
//!   model_in.txt   one `(prog …)` s-expression per case (input of coq/extract/c01 driver)
//!   impl_out.txt   one canonical outcome per case (`mg::run::Outcome::canonical`)
//!   cases.txt      one JSON object per case {family, style, source, sexp}
//!   stats.json     evaluations, distinct_nontrivial, histograms
//! With `model=<path of the extracted model binary>` the harness also talks to the model
//! directly, and shrinks every disagreement it sees (`shrunk.jsonl`).
//!
//! Other modes: `probe FILE` (programs separated by `%%` lines), `smoke N [SEED]`,
//! `--replay FILE`.
use gvh::mg;
use gvh::mg::ast::*;
use gvh::mg::generate::{EnumConfig, GenConfig};
use gvh::mg::print::Style;
use gvh::out::{fnv, Args, Hist};
use gvh::rng::Rng;
use std::io::{BufRead, BufReader, Write};
use std::process::{Child, ChildStdin, ChildStdout, Command, Stdio};

struct Model {
    _child: Child,
    stdin: ChildStdin,
    stdout: BufReader<ChildStdout>,
}

impl Model {
    fn start(path: &str) -> Model {
        let mut child = Command::new(path).stdin(Stdio::piped()).stdout(Stdio::piped()).spawn().expect("start model");
        let stdin = child.stdin.take().unwrap();
        let stdout = BufReader::new(child.stdout.take().unwrap());
        Model { _child: child, stdin, stdout }
    }
    fn eval(&mut self, sexp: &str) -> String {
        writeln!(self.stdin, "{}", sexp).unwrap();
        self.stdin.flush().unwrap();
        let mut line = String::new();
        self.stdout.read_line(&mut line).unwrap();
        line.trim_end().to_string()
    }
}

struct Impl {
    vm_opt: gluon::RootedThread,
    vm_noopt: gluon::RootedThread,
    runs: u64,
}
fn vm(optimize: bool) -> gluon::RootedThread {
    mg::run::new_vm_with(&mg::run::VmOptions { prelude: false, optimize: Some(optimize) })
}
impl Impl {
    fn new() -> Impl {
        Impl { vm_opt: vm(true), vm_noopt: vm(false), runs: 0 }
    }
    /// `opt`: Settings::optimize (true is gluon's default)
    fn run(&mut self, p: &Program, src: &str, opt: bool) -> mg::run::Outcome {
        self.runs += 1;
        if self.runs % 3000 == 0 {
            // the compiler database accumulates one file map per source
            self.vm_opt = vm(true);
            self.vm_noopt = vm(false);
        }
        mg::run::run_program(if opt { &self.vm_opt } else { &self.vm_noopt }, p, src)
    }
}

impl Impl {
    /// the real bytecode of `src` under the same settings as [`Impl::run`], for the model VM
    fn export(&self, src: &str, opt: bool) -> String {
        match mg::bytecode::export(if opt { &self.vm_opt } else { &self.vm_noopt }, "mg", src) {
            Ok(line) => line,
            Err(e) => format!("skip compile-error {}", e.replace('\n', " ").replace('(', "[").replace(')', "]")),
        }
    }
}

/// untyped view of a canonical outcome: unit / empty record is `(data 0)` for the model VM
fn norm(s: &str) -> String {
    s.replace("(rcd)", "(data 0)")
}

/// generic greedy shrinker: keeps a smaller candidate while `pred` holds
fn shrink_pred(p: &Program, cap: u32, pred: &mut dyn FnMut(&Program) -> bool) -> (Program, u32) {
    let mut cur = p.clone();
    let mut steps = 0u32;
    let mut attempts = 0u32;
    'outer: loop {
        let mut cands = mg::generate::shrink_candidates(&cur.expr);
        cands.sort_by_key(|c| c.size());
        let cur_size = cur.expr.size();
        for c in cands {
            if c.size() >= cur_size {
                break;
            }
            attempts += 1;
            if attempts > cap {
                break 'outer;
            }
            let cand = Program { types: cur.types.clone(), expr: c, ty: cur.ty.clone() };
            if pred(&cand) {
                cur = cand;
                steps += 1;
                continue 'outer;
            }
        }
        break;
    }
    (cur, steps)
}

/// model VM on the real bytecode vs the real VM, for one (program, style, optimiser setting):
/// Some((model-VM outcome, real outcome)) when they differ
fn interp_divergence(imp: &mut Impl, vmm: &mut Model, p: &Program, st: &Style, opt: bool) -> Option<(String, String)> {
    let src = mg::print::to_gluon(p, st);
    let o = imp.run(p, &src, opt);
    if matches!(o.class(), "typecheck" | "parse" | "hostpanic") {
        return None;
    }
    let oc = o.canonical();
    if oc.contains("shape-mismatch") {
        return None;
    }
    let line = imp.export(&src, opt);
    if line.starts_with("skip") {
        return None;
    }
    let v = vmm.eval(&line);
    if v.starts_with("(skip") || v == "(fuel)" || v.starts_with("(err malformed") {
        return None;
    }
    if norm(&v) != norm(&oc) { Some((v, oc)) } else { None }
}

fn class_of(canonical: &str) -> String {
    canonical.split_whitespace().take(2).collect::<Vec<_>>().join(" ")
}

fn constructs(e: &Expr) -> Vec<&'static str> {
    let mut v = vec![];
    e.visit(&mut |x| v.push(x.kind()));
    v.sort();
    v.dedup();
    v
}

/// the disagreement of one (program, style), if any: (expected = model, observed = impl)
fn disagreement(imp: &mut Impl, model: &mut Model, p: &Program, st: &Style, opt: bool) -> Option<(String, String)> {
    let src = mg::print::to_gluon(p, st);
    let o = imp.run(p, &src, opt);
    if matches!(o.class(), "typecheck" | "parse") {
        return None;
    }
    let oc = o.canonical();
    if oc.contains("shape-mismatch") {
        return None; // the candidate changed the program's type
    }
    let m = model.eval(&mg::sexp::program_to_sexp(p));
    if m == "(fuel)" || m.starts_with("(stuck") || m.starts_with("(err malformed") {
        return None;
    }
    if m != oc {
        if opt && m.starts_with("(err arith") {
            // permitted only if the unoptimised run is faithful and the skipped operations are unused
            let off = imp.run(p, &src, false).canonical();
            if off == m && permitted_arith_skip(model, p, &oc, 3).is_some() {
                return None;
            }
        }
        Some((m, oc))
    } else {
        None
    }
}

/// Property C04 permits exactly one difference between an optimised run and the reference
/// semantics: "a built-in arithmetic operation whose result is never used may be skipped, so
/// that its overflow or division-by-zero failure does not occur".  Decision procedure for an
/// optimiser-ON run whose reference outcome is the Arith failure:
///   find the checked-arithmetic node N (`#Int+ - * /`, `#Byte+ - * /`) such that
///     (a) it is the operation that fails (located with marker failures, see below),
///     (b) its result is never used: both P[N := 0] and P[N := 1] have the implementation's outcome
///         as reference outcome, directly or after further permitted skips (at most 3 deep) — a
///         use by an operation that is itself unused and skipped does not count.
/// Returns the program with the skipped operations replaced by a literal.  The unoptimised run
/// of the same program must still match the reference exactly (checked by the caller).
static SHRINKING: std::sync::atomic::AtomicBool = std::sync::atomic::AtomicBool::new(false);
static SKIP_BUDGET: std::sync::atomic::AtomicI64 = std::sync::atomic::AtomicI64::new(0);

/// entry point: bounds the number of reference evaluations spent on one case
fn permitted_arith_skip(model: &mut Model, p: &Program, impl_out: &str, depth: u32) -> Option<Program> {
    let budget = if SHRINKING.load(std::sync::atomic::Ordering::Relaxed) { 300 } else { 4000 };
    SKIP_BUDGET.store(budget, std::sync::atomic::Ordering::Relaxed);
    let t0 = std::time::Instant::now();
    let r = permitted_arith_skip_(model, p, impl_out, depth);
    if t0.elapsed().as_secs() >= 3 {
        eprintln!("slow permitted-skip search: {:?} size {} accepted {}", t0.elapsed(), p.expr.size(), r.is_some());
    }
    r
}

fn permitted_arith_skip_(model: &mut Model, p: &Program, impl_out: &str, depth: u32) -> Option<Program> {
    if SKIP_BUDGET.load(std::sync::atomic::Ordering::Relaxed) <= 0 {
        return None;
    }
    let base = model.eval(&mg::sexp::program_to_sexp(p));
    if !base.starts_with("(err arith") {
        return None;
    }
    // checked-arithmetic nodes: (pre-order index, Int?, sub-expression)
    let mut nodes: Vec<(usize, bool, Expr)> = vec![];
    let mut k = 0usize;
    p.expr.visit(&mut |e| {
        if let Expr::Prim(op, ..) = e {
            if !op.is_cmp() {
                nodes.push((k, op.is_int(), e.clone()));
            }
        }
        k += 1;
    });
    if nodes.len() > 300 {
        return None;
    }
    let with = |idx: usize, e: &Expr| Program { types: p.types.clone(), expr: mg::generate::replace_subexpr(&p.expr, idx, e), ty: p.ty.clone() };
    // Which operation fails?  Each candidate node N is wrapped, for the reference evaluator only,
    // as `eff KS; let m_ = N in eff KC; m_`: the log of the (unchanged) Arith outcome then tells
    // how often N was started and how often it completed.  The failing operation, and the
    // operations it is dynamically nested in, were started once more than they completed; an
    // operation in a loop may have completed several times before it fails.
    const KS: i64 = 912_345_671;
    const KC: i64 = 912_345_672;
    let mut open: Vec<(usize, bool, usize)> = vec![]; // (index, Int?, subtree size)
    for (idx, is_int, sub) in &nodes {
        if SKIP_BUDGET.fetch_sub(1, std::sync::atomic::Ordering::Relaxed) <= 0 {
            return None;
        }
        let wrapped = Expr::Let(
            Pat::Wild,
            Box::new(eff(int(KS))),
            Box::new(Expr::Let(
                Pat::Var("m_".into()),
                Box::new(sub.clone()),
                Box::new(Expr::Let(Pat::Wild, Box::new(eff(int(KC))), Box::new(var("m_")))),
            )),
        );
        let out = model.eval(&mg::sexp::program_to_sexp(&with(*idx, &wrapped)));
        if !out.starts_with("(err arith") {
            continue;
        }
        let count = |k: i64| out.split_whitespace().filter(|t| t.trim_end_matches(')') == k.to_string()).count();
        if count(KS) > count(KC) {
            open.push((*idx, *is_int, sub.size()));
        }
    }
    // innermost first; an enclosing operation is a candidate too (`0 #Int/ (0 #Int/ 0)` unused:
    // the inner result is used only by an operation that is skipped itself), provided everything
    // it encloses is built-in arithmetic or cannot fail / have an effect (no call, match, error, eff)
    fn arith_only(e: &Expr) -> bool {
        let mut ok = true;
        e.visit(&mut |x| match x {
            // besides arithmetic: constructs that can neither fail nor have an effect
            Expr::Lit(_) | Expr::Var(_) | Expr::Prim(..) | Expr::Ann(..) | Expr::Record(..) | Expr::Proj(..) | Expr::Tuple(_) | Expr::Con(..)
            | Expr::Array(_) | Expr::ArrayLen(_) | Expr::Lam(..) | Expr::If(..) | Expr::And(..) | Expr::Or(..) | Expr::Seq(..) => {}
            Expr::Let(Pat::Var(_), ..) | Expr::Let(Pat::Wild, ..) => {}
            _ => ok = false,
        });
        ok
    }
    let innermost: Vec<usize> = open.iter().filter(|(i, _, sz)| !open.iter().any(|(j, _, _)| *j > *i && *j < *i + *sz)).map(|(i, _, _)| *i).collect();
    let mut candidates: Vec<(usize, bool, usize)> = open
        .iter()
        .filter(|(i, _, sz)| innermost.contains(i) || nodes.iter().any(|(j, _, sub)| j == i && arith_only(sub) && *sz > 0))
        .cloned()
        .collect();
    candidates.sort_by_key(|(_, _, sz)| *sz);
    // [reach q]: the reference outcome of q is the implementation's, possibly after further
    // permitted skips
    fn reach(model: &mut Model, q: Program, impl_out: &str, depth: u32) -> Option<Program> {
        let m = model.eval(&mg::sexp::program_to_sexp(&q));
        if m == impl_out {
            return Some(q);
        }
        if depth > 0 && m.starts_with("(err arith") {
            return permitted_arith_skip_(model, &q, impl_out, depth - 1);
        }
        None
    }
    for (idx, is_int, _) in candidates {
        let lit = |n: i64| if is_int { Expr::Lit(Lit::Int(n)) } else { Expr::Lit(Lit::Byte(n as u8)) };
        // the result of the operation is never used: whatever it is (two samples), the rest of
        // the program behaves like the implementation, where "uses" by operations that are
        // themselves unused and skipped do not count
        let r0 = reach(model, with(idx, &lit(0)), impl_out, depth);
        if r0.is_none() {
            continue;
        }
        if reach(model, with(idx, &lit(1)), impl_out, depth).is_some() {
            return r0;
        }
    }
    None
}

fn shrink(imp: &mut Impl, model: &mut Model, p: &Program, st: &Style, opt: bool) -> (Program, u32) {
    // keep the classes of the two outcomes fixed, so that an ill-typed candidate that happens to
    // disagree for another reason is not accepted
    let want = disagreement(imp, model, p, st, opt).map(|(e, o)| (class_of(&e), class_of(&o), classify_pair(&e, &o)));
    let mut cur = p.clone();
    let mut steps = 0u32;
    let mut attempts = 0u32;
    'outer: loop {
        let mut cands = mg::generate::shrink_candidates(&cur.expr);
        cands.sort_by_key(|c| c.size());
        let cur_size = cur.expr.size();
        for c in cands {
            if c.size() >= cur_size {
                break;
            }
            attempts += 1;
            // candidates of an optimiser-on Arith disagreement each run the permitted-skip search
            let cap = if opt && want.as_ref().map_or(false, |w| w.0.starts_with("(err arith")) { 150 } else { 6000 };
            if attempts > cap {
                break 'outer;
            }
            let cand = Program { types: cur.types.clone(), expr: c, ty: cur.ty.clone() };
            let d = disagreement(imp, model, &cand, st, opt).map(|(e, o)| (class_of(&e), class_of(&o), classify_pair(&e, &o)));
            if d.is_some() && d == want {
                cur = cand;
                steps += 1;
                continue 'outer;
            }
        }
        break;
    }
    (cur, steps)
}

fn classify_pair(expected: &str, observed: &str) -> &'static str {
    // same value / error, logs differ?
    fn split(s: &str) -> (String, String) {
        match s.rfind("(log") {
            Some(i) => (s[..i].to_string(), s[i..].to_string()),
            None => (s.to_string(), String::new()),
        }
    }
    let (ev, el) = split(expected);
    let (ov, ol) = split(observed);
    if observed.contains("hostpanic") {
        "host-panic"
    } else if ev == ov && el != ol {
        "effect-order"
    } else if observed.starts_with("(err other") {
        "impl-error"
    } else {
        "outcome"
    }
}

fn main() {
    let a: Vec<String> = std::env::args().collect();
    if a.len() >= 3 && a[1] == "bytecode" {
        let text = std::fs::read_to_string(&a[2]).unwrap();
        let vm = mg::run::new_vm_with(&mg::run::VmOptions { prelude: false, optimize: Some(a.get(3).map_or(true, |s| s != "noopt")) });
        for src in text.split("\n%%\n") {
            println!("--- {}", src.trim());
            println!("{}", mg::run::run(&vm, src).canonical());
            println!("{:?}", mg::bytecode::export(&vm, "mg", src));
        }
        return;
    }
    if a.len() >= 3 && a[1] == "probe" {
        let text = std::fs::read_to_string(&a[2]).unwrap();
        let vm = mg::run::new_vm();
        for src in text.split("\n%%\n") {
            println!("--- {}", src.trim());
            println!("{}", mg::run::run(&vm, src).canonical());
        }
        return;
    }
    let args = Args::parse();
    // panics of the implementation are caught and reported as outcomes; keep stderr quiet
    std::panic::set_hook(Box::new(|_| {}));
    let mut imp = Impl::new();
    let mut model = args.extra.get("model").map(|p| Model::start(p));
    let mut vmmodel = args.extra.get("vmmodel").map(|p| Model::start(p));

    if let Some(path) = &args.replay {
        let v: serde_json::Value = serde_json::from_str(&std::fs::read_to_string(path).expect("replay file")).expect("json");
        let sexp = v["case"]["sexp"].as_str().expect("case.sexp");
        let p = mg::sexp::parse_program(sexp).expect("parse case.sexp");
        for st in Style::all() {
            let src = mg::print::to_gluon(&p, &st);
            println!("--- style {}\n{}", st.name(), src);
            println!("impl (optimize on) : {}", imp.run(&p, &src, true).canonical());
            println!("impl (optimize off): {}", imp.run(&p, &src, false).canonical());
        }
        if let Some(m) = model.as_mut() {
            println!("model: {}", m.eval(sexp));
        }
        println!("expected(model at report time): {}", v["expected"].as_str().unwrap_or("?"));
        return;
    }

    let thorough = args.thorough();
    let mut cfg = GenConfig::default();
    // feature switches for experiments: features=-multi_record_alts,-update_reorder
    if let Some(f) = args.extra.get("features") {
        for t in f.split(',') {
            match t {
                "-multi_record_alts" => cfg.features.multi_record_alts = false,
                "-update_reorder" => cfg.features.update_reorder = false,
                "-arrays" => cfg.features.arrays = false,
                "+floats" => cfg.features.floats = true,
                _ => {}
            }
        }
    }
    let n_random: u64 = args.extra.get("random").and_then(|s| s.parse().ok()).unwrap_or(if thorough { 50000 } else { 3000 });
    let enum_size: usize = args.extra.get("enum_size").and_then(|s| s.parse().ok()).unwrap_or(if thorough { 7 } else { 6 });

    let mut model_in = args.file("model_in.txt");
    let mut impl_out = args.file("impl_out.txt");
    let mut cases = args.file("cases.txt");
    let mut shrunk = args.file("shrunk.jsonl");
    let mut diff_classes = args.file("diff_classes.jsonl");
    let mut hist = Hist::default();
    let mut distinct = std::collections::HashSet::new();
    let mut n_cases = 0u64;
    let mut n_programs = 0u64;
    let mut rejected = 0u64;
    let mut n_shrunk = 0u32;
    let mut last_sexp_case: Option<u64> = None;
    let mut permitted_skips = 0u64;
    let mut off_agrees = false;
    let mut shrunk_per_class: std::collections::HashMap<String, u32> = std::collections::HashMap::new();
    let max_shrink: u32 = args.extra.get("max_shrink").and_then(|s| s.parse().ok()).unwrap_or(80);
    let styles = Style::all();

    let mut vm_in = args.file("vm_in.txt");
    let mut vm_diffs = args.file("vm_diffs.jsonl");
    let mut last_vm_line = String::new();
    let mut n_vm_shrunk = 0u32;
    let vm_random_limit: u64 = args.extra.get("vm_random").and_then(|s| s.parse().ok()).unwrap_or(15000);
    let mut n_random_seen = 0u64;
    let mut emit = |family: &str, p: &Program, used: &[&'static str], imp: &mut Impl, model: &mut Option<Model>, hist: &mut Hist| {
        if family == "random" {
            n_random_seen += 1;
        }
        let sexp = mg::sexp::program_to_sexp(p);
        let mut any = false;
        for (st, opt) in styles.iter().flat_map(|s| [(s, false), (s, true)]) {
            let src = mg::print::to_gluon(p, st);
            let o = imp.run(p, &src, opt);
            if o.class() == "typecheck" {
                // not a well-typed program as far as gluon is concerned: outside C01's domain
                rejected += 1;
                hist.add("rejected-by-typechecker");
                continue;
            }
            any = true;
            let oc = o.canonical();
            let mut live = model.as_mut().map(|m| m.eval(&sexp));
            if !opt {
                off_agrees = live.as_deref() == Some(oc.as_str());
            }
            // C04's permitted difference (optimised runs only): an unused checked-arithmetic
            // operation may be skipped.  The case is then compared against the reference outcome
            // of the program with exactly those operations replaced by a literal.
            let mut skipped: Option<String> = None;
            if let (true, Some(mo), Some(m)) = (opt, live.as_ref(), model.as_mut()) {
                if *mo != oc && mo.starts_with("(err arith") && off_agrees {
                    if let Some(q) = permitted_arith_skip(m, p, &oc, 3) {
                        skipped = Some(mg::sexp::program_to_sexp(&q));
                    }
                }
            }
            if let Some(q) = &skipped {
                writeln!(model_in, "{}", q).unwrap();
                last_sexp_case = None;
                permitted_skips += 1;
                hist.add("permitted-arith-skip");
                live = Some(oc.clone());
            } else if last_sexp_case == Some(n_programs) {
                // the same program is run in several styles / settings: "=" repeats the previous line
                writeln!(model_in, "=").unwrap();
            } else {
                writeln!(model_in, "{}", sexp).unwrap();
                last_sexp_case = Some(n_programs);
            }
            writeln!(impl_out, "{}", oc).unwrap();
            // the s-expression is line i of model_in.txt; keep the (bulky, mostly indentation)
            // source text only for small programs and for the first cases of a run
            let mut cj = serde_json::json!({"family": family, "style": st.name(), "optimize": opt});
            if src.len() < 600 || n_cases < 400 {
                cj["source"] = serde_json::json!(src);
            }
            if skipped.is_some() {
                cj["permitted_arith_skip"] = serde_json::json!(true);
                cj["original_sexp"] = serde_json::json!(sexp);
            }
            writeln!(cases, "{}", cj).unwrap();
            n_cases += 1;
            // the REAL bytecode of this case for the model VM (three-way comparison)
            let vmline = if family == "random" && n_random_seen > vm_random_limit {
                "skip not-sampled".to_string()
            } else if o.class() == "hostpanic" || o.class() == "parse" {
                "skip front-end-failure".to_string()
            } else {
                imp.export(&src, opt)
            };
            if vmline == last_vm_line && !vmline.starts_with("skip") {
                writeln!(vm_in, "=").unwrap();
            } else {
                writeln!(vm_in, "{}", vmline).unwrap();
            }
            let vm_live = if vmline.starts_with("skip") { None } else { vmmodel.as_mut().map(|v| v.eval(&vmline)) };
            last_vm_line = vmline;
            if let (Some(v), Some(vmm)) = (vm_live.as_ref(), vmmodel.as_mut()) {
                let executed = !(v.starts_with("(skip") || v == "(fuel)");
                hist.add(if executed { "model-vm:executed" } else { "model-vm:skipped" });
                if executed && norm(v) != norm(&oc) {
                    let mut rec = serde_json::json!({"index": n_cases - 1, "vm": v, "impl": oc, "style": st.name(), "optimize": opt});
                    if n_vm_shrunk < 6 {
                        n_vm_shrunk += 1;
                        let (small, steps) = shrink_pred(p, 3000, &mut |c| interp_divergence(imp, vmm, c, st, opt).is_some());
                        if let Some((v2, o2)) = interp_divergence(imp, vmm, &small, st, opt) {
                            let ssrc = mg::print::to_gluon(&small, st);
                            rec["shrunk"] = serde_json::json!({
                                "source": ssrc, "sexp": mg::sexp::program_to_sexp(&small), "vm": v2, "impl": o2,
                                "bytecode": imp.export(&ssrc, opt), "shrink_steps": steps, "constructs": constructs(&small.expr),
                            });
                        }
                    }
                    writeln!(vm_diffs, "{}", rec).unwrap();
                }
            }
            hist.add(&format!("family:{}", family));
            hist.add(&format!("style:{}", st.name()));
            hist.add(if opt { "optimize:on" } else { "optimize:off" });
            hist.add(&format!("impl:{}", o.class()));
            if let (Some(m), Some(mo)) = (model.as_mut(), live.clone()) {
                let prov = if mo != oc {
                    let msg: String = oc.split("hostpanic: ").nth(1).unwrap_or("").chars().take(20).collect();
                    let kind = classify_pair(&mo, &oc);
                    if kind == "host-panic" { format!("host-panic:{}", msg) } else { format!("{}:{}:{}", kind, opt, class_of(&mo)) }
                } else {
                    String::new()
                };
                if mo != oc && mo != "(fuel)" {
                    writeln!(diff_classes, "{}", serde_json::json!({"index": n_cases - 1, "class": prov, "vm": vm_live})).unwrap();
                }
                if mo != oc && mo != "(fuel)" && n_shrunk < max_shrink && *shrunk_per_class.entry(prov.clone()).or_insert(0u32) < 2 {
                    *shrunk_per_class.get_mut(&prov).unwrap() += 1;
                    n_shrunk += 1;
                    SHRINKING.store(true, std::sync::atomic::Ordering::Relaxed);
                    let (small, steps) = shrink(imp, m, p, st, opt);
                    SHRINKING.store(false, std::sync::atomic::Ordering::Relaxed);
                    let (e2, o2) = disagreement(imp, m, &small, st, opt).unwrap_or((mo.clone(), oc.clone()));
                    // does the disagreement need the optimiser?
                    let optimizer_only = opt && disagreement(imp, m, &small, st, false).is_none();
                    let line = serde_json::json!({
                        "index": n_cases - 1,
                        "class": prov,
                        "style": st.name(),
                        "optimize": opt,
                        "optimizer_only": optimizer_only,
                        "kind": classify_pair(&e2, &o2),
                        "constructs": constructs(&small.expr),
                        "source": mg::print::to_gluon(&small, st),
                        "sexp": mg::sexp::program_to_sexp(&small),
                        "expected": e2,
                        "observed": o2,
                        "shrink_steps": steps,
                        "original_size": p.expr.size(),
                        "size": small.expr.size(),
                    });
                    writeln!(shrunk, "{}", line).unwrap();
                }
            }
        }
        if any {
            n_programs += 1;
            let size = p.expr.size();
            hist.add(&format!("size:{}", match size { 0..=3 => "1-3", 4..=7 => "4-7", 8..=15 => "8-15", 16..=31 => "16-31", 32..=63 => "32-63", _ => "64+" }));
            for k in constructs(&p.expr) {
                hist.add(&format!("construct:{}", k));
            }
            for u in used {
                if u.starts_with("comb:") {
                    hist.add(u);
                }
            }
            if p.nontrivial() {
                distinct.insert(fnv(sexp.as_bytes()));
            }
        }
    };

    // 1. corpus
    let corpus_dir = std::path::Path::new("/verif/corpus/C01");
    let mut files: Vec<_> = std::fs::read_dir(corpus_dir).map(|d| d.filter_map(|e| e.ok()).map(|e| e.path()).collect()).unwrap_or_default();
    files.sort();
    for f in files {
        if f.extension().map_or(false, |e| e == "sexp") {
            for line in std::fs::read_to_string(&f).unwrap_or_default().lines() {
                let line = line.trim();
                if line.is_empty() || line.starts_with(';') {
                    continue;
                }
                match mg::sexp::parse_program(line) {
                    Ok(p) => emit("corpus", &p, &[], &mut imp, &mut model, &mut hist),
                    Err(e) => eprintln!("corpus {}: {}", f.display(), e),
                }
            }
        }
    }

    // 2. exhaustive small programs
    let all = mg::generate::enumerate(&EnumConfig { max_size: enum_size, eff: true });
    let n_enum = all.len();
    for p in &all {
        emit("exhaustive", p, &[], &mut imp, &mut model, &mut hist);
    }
    drop(all);

    // 3. random programs (depth and size vary)
    let mut rng = Rng::new(args.seed);
    for i in 0..n_random {
        let mut c = cfg.clone();
        c.max_depth = 2 + (i % 5) as u32;
        c.max_size = [12, 25, 40, 60, 90][(i % 5) as usize];
        let (p, used) = mg::generate::gen_program_traced(&mut rng, &c);
        emit("random", &p, &used, &mut imp, &mut model, &mut hist);
    }

    drop(emit);
    model_in.flush().unwrap();
    impl_out.flush().unwrap();
    cases.flush().unwrap();
    shrunk.flush().unwrap();
    diff_classes.flush().unwrap();
    vm_in.flush().unwrap();
    vm_diffs.flush().unwrap();
    gvh::out::write_json(
        &args.out.join("stats.json"),
        &serde_json::json!({
            "evaluations": n_cases,
            "programs": n_programs,
            "distinct_nontrivial": distinct.len(),
            "rule": "a case is (program, printer style, optimize on/off); distinct non-trivial = distinct programs (by s-expression) with more than one AST node and at least one binder (lambda, let, rec or a binding pattern)",
            "rejected_by_typechecker": rejected,
            "permitted_arith_skips": permitted_skips,
            "exhaustive_max_size": enum_size,
            "exhaustive_programs": n_enum,
            "random_programs": n_random,
            "hist": hist.to_json(),
        }),
    );
}
