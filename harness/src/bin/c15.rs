//! C15 — modules: evaluated once, cycles rejected, reloads never stale.
//!
//! Runs edit/evaluate histories over small module graphs on ONE long-lived VM per history and
//! compares every evaluation with (1) a fresh VM that is given the latest sources (the property
//! itself), (2) the extracted Coq model `coq/extract/c15` (same line format) and (3) a per-module
//! counter of body evaluations (extern function `tick`) — at most once between two edits.
//! Histories run in child processes (this binary re-invoked with `child`), several in parallel,
//! under a watchdog so that a hang (cycle not rejected) or an abort is attributed to one history.
//!
//! Output files in --out:
//!   model_in.txt       `spec|<history>` one per line (model: a first definition starts a revision iff the
//!                      module was requested before; checks/c15.py also runs the `always` policy)
//!   model_in_asis.txt  `asis|<history>` (model of add_module as it stands: Vacant entry, no revision)
//!   impl_out.txt       one line per history: `e<m> L=<res>/<ran> F=<res>/<ran> | ...`
//!   cases.txt          the histories (`set 1 I 10 2,3|eval 1|...`)
//!   violations.json    property violations found by the harness itself (stale, evaluated-twice,
//!                      cycle chain, hang, crash) with the history index
//!   stats.json
#[macro_use]
extern crate gluon_vm;

use gluon::query::CompilationBase;
use gluon::vm::api::{Hole, OpaqueValue, ValueRef};
use gluon::vm::thread::Thread;
use gluon::vm::types::VmInt;
use gluon::vm::ExternModule;
use gluon::ThreadExt;
use gvh::out::{fnv, Args, Hist};
use gvh::rng::Rng;
use std::io::{BufRead, Write};
use std::sync::atomic::{AtomicU64, Ordering};

const MAXM: usize = 6;

// ---------------------------------------------------------------- evaluation counter (extern fn)

static TICKS: [AtomicU64; 8] = [
    AtomicU64::new(0),
    AtomicU64::new(0),
    AtomicU64::new(0),
    AtomicU64::new(0),
    AtomicU64::new(0),
    AtomicU64::new(0),
    AtomicU64::new(0),
    AtomicU64::new(0),
];

fn tick(i: VmInt) -> VmInt {
    TICKS[(i as usize) & 7].fetch_add(1, Ordering::SeqCst);
    0
}
fn ticks(i: VmInt, n: VmInt) -> String {
    TICKS[(i as usize) & 7].fetch_add(1, Ordering::SeqCst);
    format!("s{}", n)
}
fn take_ticks() -> [u64; 8] {
    let mut r = [0u64; 8];
    for i in 0..8 {
        r[i] = TICKS[i].swap(0, Ordering::SeqCst);
    }
    r
}

fn runtime() -> &'static tokio::runtime::Runtime {
    static RT: std::sync::OnceLock<tokio::runtime::Runtime> = std::sync::OnceLock::new();
    RT.get_or_init(|| tokio::runtime::Builder::new_multi_thread().worker_threads(3).enable_all().build().expect("tokio runtime"))
}

fn new_vm(is_async: bool) -> gluon::RootedThread {
    let vm = if is_async { runtime().block_on(gluon::VmBuilder::new().build_async()) } else { gluon::VmBuilder::new().build() };
    vm.get_database_mut().implicit_prelude(false);
    gluon::import::add_extern_module(&vm, "c15tick", |t: &Thread| ExternModule::new(t, primitive!(1, tick)));
    gluon::import::add_extern_module(&vm, "c15ticks", |t: &Thread| ExternModule::new(t, primitive!(2, ticks)));
    vm
}

// ---------------------------------------------------------------- histories

#[derive(Clone, Debug, PartialEq, Eq, Hash)]
struct Src {
    imports: Vec<usize>,
    is_str: bool,
    n: i64,
}

#[derive(Clone, Debug, PartialEq)]
enum Op {
    Set(usize, Src),
    Eval(usize),
    Load(usize, Src),
    /// marker (first op): run this history on a VM built with `build_async` (tokio spawner: the
    /// import! macro then loads modules in spawned tasks) through the `*_async` entry points
    Async,
}

fn src_text(s: &Src) -> String {
    let imps = s.imports.iter().map(|i| i.to_string()).collect::<Vec<_>>().join(",");
    format!("{} {} {}", if s.is_str { "S" } else { "I" }, s.n, imps).trim_end().to_string()
}
fn op_text(o: &Op) -> String {
    match o {
        Op::Set(m, s) => format!("set {} {}", m, src_text(s)),
        Op::Eval(m) => format!("eval {}", m),
        Op::Load(m, s) => format!("load {} {}", m, src_text(s)),
        Op::Async => "async".to_string(),
    }
}
fn history_text(h: &[Op]) -> String {
    h.iter().map(op_text).collect::<Vec<_>>().join("|")
}
fn parse_history(line: &str) -> Vec<Op> {
    let mut out = vec![];
    for o in line.split('|') {
        let w: Vec<&str> = o.split_whitespace().collect();
        if w.is_empty() {
            continue;
        }
        if w[0] == "async" {
            out.push(Op::Async);
            continue;
        }
        let m: usize = w[1].parse().expect("module index");
        assert!(m >= 1 && m <= MAXM, "module index out of range");
        let src = || Src {
            is_str: w[2] == "S",
            n: w[3].parse().expect("number"),
            imports: if w.len() > 4 { w[4].split(',').filter(|x| !x.is_empty()).map(|x| x.parse().expect("import")).collect() } else { vec![] },
        };
        match w[0] {
            "set" => out.push(Op::Set(m, src())),
            "load" => out.push(Op::Load(m, src())),
            "eval" => out.push(Op::Eval(m)),
            x => panic!("bad op {}", x),
        }
    }
    out
}

/// The Gluon text of module m (no implicit prelude; `#Int+` is the primitive addition).
fn render(m: usize, s: &Src) -> String {
    let mut t = String::new();
    t.push_str(if s.is_str { "let tick = import! c15ticks\n" } else { "let tick = import! c15tick\n" });
    for i in &s.imports {
        t.push_str(&format!("let d{} = import! c15.m{}\n", i, i));
    }
    if s.is_str {
        t.push_str(&format!("tick {} {}\n", m, s.n));
    } else {
        t.push_str(&format!("tick {}", m));
        for i in &s.imports {
            t.push_str(&format!(" #Int+ d{}", i));
        }
        t.push_str(&format!(" #Int+ {}\n", s.n));
    }
    t
}

// ---------------------------------------------------------------- running the implementation

type State = Vec<Option<Src>>; // index 1..=MAXM

fn raw_eval(vm: &Thread, m: usize, is_async: bool) -> Result<String, String> {
    let r = std::panic::catch_unwind(std::panic::AssertUnwindSafe(|| {
        let src = format!("import! c15.m{}", m);
        if is_async {
            runtime().block_on(vm.run_expr_async::<OpaqueValue<&Thread, Hole>>("c15top", &src))
        } else {
            vm.run_expr::<OpaqueValue<&Thread, Hole>>("c15top", &src)
        }
    }));
    match r {
        Ok(Ok((v, _t))) => Ok(match v.get_ref() {
            ValueRef::Int(i) => format!("i{}", i),
            ValueRef::String(s) => s.to_string(),
            _ => "other-value".to_string(),
        }),
        Ok(Err(e)) => Err(e.to_string()),
        Err(_) => Err("PANIC in run_expr".to_string()),
    }
}

fn raw_load(vm: &Thread, m: usize, s: &Src, is_async: bool) -> Result<String, String> {
    let r = std::panic::catch_unwind(std::panic::AssertUnwindSafe(|| {
        let (file, text) = (format!("c15/m{}.glu", m), render(m, s));
        if is_async { runtime().block_on(vm.load_script_async(&file, &text)) } else { vm.load_script(&file, &text) }
    }));
    match r {
        Ok(Ok(())) => Ok("ok".to_string()),
        Ok(Err(e)) => Err(e.to_string()),
        Err(_) => Err("PANIC in load_script".to_string()),
    }
}

fn mod_index(name: &str) -> Option<usize> {
    name.trim().strip_prefix("c15.m").and_then(|k| k.parse().ok())
}

/// Cycle chains named by an error message (`a -> b -> a`).
fn chains_of(msg: &str) -> Vec<Vec<String>> {
    let pat = "occurs in a cyclic dependency: `";
    let mut out = vec![];
    let mut rest = msg;
    while let Some(p) = rest.find(pat) {
        let after = &rest[p + pat.len()..];
        let end = after.find('`').unwrap_or(after.len());
        out.push(after[..end].split(" -> ").map(|s| s.trim().to_string()).collect());
        rest = &after[end..];
    }
    out
}

/// Canonical result class of an error message: `cyc` | `fail[M..;T..]` | `other:..`.
fn canon_err(msg: &str) -> String {
    if msg.contains("occurs in a cyclic dependency") {
        return "cyc".to_string();
    }
    let mut missing = std::collections::BTreeSet::new();
    let mut tyerr = std::collections::BTreeSet::new();
    let mut pending_type = false;
    let mut unknown = false;
    for line in msg.lines() {
        if let Some(p) = line.find("Could not find module '") {
            let after = &line[p + "Could not find module '".len()..];
            let name = &after[..after.find('\'').unwrap_or(after.len())];
            match mod_index(name) {
                Some(k) => {
                    missing.insert(k);
                }
                None => unknown = true,
            }
            pending_type = false;
        } else if line.contains("Expected the following types to be equal") {
            pending_type = true;
        } else if let Some(p) = line.find("┌─ ") {
            if pending_type {
                let loc = &line[p + "┌─ ".len()..];
                let file = loc.split(':').next().unwrap_or("");
                match mod_index(file) {
                    Some(k) => {
                        tyerr.insert(k);
                    }
                    None => unknown = true,
                }
                pending_type = false;
            }
        }
    }
    if unknown || (missing.is_empty() && tyerr.is_empty()) {
        let flat: String = msg.replace('\n', " ").chars().take(160).collect();
        return format!("other:{}", flat.replace('|', "/"));
    }
    let j = |s: &std::collections::BTreeSet<usize>| s.iter().map(|k| k.to_string()).collect::<Vec<_>>().join(",");
    format!("fail[M{};T{}]", j(&missing), j(&tyerr))
}

fn canon_res(r: &Result<String, String>, as_load: bool) -> String {
    match r {
        Ok(v) => {
            if as_load {
                "ok".to_string()
            } else {
                v.clone()
            }
        }
        Err(e) => canon_err(e),
    }
}

fn ran_text(t: &[u64; 8]) -> String {
    let mut v = vec![];
    for k in 1..=MAXM {
        if t[k] == 1 {
            v.push(k.to_string());
        } else if t[k] > 1 {
            v.push(format!("{}x{}", k, t[k]));
        }
    }
    v.join(",")
}

fn edge(st: &State, a: usize, b: usize) -> bool {
    st.get(a).and_then(|s| s.as_ref()).map_or(false, |s| s.imports.contains(&b))
}
fn reaches(st: &State, a: usize, b: usize) -> bool {
    // non-empty path a ->+ b
    let mut seen = vec![false; MAXM + 2];
    let mut stack: Vec<usize> = st.get(a).and_then(|s| s.as_ref()).map_or(vec![], |s| s.imports.clone());
    while let Some(x) = stack.pop() {
        if x == b {
            return true;
        }
        if x > MAXM || seen[x] {
            continue;
        }
        seen[x] = true;
        if let Some(Some(s)) = st.get(x) {
            stack.extend(s.imports.iter().cloned());
        }
    }
    false
}

/// None: the chain is a genuine import cycle of the current sources.  Some(kind) otherwise.
fn check_chain(st: &State, chain: &[String]) -> Option<&'static str> {
    let idx: Vec<Option<usize>> = chain.iter().map(|n| mod_index(n)).collect();
    if idx.iter().any(|i| i.is_none()) || idx.len() < 2 {
        return Some("cycle-chain-wrong");
    }
    let idx: Vec<usize> = idx.into_iter().map(|i| i.unwrap()).collect();
    let closed = idx.first() == idx.last();
    let linked = idx.windows(2).all(|w| edge(st, w[0], w[1]));
    if closed && linked {
        return None;
    }
    // every named module lies on one common import cycle, but members are left out
    let on_common_cycle = idx.iter().all(|a| idx.iter().all(|b| reaches(st, *a, *b)));
    if closed && on_common_cycle { Some("cycle-chain-incomplete") } else { Some("cycle-chain-wrong") }
}

struct HistoryOutcome {
    line: String,
    violations: Vec<serde_json::Value>,
    evals: u64,
    classes: Vec<String>,
}

fn run_history(h: &[Op], verbose: bool) -> HistoryOutcome {
    let is_async = h.first() == Some(&Op::Async);
    let vm = new_vm(is_async);
    let mut st: State = vec![None; MAXM + 1];
    let mut window = [0u64; 8]; // body evaluations since the last change of any source
    let mut segs = vec![];
    let mut violations = vec![];
    let mut evals = 0u64;
    let mut classes = vec![];
    for (step, op) in h.iter().enumerate() {
        let (m, as_load) = match op {
            Op::Set(m, s) | Op::Load(m, s) => {
                if st[*m].as_ref() != Some(s) {
                    window = [0; 8];
                }
                st[*m] = Some(s.clone());
                if let Op::Set(..) = op {
                    vm.get_database_mut().add_module(format!("c15.m{}", m), &render(*m, s));
                    if verbose {
                        println!("step {}: {}", step, op_text(op));
                    }
                    continue;
                }
                (*m, true)
            }
            Op::Eval(m) => (*m, false),
            Op::Async => continue,
        };
        evals += 1;
        take_ticks();
        let r = match op {
            Op::Load(m, s) => raw_load(&vm, *m, s, is_async),
            _ => raw_eval(&vm, m, is_async),
        };
        let t = take_ticks();
        // the property: a fresh VM given the latest sources
        let fresh = new_vm(is_async);
        for k in 1..=MAXM {
            if let Some(s) = &st[k] {
                fresh.get_database_mut().add_module(format!("c15.m{}", k), &render(k, s));
            }
        }
        let rf = raw_eval(&fresh, m, is_async);
        let tf = take_ticks();
        drop(fresh);
        let cl = canon_res(&r, as_load);
        let cf = canon_res(&rf, as_load);
        if verbose {
            println!("step {}: {}", step, op_text(op));
            println!("   long-lived VM: {} ran[{}]   raw: {:?}", cl, ran_text(&t), r);
            println!("   fresh VM     : {} ran[{}]   raw: {:?}", cf, ran_text(&tf), rf);
        }
        classes.push(
            if cl.starts_with("fail") {
                "fail"
            } else if cl.starts_with("other") {
                "other"
            } else if cl == "cyc" {
                "cyc"
            } else {
                "value"
            }
            .to_string(),
        );
        if cl != cf {
            violations.push(serde_json::json!({"kind": "stale", "step": step, "op": op_text(op), "long_lived": cl, "fresh_vm": cf,
                "long_lived_raw": format!("{:?}", r), "fresh_raw": format!("{:?}", rf)}));
        }
        for k in 1..=MAXM {
            window[k] += t[k];
            if t[k] > 1 || window[k] > 1 {
                violations.push(serde_json::json!({"kind": "evaluated-twice", "step": step, "op": op_text(op), "module": k,
                    "in_this_evaluation": t[k], "since_last_edit": window[k]}));
            }
            if tf[k] > 1 {
                violations.push(serde_json::json!({"kind": "evaluated-twice", "step": step, "op": op_text(op), "module": k,
                    "in_this_evaluation": tf[k], "vm": "fresh"}));
            }
        }
        for (which, res) in [("long-lived", &r), ("fresh", &rf)] {
            if let Err(e) = res {
                for c in chains_of(e) {
                    if let Some(kind) = check_chain(&st, &c) {
                        violations.push(serde_json::json!({"kind": kind, "step": step, "op": op_text(op), "vm": which, "chain": c.join(" -> ")}));
                    }
                }
                if e.starts_with("PANIC") {
                    violations.push(serde_json::json!({"kind": "panic", "step": step, "op": op_text(op), "vm": which}));
                }
            }
        }
        segs.push(format!("{}{} L={}/{} F={}/{}", if as_load { "l" } else { "e" }, m, cl, ran_text(&t), cf, ran_text(&tf)));
    }
    HistoryOutcome { line: segs.join(" | "), violations, evals, classes }
}

// ---------------------------------------------------------------- child process

fn child_main(args: &Args) {
    let file = args.extra.get("file").expect("file=");
    let start: usize = args.extra.get("start").and_then(|s| s.parse().ok()).unwrap_or(0);
    let end: usize = args.extra.get("end").and_then(|s| s.parse().ok()).unwrap_or(usize::MAX);
    // `offset` = byte position of line `first` (so that a child does not scan the whole file)
    let offset: u64 = args.extra.get("offset").and_then(|s| s.parse().ok()).unwrap_or(0);
    let first: usize = args.extra.get("first").and_then(|s| s.parse().ok()).unwrap_or(0);
    let mut file = std::fs::File::open(file).expect("cases file");
    {
        use std::io::Seek;
        file.seek(std::io::SeekFrom::Start(offset)).expect("seek");
    }
    let f = std::io::BufReader::new(file);
    let out = std::io::stdout();
    for (k, line) in f.lines().enumerate() {
        let i = first + k;
        if i < start {
            continue;
        }
        if i >= end {
            break;
        }
        let line = line.unwrap();
        {
            let mut o = out.lock();
            writeln!(o, "S\t{}", i).unwrap();
            o.flush().unwrap();
        }
        if std::env::var("C15_SELFTEST_HANG").ok().and_then(|s| s.parse::<usize>().ok()) == Some(i) {
            loop {
                std::thread::sleep(std::time::Duration::from_secs(1));
            }
        }
        if std::env::var("C15_SELFTEST_CRASH").ok().and_then(|s| s.parse::<usize>().ok()) == Some(i) {
            std::process::abort();
        }
        let h = parse_history(&line);
        let r = run_history(&h, false);
        let mut o = out.lock();
        writeln!(
            o,
            "R\t{}\t{}\t{}\t{}\t{}",
            i,
            r.line,
            serde_json::to_string(&r.violations).unwrap(),
            r.evals,
            r.classes.join(",")
        )
        .unwrap();
        o.flush().unwrap();
    }
}

// ---------------------------------------------------------------- generators

fn all_sources(m: usize, others: &[usize], with_self: bool, kinds: &[bool], nums: &[i64], max_imports: usize) -> Vec<Src> {
    let mut pool: Vec<usize> = others.to_vec();
    if with_self {
        pool.push(m);
    }
    pool.sort();
    let mut out = vec![];
    for mask in 0..(1u32 << pool.len()) {
        if mask.count_ones() as usize > max_imports {
            continue;
        }
        let imports: Vec<usize> = (0..pool.len()).filter(|i| mask & (1 << i) != 0).map(|i| pool[i]).collect();
        for &k in kinds {
            for &n in nums {
                out.push(Src { imports: imports.clone(), is_str: k, n });
            }
        }
    }
    out
}

/// All histories over `alphabet` of length 1..=maxlen that end in an evaluation.
fn exhaustive(alphabet: &[Op], maxlen: usize, out: &mut Vec<(Vec<Op>, &'static str)>, family: &'static str) {
    let evals: Vec<&Op> = alphabet.iter().filter(|o| matches!(o, Op::Eval(_))).collect();
    let n = alphabet.len();
    for len in 1..=maxlen {
        let total = n.pow((len - 1) as u32);
        for code in 0..total {
            let mut c = code;
            let mut h = vec![];
            for _ in 0..len - 1 {
                h.push(alphabet[c % n].clone());
                c /= n;
            }
            for e in &evals {
                let mut hh = h.clone();
                hh.push((*e).clone());
                out.push((hh, family));
            }
        }
    }
}

fn on_cycle_edges(st: &State) -> Vec<(usize, usize)> {
    let mut v = vec![];
    for a in 1..=MAXM {
        if let Some(s) = &st[a] {
            for &b in &s.imports {
                if b == a || reaches(st, b, a) {
                    v.push((a, b));
                }
            }
        }
    }
    v
}

fn random_history(rng: &mut Rng, nmods: usize, steps: usize, hist: &mut Hist) -> Vec<Op> {
    let mut st: State = vec![None; MAXM + 1];
    let mut h = vec![];
    let mods: Vec<usize> = (1..=nmods).collect();
    let fresh_src = |rng: &mut Rng, m: usize, st: &State, acyclic: bool| -> Src {
        let mut imports = vec![];
        for &o in &mods {
            if o != m && rng.chance(1, 3) {
                // acyclic: only import modules that do not reach m
                if acyclic && reaches(st, o, m) {
                    continue;
                }
                imports.push(o);
            }
        }
        Src { imports, is_str: rng.chance(1, 5), n: rng.range(0, 9) }
    };
    // setup: an initial graph over a random subset (possibly empty: evaluation of missing modules)
    let ndef = if rng.chance(3, 4) { nmods - (rng.below(3) as usize).min(nmods) } else { rng.below(nmods as u64 + 1) as usize };
    let mut order = mods.clone();
    for i in (1..order.len()).rev() {
        let j = rng.below(i as u64 + 1) as usize;
        order.swap(i, j);
    }
    for &m in order.iter().take(ndef) {
        let acyclic = rng.chance(4, 5);
        let s = fresh_src(rng, m, &st, acyclic);
        st[m] = Some(s.clone());
        h.push(Op::Set(m, s));
    }
    hist.add(&format!("setup-defined:{}", ndef));
    let mut n = 0;
    let mut guard = 0;
    while n < steps && guard < 1000 {
        guard += 1;
        let m = *rng.pick(&mods);
        let roll = rng.below(100);
        let as_load = rng.chance(1, 8);
        let edit = |h: &mut Vec<Op>, st: &mut State, m: usize, s: Src, kind: &str, hist: &mut Hist| {
            hist.add(&format!("op:{}{}", kind, if as_load { "(load_script)" } else { "" }));
            st[m] = Some(s.clone());
            h.push(if as_load { Op::Load(m, s) } else { Op::Set(m, s) });
        };
        if roll < 42 || n + 1 == steps {
            hist.add("op:eval");
            h.push(Op::Eval(m));
        } else if st[m].is_none() {
            let acyclic = rng.chance(3, 4);
            let s = fresh_src(rng, m, &st, acyclic);
            edit(&mut h, &mut st, m, s, "add-module", hist);
        } else {
            let cur = st[m].clone().unwrap();
            let mut s = cur.clone();
            if roll < 52 {
                s.n = (cur.n + 1 + rng.range(0, 7)) % 10;
                edit(&mut h, &mut st, m, s, "change-value", hist);
            } else if roll < 62 {
                s.is_str = !cur.is_str;
                edit(&mut h, &mut st, m, s, "change-type", hist);
            } else if roll < 72 {
                let cands: Vec<usize> = mods.iter().cloned().filter(|o| *o != m && !cur.imports.contains(o)).collect();
                if cands.is_empty() {
                    continue;
                }
                let o = *rng.pick(&cands);
                let kind = if reaches(&st, o, m) { "add-edge(closes-cycle)" } else { "add-edge" };
                s.imports.push(o);
                s.imports.sort();
                edit(&mut h, &mut st, m, s, kind, hist);
            } else if roll < 80 {
                if cur.imports.is_empty() {
                    continue;
                }
                let i = rng.below(cur.imports.len() as u64) as usize;
                s.imports.remove(i);
                edit(&mut h, &mut st, m, s, "remove-edge", hist);
            } else if roll < 90 {
                // introduce a cycle: make some module that m reaches (or m itself) import m
                let cands: Vec<usize> =
                    mods.iter().cloned().filter(|o| st[*o].is_some() && (*o == m || reaches(&st, m, *o)) && !edge(&st, *o, m)).collect();
                if cands.is_empty() {
                    continue;
                }
                let o = *rng.pick(&cands);
                let mut so = st[o].clone().unwrap();
                so.imports.push(m);
                so.imports.sort();
                edit(&mut h, &mut st, o, so, "introduce-cycle", hist);
            } else {
                let es = on_cycle_edges(&st);
                if es.is_empty() {
                    continue;
                }
                let (a, b) = *rng.pick(&es);
                let mut sa = st[a].clone().unwrap();
                sa.imports.retain(|x| *x != b);
                edit(&mut h, &mut st, a, sa, "remove-cycle", hist);
            }
        }
        n += 1;
    }
    if !matches!(h.last(), Some(Op::Eval(_)) | Some(Op::Load(..))) {
        h.push(Op::Eval(*rng.pick(&mods)));
    }
    h
}

fn nontrivial(h: &[Op]) -> bool {
    // at least two evaluations and an edit after the first one
    let first = h.iter().position(|o| !matches!(o, Op::Set(..) | Op::Async));
    match first {
        None => false,
        Some(p) => h[p + 1..].iter().any(|o| !matches!(o, Op::Eval(_))) && h.iter().filter(|o| !matches!(o, Op::Set(..) | Op::Async)).count() >= 2,
    }
}

// ---------------------------------------------------------------- parent: parallel children + watchdog

struct ChildResult {
    lines: Vec<Option<String>>,
    violations: Vec<serde_json::Value>,
    evals: u64,
    classes: Hist,
    restarts: u64,
}

type WorkerMsg = (Vec<(usize, String)>, Vec<serde_json::Value>, u64, Vec<String>, u64);

fn run_children(cases_path: &std::path::Path, n: usize, workers: usize, timeout_s: u64) -> ChildResult {
    use std::sync::mpsc;
    let exe = std::env::current_exe().expect("current_exe");
    let workers = workers.max(1);
    // interleaved small blocks so that every worker gets a similar mix of cheap and expensive histories
    let block = 200usize;
    // byte offset of the first line of every block
    let mut block_offsets: Vec<u64> = vec![];
    {
        let data = std::fs::read(cases_path).expect("cases file");
        let mut line = 0usize;
        let mut pos = 0usize;
        while pos < data.len() {
            if line % block == 0 {
                block_offsets.push(pos as u64);
            }
            match data[pos..].iter().position(|b| *b == b'\n') {
                Some(k) => pos += k + 1,
                None => pos = data.len(),
            }
            line += 1;
        }
    }
    let block_offsets = std::sync::Arc::new(block_offsets);
    let (tx, rx) = mpsc::channel::<WorkerMsg>();
    let next_block = std::sync::Arc::new(std::sync::atomic::AtomicUsize::new(0));
    let mut handles = vec![];
    for _w in 0..workers {
        let tx = tx.clone();
        let exe = exe.clone();
        let cases_path = cases_path.to_path_buf();
        let next_block = next_block.clone();
        let block_offsets = block_offsets.clone();
        handles.push(std::thread::spawn(move || {
            let mut lines = vec![];
            let mut viols = vec![];
            let mut evals = 0u64;
            let mut classes = vec![];
            let mut restarts = 0u64;
            loop {
                let b = next_block.fetch_add(1, Ordering::SeqCst);
                let lo = b * block;
                if lo >= n {
                    break;
                }
                let hi = (lo + block).min(n);
                let mut next = lo;
                // a history that hit the watchdog is run once more on its own with a longer limit
                // (an overloaded machine must not be reported as a hang of the VM)
                let mut confirm: Option<usize> = None;
                while next < hi {
                    let (from, to, limit) = match confirm {
                        Some(i) => (i, i + 1, timeout_s * 6),
                        None => (next, hi, timeout_s),
                    };
                    let mut child = std::process::Command::new(&exe)
                        .arg("child")
                        .arg(format!("file={}", cases_path.display()))
                        .arg(format!("offset={}", block_offsets[b]))
                        .arg(format!("first={}", lo))
                        .arg(format!("start={}", from))
                        .arg(format!("end={}", to))
                        .stdout(std::process::Stdio::piped())
                        .stderr(std::process::Stdio::null())
                        .spawn()
                        .expect("spawn child");
                    let stdout = child.stdout.take().unwrap();
                    let (ltx, lrx) = mpsc::channel::<String>();
                    let reader = std::thread::spawn(move || {
                        for l in std::io::BufReader::new(stdout).lines() {
                            match l {
                                Ok(l) => {
                                    if ltx.send(l).is_err() {
                                        break;
                                    }
                                }
                                Err(_) => break,
                            }
                        }
                    });
                    let mut current: Option<usize> = None;
                    let mut failed: Option<&'static str> = None;
                    loop {
                        match lrx.recv_timeout(std::time::Duration::from_secs(limit)) {
                            Ok(l) => {
                                let parts: Vec<&str> = l.split('\t').collect();
                                if parts[0] == "S" {
                                    current = parts[1].parse().ok();
                                } else if parts[0] == "R" && parts.len() >= 6 {
                                    let i: usize = parts[1].parse().unwrap();
                                    lines.push((i, parts[2].to_string()));
                                    let vs: Vec<serde_json::Value> = serde_json::from_str(parts[3]).unwrap_or_default();
                                    for mut v in vs {
                                        v["history_index"] = serde_json::json!(i);
                                        viols.push(v);
                                    }
                                    evals += parts[4].parse::<u64>().unwrap_or(0);
                                    classes.extend(parts[5].split(',').filter(|s| !s.is_empty()).map(|s| s.to_string()));
                                    next = i + 1;
                                    current = None;
                                }
                            }
                            Err(mpsc::RecvTimeoutError::Timeout) => {
                                failed = Some("hang");
                                break;
                            }
                            Err(mpsc::RecvTimeoutError::Disconnected) => {
                                if current.is_some() {
                                    failed = Some("crash");
                                }
                                break;
                            }
                        }
                    }
                    let _ = child.kill();
                    let status = child.wait().ok();
                    let _ = reader.join();
                    match failed {
                        Some("hang") if confirm.is_none() => {
                            confirm = Some(current.unwrap_or(next));
                            restarts += 1;
                        }
                        Some(kind) => {
                            let i = current.unwrap_or(next);
                            lines.push((i, format!("<{}>", kind)));
                            viols.push(serde_json::json!({"kind": kind, "history_index": i, "exit": format!("{:?}", status),
                                "confirmed_with_limit_s": limit}));
                            next = i + 1;
                            restarts += 1;
                            confirm = None;
                        }
                        None if confirm.is_some() => {
                            // the re-run finished: `next` was advanced by its result line
                            confirm = None;
                        }
                        None => {
                            if next < hi {
                                // the child ended without reporting the remaining histories
                                lines.push((next, "<crash>".to_string()));
                                viols.push(serde_json::json!({"kind": "crash", "history_index": next, "exit": format!("{:?}", status)}));
                                next += 1;
                                restarts += 1;
                            }
                        }
                    }
                }
            }
            tx.send((lines, viols, evals, classes, restarts)).unwrap();
        }));
    }
    drop(tx);
    let mut res = ChildResult { lines: vec![None; n], violations: vec![], evals: 0, classes: Hist::default(), restarts: 0 };
    for (lines, viols, evals, classes, restarts) in rx {
        for (i, l) in lines {
            res.lines[i] = Some(l);
        }
        res.violations.extend(viols);
        res.evals += evals;
        for c in classes {
            res.classes.add(&format!("result:{}", c));
        }
        res.restarts += restarts;
    }
    for h in handles {
        let _ = h.join();
    }
    res.violations.sort_by_key(|v| v["history_index"].as_u64().unwrap_or(0));
    res
}

// ---------------------------------------------------------------- main

fn main() {
    let args = Args::parse();
    if args.rest.iter().any(|a| a == "child") {
        child_main(&args);
        return;
    }
    if let Some(path) = &args.replay {
        let v: serde_json::Value = serde_json::from_str(&std::fs::read_to_string(path).expect("replay file")).expect("json");
        let text = v["case"]["history"].as_str().expect("case.history").to_string();
        println!("history: {}", text);
        let r = run_history(&parse_history(&text), true);
        println!("impl: {}", r.line);
        println!("expected(model): {}", v["expected"].as_str().unwrap_or("?"));
        println!("violations: {}", serde_json::to_string_pretty(&r.violations).unwrap());
        return;
    }
    if let Some(text) = args.extra.get("history") {
        // ad-hoc: c15 "history=set 1 I 1|eval 1" [json=1]
        if args.extra.contains_key("json") {
            let r = run_history(&parse_history(text), false);
            println!("{}", serde_json::json!({"line": r.line, "violations": r.violations}));
            return;
        }
        let r = run_history(&parse_history(text), true);
        println!("impl: {}", r.line);
        println!("violations: {}", serde_json::to_string_pretty(&r.violations).unwrap());
        return;
    }
    let t0 = std::time::Instant::now();
    let thorough = args.thorough();
    let mut hist = Hist::default();
    let mut all: Vec<(Vec<Op>, &'static str)> = vec![];

    // corpus first
    let corpus_dir = std::path::Path::new(env!("CARGO_MANIFEST_DIR")).join("../corpus/C15");
    if let Ok(rd) = std::fs::read_dir(&corpus_dir) {
        let mut files: Vec<_> = rd.filter_map(|e| e.ok()).map(|e| e.path()).collect();
        files.sort();
        for f in files {
            if let Ok(text) = std::fs::read_to_string(&f) {
                for line in text.lines() {
                    let line = line.trim();
                    if line.is_empty() || line.starts_with('#') {
                        continue;
                    }
                    all.push((parse_history(line), "corpus"));
                }
            }
        }
    }

    // Family A: exhaustive, 2 modules; sources: imports in {[], [other]} x {Int, String} x {1, 2}.
    let len2: usize = args.extra.get("len2").and_then(|s| s.parse().ok()).unwrap_or(if thorough { 5 } else { 4 });
    {
        let mut alphabet = vec![];
        for m in 1..=2usize {
            let other = 3 - m;
            for s in all_sources(m, &[other], false, &[false, true], &[1, 2], 1) {
                alphabet.push(Op::Set(m, s));
            }
        }
        alphabet.push(Op::Eval(1));
        alphabet.push(Op::Eval(2));
        exhaustive(&alphabet, len2, &mut all, "exhaustive-2mod");
    }
    // Family B: exhaustive, 2 modules with self-imports and load_script, shorter.
    let len2b: usize = if thorough { 4 } else { 3 };
    {
        let mut alphabet = vec![];
        for m in 1..=2usize {
            let other = 3 - m;
            for s in all_sources(m, &[other], true, &[false, true], &[1], 2) {
                alphabet.push(Op::Set(m, s.clone()));
                if s.imports.len() <= 1 && !s.imports.contains(&m) {
                    alphabet.push(Op::Load(m, s));
                }
            }
        }
        alphabet.push(Op::Eval(1));
        alphabet.push(Op::Eval(2));
        exhaustive(&alphabet, len2b, &mut all, "exhaustive-2mod-self-load");
    }
    // Family C: exhaustive, 3 modules; sources: any subset of the other two x {Int, String}, number 1.
    let len3: usize = args.extra.get("len3").and_then(|s| s.parse().ok()).unwrap_or(if thorough { 4 } else { 3 });
    {
        let mut alphabet = vec![];
        for m in 1..=3usize {
            let others: Vec<usize> = (1..=3).filter(|o| *o != m).collect();
            for s in all_sources(m, &others, false, &[false, true], &[1], 2) {
                alphabet.push(Op::Set(m, s));
            }
        }
        for m in 1..=3 {
            alphabet.push(Op::Eval(m));
        }
        exhaustive(&alphabet, len3, &mut all, "exhaustive-3mod");
    }
    let n_exhaustive = all.len();
    // Family D: random histories, 3..6 modules, initial graph + up to 6 (quick) / 8 (thorough) steps.
    let nrand: usize = args.extra.get("random").and_then(|s| s.parse().ok()).unwrap_or(if thorough { 60000 } else { 6000 });
    let maxsteps = if thorough { 8 } else { 6 };
    let mut rng = Rng::new(args.seed);
    for _ in 0..nrand {
        let nmods = 3 + rng.below(4) as usize;
        let steps = 2 + rng.below(maxsteps as u64 - 1) as usize;
        let mut h = random_history(&mut rng, nmods, steps, &mut hist);
        hist.add(&format!("random-modules:{}", nmods));
        hist.add(&format!("random-steps:{}", steps));
        if rng.chance(1, 4) {
            h.insert(0, Op::Async);
            all.push((h, "random-async-vm"));
        } else {
            all.push((h, "random"));
        }
    }

    let mut model_in = args.file("model_in.txt");
    let mut model_in_asis = args.file("model_in_asis.txt");
    let mut cases = args.file("cases.txt");
    let mut distinct = std::collections::HashSet::new();
    let mut n_nontrivial = 0u64;
    for (h, fam) in &all {
        let t = history_text(h);
        writeln!(model_in, "spec|{}", t).unwrap();
        writeln!(model_in_asis, "asis|{}", t).unwrap();
        writeln!(cases, "{}", t).unwrap();
        hist.add(&format!("family:{}", fam));
        hist.add(&format!("ops:{}", h.len().min(16)));
        if nontrivial(h) && distinct.insert(fnv(t.as_bytes())) {
            n_nontrivial += 1;
        }
    }
    model_in.flush().unwrap();
    model_in_asis.flush().unwrap();
    cases.flush().unwrap();
    drop(cases);

    let workers: usize = args
        .extra
        .get("workers")
        .and_then(|s| s.parse().ok())
        .unwrap_or_else(|| std::thread::available_parallelism().map(|n| n.get()).unwrap_or(4).min(12));
    let timeout_s: u64 = args.extra.get("timeout").and_then(|s| s.parse().ok()).unwrap_or(30);
    let res = run_children(&args.out.join("cases.txt"), all.len(), workers, timeout_s);

    let mut impl_out = args.file("impl_out.txt");
    for l in &res.lines {
        writeln!(impl_out, "{}", l.clone().unwrap_or_else(|| "<missing>".to_string())).unwrap();
    }
    impl_out.flush().unwrap();
    for (k, v) in &res.classes.0 {
        hist.addn(k, *v);
    }
    for v in &res.violations {
        hist.add(&format!("violation:{}", v["kind"].as_str().unwrap_or("?")));
    }
    gvh::out::write_json(&args.out.join("violations.json"), &serde_json::json!(res.violations));
    gvh::out::write_json(
        &args.out.join("stats.json"),
        &serde_json::json!({
            "evaluations": res.evals,
            "histories": all.len(),
            "exhaustive_histories": n_exhaustive,
            "distinct_nontrivial": n_nontrivial,
            "rule": "histories (edit / evaluate / load_script) over module graphs; non-trivial = at least two evaluations and at least one edit after the first evaluation, distinct by text; every evaluation is also run on a fresh VM",
            "exhaustive_bound": format!("2 modules (imports in {{[],[other]}} x Int/String x numbers 1,2): all histories of length <= {} ending in an evaluation; 2 modules with self-imports and load_script: length <= {}; 3 modules (imports any subset of the others x Int/String): length <= {}", len2, len2b, len3),
            "random_histories": nrand,
            "child_restarts": res.restarts,
            "workers": workers,
            "harness_wall_s": t0.elapsed().as_secs_f64(),
            "hist": hist.to_json(),
        }),
    );
}
