//! C15 probe (temporary first version)
#[macro_use]
extern crate gluon_vm;

use gluon::query::CompilationBase;
use gluon::vm::api::{Hole, OpaqueValue, ValueRef};
use gluon::vm::thread::Thread;
use gluon::vm::types::VmInt;
use gluon::vm::ExternModule;
use gluon::ThreadExt;
use std::sync::atomic::{AtomicU64, Ordering};

static TICKS: [AtomicU64; 8] = [
    AtomicU64::new(0),
    AtomicU64::new(0),
    AtomicU64::new(0),
    AtomicU64::new(0),
    AtomicU64::new(0),
    AtomicU64::new(0),
    AtomicU64::new(0),
    AtomicU64::new(0),
];

fn tick(i: VmInt) -> VmInt {
    TICKS[(i as usize) & 7].fetch_add(1, Ordering::SeqCst);
    0
}
fn ticks(i: VmInt, n: VmInt) -> String {
    TICKS[(i as usize) & 7].fetch_add(1, Ordering::SeqCst);
    format!("s{}", n)
}

fn new_vm() -> gluon::RootedThread {
    let vm = gluon::VmBuilder::new().build();
    vm.get_database_mut().implicit_prelude(false);
    gluon::import::add_extern_module(&vm, "c15tick", |t: &Thread| ExternModule::new(t, primitive!(1, tick)));
    gluon::import::add_extern_module(&vm, "c15ticks", |t: &Thread| ExternModule::new(t, primitive!(2, ticks)));
    vm
}

#[derive(Clone, Debug, PartialEq)]
struct Src {
    imports: Vec<usize>,
    is_str: bool,
    n: i64,
}

fn render(m: usize, s: &Src) -> String {
    let mut t = String::new();
    if s.is_str {
        t.push_str("let tick = import! c15ticks\n");
    } else {
        t.push_str("let tick = import! c15tick\n");
    }
    for i in &s.imports {
        t.push_str(&format!("let d{} = import! c15.m{}\n", i, i));
    }
    if s.is_str {
        t.push_str(&format!("tick {} {}\n", m, s.n));
    } else {
        t.push_str(&format!("tick {}", m));
        for i in &s.imports {
            t.push_str(&format!(" #Int+ d{}", i));
        }
        t.push_str(&format!(" #Int+ {}\n", s.n));
    }
    t
}

fn set(vm: &Thread, m: usize, s: &Src) {
    vm.get_database_mut().add_module(format!("c15.m{}", m), &render(m, s));
}

fn eval(vm: &Thread, m: usize) -> String {
    let r = vm.run_expr::<OpaqueValue<&Thread, Hole>>("c15top", &format!("import! c15.m{}", m));
    match r {
        Ok((v, t)) => match v.get_ref() {
            ValueRef::Int(i) => format!("int {} : {}", i, t),
            ValueRef::String(s) => format!("str {} : {}", s, t),
            _ => format!("other : {}", t),
        },
        Err(e) => format!("ERR {}", e.to_string().replace('\n', " | ")),
    }
}

fn take_ticks() -> String {
    let mut s = String::new();
    for i in 1..7 {
        let k = TICKS[i].swap(0, Ordering::SeqCst);
        if k > 0 {
            s.push_str(&format!(" m{}x{}", i, k));
        }
    }
    s
}

fn main() {
    let args: Vec<String> = std::env::args().skip(1).collect();
    if args.iter().any(|a| a == "bench") {
        let t0 = std::time::Instant::now();
        for k in 0..200 {
            let vm = new_vm();
            set(&vm, 1, &Src { imports: vec![2], is_str: false, n: k });
            set(&vm, 2, &Src { imports: vec![], is_str: false, n: k });
            let r = eval(&vm, 1);
            if k == 0 { println!("{}", r); }
        }
        println!("200 fresh VMs + eval: {:?}", t0.elapsed());
        let t0 = std::time::Instant::now();
        for _ in 0..200 { let _vm = new_vm(); }
        println!("200 VM builds: {:?}", t0.elapsed());
        return;
    }
    let use_async = args.iter().any(|a| a == "async");
    let rt = tokio::runtime::Builder::new_multi_thread().worker_threads(2).enable_all().build().unwrap();
    let vm = if use_async {
        let vm = rt.block_on(gluon::VmBuilder::new().build_async());
        vm.get_database_mut().implicit_prelude(false);
        gluon::import::add_extern_module(&vm, "c15tick", |t: &Thread| ExternModule::new(t, primitive!(1, tick)));
        gluon::import::add_extern_module(&vm, "c15ticks", |t: &Thread| ExternModule::new(t, primitive!(2, ticks)));
        vm
    } else { new_vm() };
    let script = args.iter().filter(|a| *a != "async").cloned().collect::<Vec<_>>().join(" ");
    for op in script.split(';') {
        let w: Vec<&str> = op.split_whitespace().collect();
        if w.is_empty() { continue; }
        let t0 = std::time::Instant::now();
        let m: usize = w[1].parse().unwrap();
        let src = if w.len() > 3 { Some(Src { is_str: w[2] == "S", n: w[3].parse().unwrap(), imports: if w.len() > 4 { w[4].split(',').map(|x| x.parse().unwrap()).collect() } else { vec![] } }) } else { None };
        match w[0] {
            "set" => { set(&vm, m, src.as_ref().unwrap()); println!("{}", op); }
            "load" => {
                let r = if use_async { rt.block_on(vm.load_script_async(&format!("c15/m{}.glu", m), &render(m, src.as_ref().unwrap()))) } else { vm.load_script(&format!("c15/m{}.glu", m), &render(m, src.as_ref().unwrap())) };
                println!("{} -> {}  ticks:{}", op, match r { Ok(()) => "ok".to_string(), Err(e) => e.to_string().replace('\n', " | ") }, take_ticks());
            }
            _ => {
                let r = if use_async {
                    let r = rt.block_on(vm.run_expr_async::<OpaqueValue<&Thread, Hole>>("c15top", &format!("import! c15.m{}", m)));
                    match r { Ok((v, t)) => match v.get_ref() { ValueRef::Int(i) => format!("int {} : {}", i, t), ValueRef::String(s) => format!("str {} : {}", s, t), _ => format!("other : {}", t) }, Err(e) => format!("ERR {}", e.to_string().replace('\n', " | ")) }
                } else { eval(&vm, m) };
                let r: String = r.split(" | ").filter(|l| l.contains("rror") || l.contains("int ") || l.contains("str ") || l.contains("Expected") || l.contains("Found")).collect::<Vec<_>>().join(" | ");
                println!("eval m{} -> {}   ticks:{}   [{:?}]", m, r, take_ticks(), t0.elapsed());
            }
        }
    }
}
