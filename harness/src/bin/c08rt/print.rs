//! Printer from generated ASTs to concrete Gluon syntax in four styles.
//!
//!   S1  explicit `in`, as much as possible on one line (match alternatives still need their own
//!       lines: the layout algorithm only closes an alternative's block at a line start)
//!   S2  indentation-based layout only: no `in`, bodies on following lines, several indent widths
//!   S3  S1 or S2 with redundant parentheses around sub-expressions, patterns and types
//!   S4  S2 plus line comments, block comments, blank lines and extra blanks
//!
//! Layout facts the printer relies on (parser/src/layout.rs), all checked against the real parser
//! by the round trip itself:
//!   * a `let`/`type`/`do`/`seq`/`rec` body that starts at the column of the keyword gets an implicit
//!     `in` (:458-509); with `rec`, a following `let`/`type` at that column continues the group
//!     instead (:139-180), so such a body is introduced by an explicit `in`;
//!   * `=` of a let, `->` of a lambda / alternative, `then`, `else` and `with` open a context at the
//!     NEXT token (:560-585); tokens at the column of a block are separated by a virtual `;`
//!     (:412-424), tokens left of it close it (:407-411);
//!   * closing tokens (`in`, `else`, `)`, `]`, `}`, `,`) close every context up to their partner
//!     (:312-400), so anything may follow them on the same line;
//!   * a sequence `a; b` only exists inside a block context, i.e. never directly inside brackets.
use crate::ast::*;
use gvh::rng::Rng;

#[derive(Clone, Copy, PartialEq, Debug)]
pub enum Style {
    S1,
    S2,
    S3,
    S4,
}

impl Style {
    pub fn name(self) -> &'static str {
        match self {
            Style::S1 => "S1-explicit-in",
            Style::S2 => "S2-layout",
            Style::S3 => "S3-redundant-parens",
            Style::S4 => "S4-comments",
        }
    }
}

#[derive(Clone, Copy, PartialEq)]
enum Pos {
    Arg,     // function, argument, projection base: atomic expressions only
    Operand, // operand of an infix operator: application level
    Cond,    // `if` condition, `match` scrutinee: nothing that opens a block
    Elem,    // inside brackets / after `=` of a record field / between `seq` and `in`
    Body,    // first token of a layout block
}

pub struct Printer<'r> {
    pub out: String,
    col: usize,
    rng: &'r mut Rng,
    ops: Vec<Op>,
    explicit: bool,
    parens: bool,
    comments: bool,
    step: usize,
    tight: bool,
}

struct Snap {
    len: usize,
    col: usize,
    rng: Rng,
}

const COMMENTS: &[&str] = &["c", "let x = 1 in", "| A ->", "(", "\"", "'", "if then else", "}", "todo: \\x ->", "*", "/ /", "#[infix(left, 1)]"];

impl<'r> Printer<'r> {
    pub fn new(style: Style, rng: &'r mut Rng) -> Printer<'r> {
        let explicit = match style {
            Style::S1 => true,
            Style::S2 | Style::S4 => false,
            Style::S3 => rng.chance(1, 2),
        };
        let step = *rng.pick(&[1usize, 2, 2, 3, 4, 4, 8]);
        let tight = rng.chance(1, 3);
        Printer { out: String::new(), col: 0, rng, ops: table(), explicit, parens: style == Style::S3, comments: style == Style::S4, step, tight }
    }

    pub fn program(mut self, e: &E) -> String {
        if self.comments {
            if self.rng.chance(1, 4) {
                self.out.push_str("// leading comment\n");
            }
            if self.rng.chance(1, 6) {
                self.out.push_str("\n/* block\n   comment */\n\n");
            }
        } else if !self.explicit && self.rng.chance(1, 8) {
            self.out.push('\n');
        }
        self.expr(e, Pos::Body, true);
        if self.comments && self.rng.chance(1, 3) {
            self.out.push_str(" // trailing");
        }
        self.out.push('\n');
        if self.comments && self.rng.chance(1, 4) {
            self.out.push_str("// end\n");
        }
        self.out
    }

    // ---- low level ----
    fn w(&mut self, s: &str) {
        debug_assert!(!s.contains('\n'));
        self.out.push_str(s);
        self.col += s.len(); // parser columns count bytes (token.rs CharLocations)
    }
    fn sp(&mut self) {
        self.w(" ");
        if self.comments {
            match self.rng.below(14) {
                0 => {
                    let c = *self.rng.pick(COMMENTS);
                    self.w(&format!("/* {} */ ", c));
                }
                1 => self.w("  "),
                _ => {}
            }
        }
    }
    /// optional blank (tight bracket style)
    fn osp(&mut self) {
        if !self.tight {
            self.sp();
        }
    }
    fn nl(&mut self, col: usize) {
        if self.comments {
            if self.rng.chance(1, 7) {
                let c = *self.rng.pick(COMMENTS);
                self.out.push_str(&format!(" // {}", c));
            } else if self.rng.chance(1, 12) {
                self.out.push_str("  ");
            }
        }
        self.out.push('\n');
        if self.comments {
            match self.rng.below(12) {
                0 => self.out.push('\n'),
                1 => {
                    let ind = self.rng.below(col as u64 + 3) as usize;
                    let c = *self.rng.pick(COMMENTS);
                    self.out.push_str(&format!("{}// {}\n", " ".repeat(ind), c));
                }
                2 => {
                    let ind = self.rng.below(col as u64 + 3) as usize;
                    self.out.push_str(&format!("{}/* line one\n line two */\n", " ".repeat(ind)));
                }
                3 => self.out.push_str("   \n\n"),
                _ => {}
            }
        } else if !self.explicit && self.rng.chance(1, 20) {
            self.out.push('\n');
        }
        self.out.push_str(&" ".repeat(col));
        self.col = col;
    }
    fn k(&mut self) -> usize {
        if self.rng.chance(1, 5) { *self.rng.pick(&[1usize, 2, 3, 4, 5, 8]) } else { self.step }
    }
    fn at_line_start(&self) -> bool {
        self.out.rsplit('\n').next().map_or(true, |l| l.trim().is_empty())
    }
    fn snap(&self) -> Snap {
        Snap { len: self.out.len(), col: self.col, rng: self.rng.clone() }
    }
    fn rollback(&mut self, s: Snap) {
        self.out.truncate(s.len);
        self.col = s.col;
        *self.rng = s.rng;
    }
    /// Run `f`; when it emitted a line break undo it and return false.
    fn try_inline(&mut self, f: &mut dyn FnMut(&mut Printer<'r>)) -> bool {
        let s = self.snap();
        f(self);
        if self.out[s.len..].contains('\n') {
            self.rollback(s);
            false
        } else {
            true
        }
    }

    // ---- tokens ----
    fn ident(&mut self, x: &str) {
        if x.starts_with(|c: char| c.is_alphanumeric() || c == '_') {
            self.w(x)
        } else {
            self.w("(");
            if self.comments && self.rng.chance(1, 6) {
                self.w(" ");
            }
            self.w(x);
            self.w(")")
        }
    }
    fn lit(&mut self, l: &Lit) {
        let s = match l {
            Lit::Int(i) => format!("{}", i),
            Lit::Byte(b) => format!("{}b", b),
            Lit::Float(f) => format!("{:?}", f),
            Lit::Char(c) => format!("'{}'", esc(*c, '\'')),
            Lit::Str(s) => format!("\"{}\"", s.chars().map(|c| esc(c, '"')).collect::<String>()),
        };
        self.w(&s);
    }

    // ---- types ----
    fn ty(&mut self, t: &Ty, prec: u8) {
        // prec: 0 = anything, 1 = left of `->` (application level), 2 = atomic
        let redundant = self.parens && self.rng.chance(1, 5);
        let need = match t {
            Ty::Con(_) | Ty::Rec(_) => false,
            Ty::Fun(..) => prec >= 1,
            Ty::App(..) => prec >= 2,
        };
        if need || redundant {
            self.w("(");
            self.ty(t, 0);
            self.w(")");
            return;
        }
        match t {
            Ty::Con(n) => self.w(n),
            Ty::Fun(a, b) => {
                self.ty(a, 1);
                self.sp();
                self.w("->");
                self.sp();
                self.ty(b, 0);
            }
            Ty::App(f, args) => {
                self.w(f);
                for a in args {
                    self.sp();
                    self.ty(a, 2);
                }
            }
            Ty::Rec(fs) => {
                self.w("{");
                for (i, (n, t)) in fs.iter().enumerate() {
                    if i > 0 {
                        self.w(",");
                    }
                    self.sp();
                    self.w(n);
                    self.osp();
                    self.w(":");
                    self.sp();
                    self.ty(t, 0);
                }
                if !fs.is_empty() {
                    self.sp();
                }
                self.w("}");
            }
        }
    }

    // ---- patterns ----
    /// `atomic`: the grammar asks for an AtomicPattern here
    fn pat(&mut self, p: &Pat, atomic: bool) {
        let redundant = self.parens && self.rng.chance(1, 5);
        let need = atomic && matches!(p, Pat::Ctor(_, a) if !a.is_empty());
        if need || redundant {
            self.w("(");
            self.pat(p, false);
            self.w(")");
            return;
        }
        match p {
            Pat::Ident(x) => self.ident(x),
            Pat::Lit(l) => self.lit(l),
            Pat::Ctor(c, args) => {
                self.w(c);
                for a in args {
                    self.sp();
                    self.pat(a, true);
                }
            }
            Pat::As(x, q) => {
                self.ident(x);
                // `x@-1` would be lexed as the operator `@-`
                let neg = matches!(**q, Pat::Lit(Lit::Int(i)) if i < 0) || matches!(**q, Pat::Lit(Lit::Float(f)) if f < 0.0);
                if neg || self.parens {
                    self.sp();
                    self.w("@");
                    self.sp();
                } else {
                    self.osp();
                    self.w("@");
                    self.osp();
                }
                self.pat(q, true);
            }
            Pat::Tuple(ps) => {
                self.w("(");
                for (i, q) in ps.iter().enumerate() {
                    if i > 0 {
                        self.w(",");
                        self.sp();
                    }
                    self.pat(q, false);
                }
                self.w(")");
            }
            Pat::Record(fs, imp) => {
                self.w("{");
                for (i, (n, v)) in fs.iter().enumerate() {
                    if i > 0 {
                        self.w(",");
                    }
                    self.sp();
                    self.ident(n);
                    if let Some(v) = v {
                        self.sp();
                        self.w("=");
                        self.sp();
                        self.pat(v, false);
                    }
                }
                if *imp {
                    if !fs.is_empty() && self.rng.chance(1, 2) {
                        self.w(",");
                    }
                    self.sp();
                    self.w("?");
                }
                if !fs.is_empty() || *imp {
                    self.sp();
                }
                self.w("}");
            }
        }
    }

    // ---- expressions ----
    fn is_atomic(e: &E) -> bool {
        matches!(e, E::Ident(_) | E::Lit(_) | E::Proj(..) | E::Array(_) | E::Record(..) | E::Tuple(_))
    }
    fn is_app(e: &E) -> bool {
        Self::is_atomic(e) || matches!(e, E::App(..))
    }
    fn is_closed(e: &E) -> bool {
        Self::is_app(e) || matches!(e, E::Infix(..))
    }

    fn expr(&mut self, e: &E, pos: Pos, blk: bool) {
        let need = match pos {
            Pos::Arg => !Self::is_atomic(e),
            Pos::Operand => !Self::is_app(e),
            Pos::Cond => !Self::is_closed(e),
            Pos::Elem | Pos::Body => false,
        };
        let redundant = self.parens && !e.needs_block() && self.rng.chance(1, 4);
        if need || redundant {
            debug_assert!(!e.needs_block());
            self.w("(");
            if redundant && self.rng.chance(1, 6) {
                self.w("(");
                self.expr(e, Pos::Elem, false);
                self.w(")");
            } else {
                self.expr(e, Pos::Elem, false);
            }
            self.w(")");
            return;
        }
        let c0 = self.col;
        match e {
            E::Ident(x) => self.ident(x),
            E::Lit(l) => self.lit(l),
            E::Proj(b, f) => {
                if matches!(**b, E::Lit(_)) {
                    // `1.x` would be lexed as a float
                    self.w("(");
                    self.expr(b, Pos::Elem, false);
                    self.w(")");
                } else {
                    self.expr(b, Pos::Arg, false);
                }
                self.w(".");
                self.w(f);
            }
            E::App(f, args) => {
                self.expr(f, Pos::Arg, false);
                for a in args {
                    if !self.explicit && self.rng.chance(1, 12) {
                        let k = self.k();
                        self.nl(c0 + k);
                    } else {
                        self.sp();
                    }
                    self.expr(a, Pos::Arg, false);
                }
            }
            E::Infix(..) => self.infix(e, c0),
            E::Array(xs) => self.seq_brackets("[", "]", xs, c0),
            E::Tuple(xs) => self.seq_brackets("(", ")", xs, c0),
            E::Record(fs, base) => self.record(fs, base.as_deref(), c0),
            E::Lambda(xs, body) => {
                self.w("\\");
                for (i, x) in xs.iter().enumerate() {
                    if i > 0 {
                        self.sp();
                    }
                    self.ident(x);
                }
                self.sp();
                self.w("->");
                self.body_after(body, c0);
            }
            E::If(c, a, b) => self.if_(c, a, b, c0),
            E::Match(s, alts) => self.match_(s, alts, c0),
            E::Let(..) | E::Rec(..) | E::Type(..) | E::Do(..) => self.binding(e, c0, blk),
            E::Block(xs) => self.block(xs, c0, blk),
        }
    }

    /// A body after `=`, `->`, `then`, `else`: on the same line or on the next one, deeper than `c0`.
    fn body_after(&mut self, body: &E, c0: usize) {
        let inline = match body {
            E::Block(_) => self.rng.chance(1, 6),
            _ => self.rng.chance(if self.explicit { 5 } else { 1 }, if self.explicit { 6 } else { 2 }),
        };
        if inline {
            self.sp();
        } else {
            let k = self.k();
            self.nl(c0 + k);
        }
        self.expr(body, Pos::Body, true);
    }

    fn okl(&self, o: usize, c: usize) -> bool {
        let (o, c) = (&self.ops[o], &self.ops[c]);
        c.prec > o.prec || (c.prec == o.prec && c.left && o.left)
    }
    fn okr(&self, o: usize, c: usize) -> bool {
        let (o, c) = (&self.ops[o], &self.ops[c]);
        c.prec > o.prec || (c.prec == o.prec && !c.left && !o.left)
    }

    /// An operator tree: a child that is itself an operator node is written without parentheses
    /// exactly when the fixity rules group it that way (`wf` of coq/theories/Front/InfixProofs.v).
    fn infix(&mut self, e: &E, c0: usize) {
        if let E::Infix(l, o, r) = e {
            match &**l {
                E::Infix(_, lo, _) if self.okl(*o, *lo) && !(self.parens && self.rng.chance(1, 6)) => self.infix(l, c0),
                _ => self.expr(l, Pos::Operand, false),
            }
            if !self.explicit && self.rng.chance(1, 10) {
                let k = self.k();
                self.nl(c0 + k);
            } else {
                self.sp();
            }
            let name = self.ops[*o].name;
            self.w(name);
            self.sp();
            match &**r {
                E::Infix(_, ro, _) if self.okr(*o, *ro) && !(self.parens && self.rng.chance(1, 6)) => self.infix(r, c0),
                _ => self.expr(r, Pos::Operand, false),
            }
        }
    }

    fn seq_brackets(&mut self, open: &str, close: &str, xs: &[E], c0: usize) {
        self.w(open);
        if xs.is_empty() {
            if self.comments && self.rng.chance(1, 4) {
                self.w(" ");
            }
            self.w(close);
            return;
        }
        let multi = !self.explicit && xs.len() > 1 && self.rng.chance(1, 6);
        let k = self.k();
        for (i, x) in xs.iter().enumerate() {
            if i > 0 {
                self.w(",");
            }
            if multi {
                self.nl(c0 + k);
            } else if i > 0 {
                self.sp();
            } else if open != "(" {
                self.osp();
            }
            self.expr(x, Pos::Elem, false);
        }
        if multi {
            let c = if self.rng.chance(1, 2) { c0 } else { c0 + k };
            self.nl(c);
        } else if open != "(" {
            self.osp();
        }
        self.w(close);
    }

    fn record(&mut self, fs: &[(String, Option<E>)], base: Option<&E>, c0: usize) {
        self.w("{");
        if fs.is_empty() && base.is_none() {
            if self.rng.chance(1, 3) {
                self.w(" ");
            }
            self.w("}");
            return;
        }
        let multi = !self.explicit && self.rng.chance(1, 4);
        let k = self.k();
        for (i, (n, v)) in fs.iter().enumerate() {
            if multi {
                self.nl(c0 + k);
            } else {
                self.sp();
            }
            self.ident(n);
            if let Some(v) = v {
                self.sp();
                self.w("=");
                self.sp();
                self.expr(v, Pos::Elem, false);
            }
            let last = i + 1 == fs.len();
            if !last || base.is_some() || self.rng.chance(1, 6) {
                // the comma before `..` is optional as well
                let closed = v.as_ref().map_or(true, |v| Self::is_closed(v));
                if !(last && base.is_some() && closed && self.rng.chance(1, 4)) {
                    self.w(",");
                }
            }
        }
        if let Some(b) = base {
            if multi {
                self.nl(c0 + k);
            } else {
                self.sp();
            }
            self.w("..");
            self.sp();
            self.expr(b, Pos::Elem, false);
        }
        if multi {
            let c = if self.rng.chance(1, 2) { c0 } else { c0 + k };
            self.nl(c);
        } else {
            self.sp();
        }
        self.w("}");
    }

    fn if_(&mut self, c: &E, a: &E, b: &E, c0: usize) {
        self.w("if");
        self.sp();
        self.expr(c, Pos::Cond, false);
        self.sp();
        self.w("then");
        let want_inline = self.rng.chance(if self.explicit { 3 } else { 1 }, 4);
        if want_inline {
            let mut f = |p: &mut Printer<'r>| {
                p.sp();
                p.expr(a, Pos::Body, true);
                p.sp();
                p.w("else");
                p.sp();
                p.expr(b, Pos::Body, true);
            };
            if self.try_inline(&mut f) {
                return;
            }
        }
        let k = self.k();
        let form = self.rng.below(4);
        // then-branch
        if form == 0 {
            self.sp();
        } else {
            self.nl(c0 + k);
        }
        self.expr(a, Pos::Body, true);
        self.nl(c0);
        self.w("else");
        if let E::If(c2, a2, b2) = b {
            if self.rng.chance(2, 3) && !self.parens {
                // `else if` on one line: no block is opened for the else branch (layout.rs:568-585)
                self.sp();
                self.if_(c2, a2, b2, c0);
                return;
            }
        }
        if form == 0 || form == 1 {
            self.sp();
        } else {
            self.nl(c0 + k);
        }
        self.expr(b, Pos::Body, true);
    }

    fn match_(&mut self, s: &E, alts: &[(Pat, E)], c0: usize) {
        self.w("match");
        self.sp();
        self.expr(s, Pos::Cond, false);
        self.sp();
        self.w("with");
        let mut cm = if self.rng.chance(1, 2) { c0 } else { c0 + self.k() };
        let first_inline = self.rng.chance(1, 4);
        for (i, (p, body)) in alts.iter().enumerate() {
            if i == 0 && first_inline {
                // the following alternatives line up with the first `|`
                self.sp();
                cm = self.col;
            } else {
                self.nl(cm);
            }
            let ca = self.col;
            self.w("|");
            self.sp();
            self.pat(p, false);
            self.sp();
            self.w("->");
            self.body_after(body, ca);
        }
    }

    fn attr(&mut self, a: &Option<(bool, i32)>, c0: usize) {
        if let Some((left, prec)) = a {
            self.w("#[infix(");
            self.w(if *left { "left" } else { "right" });
            self.w(", ");
            self.w(&prec.to_string());
            self.w(")]");
            // Without an explicit `in` the body has to start at the column of the `let` keyword
            // (book: "on the same column as an unclosed let"), so the attribute gets its own line.
            if self.explicit && self.rng.chance(1, 4) {
                self.w(" ");
            } else {
                self.nl(c0);
            }
        }
    }

    fn bind(&mut self, b: &Bind, c0: usize, rec: bool) {
        if self.comments && b.attr.is_none() && self.at_line_start() && self.rng.chance(1, 8) {
            self.w("/// doc comment");
            self.nl(c0);
        }
        self.attr(&b.attr, c0);
        // an attribute on the same line: the Let context sits at the `let` keyword, and the right
        // hand side may not be unindented past it (layout.rs:88-118)
        let c_let = self.col;
        self.w("let");
        self.sp();
        // `let <AtomicPattern>` or `let <name> <args>`
        match &b.pat {
            // grammar.lalrpop ValueBinding: with arguments the name is an identifier, not a pattern
            Pat::Ident(x) if rec || !b.args.is_empty() => self.ident(x),
            p => self.pat(p, true),
        }
        for a in &b.args {
            self.sp();
            self.ident(a);
        }
        if let Some(t) = &b.typ {
            self.sp();
            self.w(":");
            self.sp();
            self.ty(t, 0);
        }
        self.sp();
        self.w("=");
        self.body_after(&b.rhs, c_let);
    }

    fn tybind(&mut self, b: &TyBind, c0: usize) {
        self.w("type");
        self.sp();
        self.w(&b.name);
        for p in &b.params {
            self.sp();
            self.w(p);
        }
        self.sp();
        self.w("=");
        match &b.body {
            TyBody::Alias(t) => {
                self.sp();
                self.ty(t, 0);
            }
            TyBody::Variant(vs) => {
                let multi = !self.explicit && self.rng.chance(1, 2);
                let k = self.k();
                for (c, args) in vs {
                    if multi {
                        self.nl(c0 + k);
                    } else {
                        self.sp();
                    }
                    self.w("|");
                    self.sp();
                    self.w(c);
                    for a in args {
                        self.sp();
                        self.ty(a, 2);
                    }
                }
            }
        }
    }

    /// let / rec let / type / do: header, then the body after an explicit or implicit `in`.
    fn binding(&mut self, e: &E, c0: usize, blk: bool) {
        let (body, continues): (&E, bool) = match e {
            E::Let(b, body) => {
                self.bind(b, c0, false);
                (body, false)
            }
            E::Rec(bs, body) => {
                self.w("rec");
                if self.rng.chance(1, 3) {
                    self.nl(c0);
                } else {
                    self.sp();
                }
                for (i, b) in bs.iter().enumerate() {
                    if i > 0 {
                        self.nl(c0);
                    }
                    self.bind(b, c0, true);
                }
                // a body starting with `let` would be taken for another binding of the group
                (body, matches!(**body, E::Let(..)))
            }
            E::Type(bs, body) => {
                if bs.len() > 1 {
                    self.w("rec");
                    if self.rng.chance(1, 3) {
                        self.nl(c0);
                    } else {
                        self.sp();
                    }
                }
                for (i, b) in bs.iter().enumerate() {
                    if i > 0 {
                        self.nl(c0);
                    }
                    self.tybind(b, c0);
                }
                (body, bs.len() > 1 && matches!(&**body, E::Type(bs2, _) if bs2.len() == 1))
            }
            E::Do(p, bound, body) => {
                self.w("do");
                self.sp();
                self.pat(p, false);
                self.sp();
                self.w("=");
                self.body_after(bound, c0);
                (body, false)
            }
            _ => unreachable!(),
        };
        self.in_body(body, c0, blk, continues);
    }

    fn in_body(&mut self, body: &E, c0: usize, blk: bool, force_explicit: bool) {
        if self.explicit || force_explicit {
            let form = if body.needs_block() || force_explicit && !self.explicit { 1 + self.rng.below(2) * 2 } else { self.rng.below(4) };
            match form {
                0 => {
                    // ` in BODY`
                    self.sp();
                    self.w("in");
                    self.sp();
                    self.expr(body, Pos::Body, false);
                }
                1 => {
                    self.sp();
                    self.w("in");
                    self.nl(c0);
                    self.expr(body, Pos::Body, blk);
                }
                2 => {
                    self.nl(c0);
                    self.w("in");
                    self.sp();
                    self.expr(body, Pos::Body, false);
                }
                _ => {
                    self.nl(c0);
                    self.w("in");
                    self.nl(c0);
                    self.expr(body, Pos::Body, blk);
                }
            }
        } else {
            self.nl(c0);
            self.expr(body, Pos::Body, blk);
        }
    }

    fn block(&mut self, xs: &[E], c0: usize, blk: bool) {
        let use_seq = !blk || self.rng.chance(if self.explicit { 1 } else { 1 }, if self.explicit { 2 } else { 8 });
        if use_seq {
            // `seq a in seq b in c`  /  `seq a` NEWLINE `seq b` NEWLINE `c`
            // `at_block`: the next statement starts on its own line at the block column
            let must_break = xs[xs.len() - 1].needs_block();
            let mut at_block = blk;
            for (i, x) in xs.iter().enumerate() {
                if i + 1 == xs.len() {
                    self.expr(x, Pos::Body, at_block);
                } else {
                    self.w("seq");
                    self.sp();
                    self.expr(x, Pos::Elem, false);
                    if self.explicit {
                        self.sp();
                        self.w("in");
                        if blk && (must_break || self.rng.chance(1, 2)) {
                            self.nl(c0);
                            at_block = blk;
                        } else {
                            self.sp();
                            at_block = false;
                        }
                    } else {
                        self.nl(c0);
                        at_block = blk;
                    }
                }
            }
            return;
        }
        for (i, x) in xs.iter().enumerate() {
            if i > 0 {
                self.nl(c0);
            }
            let last = i + 1 == xs.len();
            if !last && matches!(x, E::Let(..) | E::Rec(..) | E::Type(..) | E::Do(..)) {
                // its body would swallow the following statements
                self.w("(");
                self.expr(x, Pos::Elem, false);
                self.w(")");
            } else {
                self.expr(x, Pos::Body, last);
            }
        }
    }
}

fn esc(c: char, quote: char) -> String {
    match c {
        '\n' => "\\n".into(),
        '\t' => "\\t".into(),
        '\r' => "\\r".into(),
        '\\' => "\\\\".into(),
        c if c == quote => format!("\\{}", c),
        c => c.to_string(),
    }
}
