//! Generated expression ASTs for the C08 round trip: syntactically valid, untyped.
//! `show_*` renders the canonical s-expression (the ORACLE of the round trip) in exactly the format
//! `real::show` uses for the tree the real parser produced.
use gvh::rng::Rng;

#[derive(Clone, Debug)]
pub struct Op {
    pub name: &'static str,
    pub prec: i32,
    pub left: bool,
    pub user: bool,
}

/// Same table as harness/src/bin/c08.rs: nine user operators realising every (precedence relation
/// x associativity) combination, plus rows of the built-in table.
pub fn table() -> Vec<Op> {
    let u = |name, prec, left| Op { name, prec, left, user: true };
    let b = |name, prec, left| Op { name, prec, left, user: false };
    vec![
        u("+++", 5, true),
        u("---", 5, true),
        u("***", 5, false),
        u("^^^", 5, false),
        u("<|", 3, true),
        u("|>", 3, false),
        u("<<<", 7, true),
        u(">>>", 7, false),
        u("%%", 6, true),
        b("#Int+", 6, true),
        b("#Int*", 7, true),
        b("#Int==", 4, true),
        b("&&", 3, false),
        b("||", 2, false),
        b("#Float-", 6, true),
        b("#Byte<", 4, true),
    ]
}

#[derive(Clone, Debug, PartialEq)]
pub enum Lit {
    Int(i64),
    Float(f64),
    Str(String),
    Char(char),
    Byte(u8),
}

#[derive(Clone, Debug)]
pub enum Ty {
    Con(String),          // builtin or type identifier (uppercase) or variable (lowercase)
    Fun(Box<Ty>, Box<Ty>),
    App(String, Vec<Ty>), // constructor applied to arguments
    Rec(Vec<(String, Ty)>),
}

#[derive(Clone, Debug)]
pub enum Pat {
    Ident(String),
    Ctor(String, Vec<Pat>),
    /// (field, Some(pattern)) | (field, None) = punned; uppercase field without pattern = type field
    Record(Vec<(String, Option<Pat>)>, bool),
    Tuple(Vec<Pat>), // length != 1
    Lit(Lit),
    As(String, Box<Pat>),
}

#[derive(Clone, Debug)]
pub struct Bind {
    /// `#[infix(left|right, n)]`
    pub attr: Option<(bool, i32)>,
    pub pat: Pat,
    pub args: Vec<String>,
    pub typ: Option<Ty>,
    pub rhs: E,
}

#[derive(Clone, Debug)]
pub enum TyBody {
    Alias(Ty),
    Variant(Vec<(String, Vec<Ty>)>),
}

#[derive(Clone, Debug)]
pub struct TyBind {
    pub name: String,
    pub params: Vec<String>,
    pub body: TyBody,
}

#[derive(Clone, Debug)]
pub enum E {
    Ident(String),
    Lit(Lit),
    App(Box<E>, Vec<E>),
    Lambda(Vec<String>, Box<E>),
    If(Box<E>, Box<E>, Box<E>),
    Match(Box<E>, Vec<(Pat, E)>),
    Infix(Box<E>, usize, Box<E>),
    Proj(Box<E>, String),
    Array(Vec<E>),
    Record(Vec<(String, Option<E>)>, Option<Box<E>>),
    Tuple(Vec<E>), // length != 1
    Let(Box<Bind>, Box<E>),
    Rec(Vec<Bind>, Box<E>),
    Type(Vec<TyBind>, Box<E>),
    Block(Vec<E>), // length >= 2, elements are not blocks
    Do(Pat, Box<E>, Box<E>),
}

impl E {
    pub fn kind(&self) -> &'static str {
        match self {
            E::Ident(_) => "ident",
            E::Lit(_) => "literal",
            E::App(..) => "app",
            E::Lambda(..) => "lambda",
            E::If(..) => "if",
            E::Match(..) => "match",
            E::Infix(..) => "infix",
            E::Proj(..) => "projection",
            E::Array(_) => "array",
            E::Record(..) => "record",
            E::Tuple(_) => "tuple",
            E::Let(..) => "let",
            E::Rec(..) => "rec-let",
            E::Type(..) => "type",
            E::Block(_) => "block",
            E::Do(..) => "do",
        }
    }
    /// This expression can only be written where a layout block starts at its first token
    /// (a sequence, or a binding form whose body is one).
    pub fn needs_block(&self) -> bool {
        match self {
            E::Block(_) => true,
            E::Let(_, b) | E::Rec(_, b) | E::Type(_, b) | E::Do(_, _, b) => b.needs_block(),
            _ => false,
        }
    }
    pub fn size(&self) -> usize {
        let mut n = 0;
        self.walk(&mut |_| n += 1);
        n
    }
    pub fn walk(&self, f: &mut dyn FnMut(&E)) {
        f(self);
        match self {
            E::Ident(_) | E::Lit(_) => {}
            E::App(g, a) => {
                g.walk(f);
                a.iter().for_each(|x| x.walk(f));
            }
            E::Lambda(_, b) => b.walk(f),
            E::If(a, b, c) => {
                a.walk(f);
                b.walk(f);
                c.walk(f);
            }
            E::Match(s, alts) => {
                s.walk(f);
                alts.iter().for_each(|(_, x)| x.walk(f));
            }
            E::Infix(l, _, r) => {
                l.walk(f);
                r.walk(f);
            }
            E::Proj(b, _) => b.walk(f),
            E::Array(xs) | E::Tuple(xs) | E::Block(xs) => xs.iter().for_each(|x| x.walk(f)),
            E::Record(fs, base) => {
                fs.iter().for_each(|(_, v)| {
                    if let Some(v) = v {
                        v.walk(f)
                    }
                });
                if let Some(b) = base {
                    b.walk(f)
                }
            }
            E::Let(b, body) => {
                b.rhs.walk(f);
                body.walk(f);
            }
            E::Rec(bs, body) => {
                bs.iter().for_each(|b| b.rhs.walk(f));
                body.walk(f);
            }
            E::Type(_, body) => body.walk(f),
            E::Do(_, a, b) => {
                a.walk(f);
                b.walk(f);
            }
        }
    }
}

// ---------------------------------------------------------------------------------------------
// canonical rendering

use crate::real::hex;

pub fn show_lit(l: &Lit, out: &mut String) {
    match l {
        Lit::Int(i) => out.push_str(&format!("(int {})", i)),
        Lit::Byte(b) => out.push_str(&format!("(byte {})", b)),
        Lit::Float(f) => out.push_str(&format!("(float {:016x})", f.to_bits())),
        Lit::Str(s) => out.push_str(&format!("(str {})", hex(s.as_bytes()))),
        Lit::Char(c) => out.push_str(&format!("(char {})", *c as u32)),
    }
}

pub fn show_ty(t: &Ty, out: &mut String) {
    match t {
        Ty::Con(n) => out.push_str(n),
        Ty::Fun(a, b) => {
            out.push_str("(-> ");
            show_ty(a, out);
            out.push(' ');
            show_ty(b, out);
            out.push(')');
        }
        Ty::App(f, args) => {
            out.push_str(&format!("(tapp {}", f));
            for a in args {
                out.push(' ');
                show_ty(a, out);
            }
            out.push(')');
        }
        Ty::Rec(fs) => {
            out.push_str("(trec");
            for (n, t) in fs {
                out.push_str(&format!(" ({} ", n));
                show_ty(t, out);
                out.push(')');
            }
            out.push(')');
        }
    }
}

pub fn show_pat(p: &Pat, out: &mut String) {
    match p {
        Pat::Ident(x) => out.push_str(&format!("(pid {})", x)),
        Pat::Ctor(c, args) => {
            out.push_str(&format!("(pctor {}", c));
            for a in args {
                out.push(' ');
                show_pat(a, out);
            }
            out.push(')');
        }
        Pat::As(x, p) => {
            out.push_str(&format!("(pas {} ", x));
            show_pat(p, out);
            out.push(')');
        }
        Pat::Tuple(ps) => {
            out.push_str("(ptuple");
            for a in ps {
                out.push(' ');
                show_pat(a, out);
            }
            out.push(')');
        }
        Pat::Record(fs, imp) => {
            out.push_str("(prec");
            for (n, v) in fs {
                match v {
                    None if n.starts_with(char::is_uppercase) => out.push_str(&format!(" (tf {})", n)),
                    None => out.push_str(&format!(" ({})", n)),
                    Some(v) => {
                        out.push_str(&format!(" ({} ", n));
                        show_pat(v, out);
                        out.push(')');
                    }
                }
            }
            if *imp {
                out.push_str(" ?");
            }
            out.push(')');
        }
        Pat::Lit(l) => {
            out.push_str("(plit ");
            show_lit(l, out);
            out.push(')');
        }
    }
}

fn show_bind(b: &Bind, t: &[Op], out: &mut String) {
    out.push_str("(bind ");
    show_pat(&b.pat, out);
    out.push_str(" (");
    out.push_str(&b.args.join(" "));
    out.push_str(") ");
    match &b.typ {
        Some(t) => show_ty(t, out),
        None => out.push('-'),
    }
    out.push(' ');
    show(&b.rhs, t, out);
    out.push(')');
}

fn show_tybind(b: &TyBind, out: &mut String) {
    out.push_str(&format!("(tb {} ({}) ", b.name, b.params.join(" ")));
    match &b.body {
        TyBody::Alias(t) => show_ty(t, out),
        TyBody::Variant(vs) => {
            // grammar.lalrpop TypeBinding: a constructor `C t1 .. tn` becomes the field
            // `C : t1 -> .. -> tn -> <opaque>` of a variant row
            out.push_str("(tvar");
            for (c, args) in vs {
                out.push_str(&format!(" ({} ", c));
                for a in args {
                    out.push_str("(-> ");
                    show_ty(a, out);
                    out.push(' ');
                }
                out.push_str("<opaque>");
                for _ in args {
                    out.push(')');
                }
                out.push(')');
            }
            out.push(')');
        }
    }
    out.push(')');
}

pub fn show(e: &E, t: &[Op], out: &mut String) {
    match e {
        E::Ident(x) => out.push_str(&format!("(id {})", x)),
        E::Lit(l) => show_lit(l, out),
        E::App(f, args) => {
            out.push_str("(app ");
            show(f, t, out);
            for a in args {
                out.push(' ');
                show(a, t, out);
            }
            out.push(')');
        }
        E::Lambda(xs, b) => {
            out.push_str(&format!("(lam ({}) ", xs.join(" ")));
            show(b, t, out);
            out.push(')');
        }
        E::If(c, a, b) => {
            out.push_str("(if ");
            show(c, t, out);
            out.push(' ');
            show(a, t, out);
            out.push(' ');
            show(b, t, out);
            out.push(')');
        }
        E::Match(s, alts) => {
            out.push_str("(match ");
            show(s, t, out);
            for (p, x) in alts {
                out.push_str(" (alt ");
                show_pat(p, out);
                out.push(' ');
                show(x, t, out);
                out.push(')');
            }
            out.push(')');
        }
        E::Infix(l, o, r) => {
            out.push_str("(infix ");
            show(l, t, out);
            out.push_str(&format!(" {} ", t[*o].name));
            show(r, t, out);
            out.push(')');
        }
        E::Proj(b, f) => {
            out.push_str("(proj ");
            show(b, t, out);
            out.push_str(&format!(" {})", f));
        }
        E::Array(xs) => {
            out.push_str("(array");
            for x in xs {
                out.push(' ');
                show(x, t, out);
            }
            out.push(')');
        }
        E::Record(fs, base) => {
            out.push_str("(record");
            // the parser keeps type fields (uppercase, punned) in a separate array, printed first
            for (n, v) in fs {
                if v.is_none() && n.starts_with(char::is_uppercase) {
                    out.push_str(&format!(" (tf {})", n));
                }
            }
            for (n, v) in fs {
                match v {
                    None if n.starts_with(char::is_uppercase) => {}
                    None => out.push_str(&format!(" ({})", n)),
                    Some(v) => {
                        out.push_str(&format!(" ({} ", n));
                        show(v, t, out);
                        out.push(')');
                    }
                }
            }
            if let Some(b) = base {
                out.push_str(" (base ");
                show(b, t, out);
                out.push(')');
            }
            out.push(')');
        }
        E::Tuple(xs) => {
            out.push_str("(tuple");
            for x in xs {
                out.push(' ');
                show(x, t, out);
            }
            out.push(')');
        }
        E::Let(b, body) => {
            out.push_str("(let ");
            show_bind(b, t, out);
            out.push(' ');
            show(body, t, out);
            out.push(')');
        }
        E::Rec(bs, body) => {
            out.push_str("(rec");
            for b in bs {
                out.push(' ');
                show_bind(b, t, out);
            }
            out.push(' ');
            show(body, t, out);
            out.push(')');
        }
        E::Type(bs, body) => {
            out.push_str("(type");
            for b in bs {
                out.push(' ');
                show_tybind(b, out);
            }
            out.push(' ');
            show(body, t, out);
            out.push(')');
        }
        E::Block(xs) => {
            // grammar.lalrpop BlockExpr: e1; e2; ..; en  =  Do(e1, Do(e2, .. en)) without binder
            for x in &xs[..xs.len() - 1] {
                out.push_str("(seq ");
                show(x, t, out);
                out.push(' ');
            }
            show(&xs[xs.len() - 1], t, out);
            for _ in 1..xs.len() {
                out.push(')');
            }
        }
        E::Do(p, a, b) => {
            out.push_str("(do ");
            show_pat(p, out);
            out.push_str(" - ");
            show(a, t, out);
            out.push(' ');
            show(b, t, out);
            out.push(')');
        }
    }
}

// ---------------------------------------------------------------------------------------------
// generator

const VARS: &[&str] = &["x", "y", "z", "f", "g", "foo", "bar_1", "x'", "acc", "k2"];
const CTORS: &[&str] = &["A", "B", "Some", "None", "Cons", "Nil"];
const FIELDS: &[&str] = &["a", "b", "x", "len", "fld_2"];
const TYNAMES: &[&str] = &["T", "U", "Tree", "Opt"];
const TYVARS: &[&str] = &["a", "b", "s"];

pub struct Gen<'r> {
    pub rng: &'r mut Rng,
    pub ops: Vec<Op>,
    /// restrict operators to a conflict-free sub-table half of the time (long successful chains)
    pub op_pool: Vec<usize>,
}

impl<'r> Gen<'r> {
    pub fn new(rng: &'r mut Rng) -> Gen<'r> {
        let ops = table();
        let op_pool = (0..ops.len()).collect();
        Gen { rng, ops, op_pool }
    }
    fn pick<'a>(&mut self, xs: &'a [&'a str]) -> String {
        xs[self.rng.below(xs.len() as u64) as usize].to_string()
    }
    pub fn lit(&mut self) -> Lit {
        match self.rng.below(10) {
            0..=3 => Lit::Int(match self.rng.below(8) {
                0 => 0,
                1 => -(self.rng.below(100) as i64) - 1,
                2 => i64::MAX,
                3 => i64::MIN,
                4 => self.rng.below(1_000_000_000_000) as i64,
                _ => self.rng.below(100) as i64,
            }),
            4 => Lit::Float((self.rng.below(4000) as f64 - 1000.0) / 8.0),
            5 | 6 => {
                let n = self.rng.below(6);
                let mut s = String::new();
                for _ in 0..n {
                    s.push(*self.rng.pick(&['a', 'Z', ' ', '\n', '"', '\\', '\t', '0', '/', '*', '-', '(', '\'', '{', '|', 'é', '\r']));
                }
                Lit::Str(s)
            }
            7 => Lit::Char(*self.rng.pick(&['a', 'Q', '\n', '\'', '\\', '"', ' ', '\t', '0'])),
            _ => Lit::Byte(*self.rng.pick(&[0u8, 1, 7, 100, 255])),
        }
    }
    pub fn ty(&mut self, depth: u32) -> Ty {
        let k = if depth == 0 { self.rng.below(3) } else { self.rng.below(7) };
        match k {
            0 => Ty::Con(self.pick(&["Int", "Float", "String", "Char", "Byte"])),
            1 => Ty::Con(self.pick(TYNAMES)),
            2 => Ty::Con(self.pick(TYVARS)),
            3 | 4 => Ty::Fun(Box::new(self.ty(depth - 1)), Box::new(self.ty(depth - 1))),
            5 => {
                let n = 1 + self.rng.below(2);
                let f = self.pick(TYNAMES);
                Ty::App(f, (0..n).map(|_| self.ty(depth - 1)).collect())
            }
            _ => {
                let n = self.rng.below(3) as usize;
                let mut fs: Vec<(String, Ty)> = vec![];
                for i in 0..n {
                    fs.push((FIELDS[i].to_string(), self.ty(depth - 1)));
                }
                Ty::Rec(fs)
            }
        }
    }
    pub fn pat(&mut self, depth: u32) -> Pat {
        let k = if depth == 0 { self.rng.below(4) } else { self.rng.below(10) };
        match k {
            0 | 1 => Pat::Ident(self.pick(VARS)),
            2 => Pat::Ident("_".into()),
            3 => Pat::Lit(self.lit()),
            4 | 5 => {
                let c = self.pick(CTORS);
                let n = self.rng.below(3);
                Pat::Ctor(c, (0..n).map(|_| self.pat(depth - 1)).collect())
            }
            6 | 7 => {
                let n = self.rng.below(4) as usize;
                let mut fs = vec![];
                for i in 0..n {
                    if self.rng.chance(1, 8) {
                        fs.push((TYNAMES[i].to_string(), None));
                    } else if self.rng.chance(1, 2) {
                        fs.push((FIELDS[i].to_string(), None));
                    } else {
                        fs.push((FIELDS[i].to_string(), Some(self.pat(depth - 1))));
                    }
                }
                Pat::Record(fs, self.rng.chance(1, 6))
            }
            8 => {
                let n = *self.rng.pick(&[0usize, 2, 2, 3]);
                Pat::Tuple((0..n).map(|_| self.pat(depth - 1)).collect())
            }
            _ => {
                let x = self.pick(VARS);
                Pat::As(x, Box::new(self.pat(depth - 1)))
            }
        }
    }
    fn split(&mut self, budget: usize, parts: usize) -> Vec<usize> {
        // distribute `budget` size units over `parts` children (each >= 1 when budget allows)
        let mut v = vec![1usize; parts];
        let mut rest = budget.saturating_sub(parts);
        while rest > 0 {
            let i = self.rng.below(parts as u64) as usize;
            v[i] += 1;
            rest -= 1;
        }
        v
    }
    fn bind(&mut self, size: usize, rec: bool) -> Bind {
        let fun = self.rng.chance(1, 2);
        let (pat, args) = if fun {
            let n = 1 + self.rng.below(3);
            (Pat::Ident(self.pick(VARS)), (0..n).map(|_| self.pick(VARS)).collect())
        } else if rec {
            (Pat::Ident(self.pick(VARS)), vec![])
        } else {
            // `let <AtomicPattern> = ..`
            (self.pat(2), vec![])
        };
        let typ = if self.rng.chance(1, 4) { Some(self.ty(2)) } else { None };
        Bind { attr: None, pat, args, typ, rhs: self.expr(size, true) }
    }
    fn tybind(&mut self) -> TyBind {
        let name = self.pick(TYNAMES);
        let np = self.rng.below(3) as usize;
        let params = TYVARS[..np].iter().map(|s| s.to_string()).collect();
        let body = if self.rng.chance(1, 2) {
            let n = 1 + self.rng.below(3) as usize;
            TyBody::Variant(
                (0..n)
                    .map(|i| {
                        let k = self.rng.below(3);
                        (CTORS[i].to_string(), (0..k).map(|_| self.ty(0)).collect())
                    })
                    .collect(),
            )
        } else {
            TyBody::Alias(self.ty(2))
        };
        TyBind { name, params, body }
    }
    fn atom(&mut self) -> E {
        match self.rng.below(10) {
            0..=4 => E::Ident(self.pick(VARS)),
            5 => E::Ident(self.pick(CTORS)),
            6 => {
                let user: Vec<usize> = (0..self.ops.len()).filter(|i| self.ops[*i].user).collect();
                E::Ident(self.ops[*self.rng.pick(&user)].name.to_string())
            }
            _ => E::Lit(self.lit()),
        }
    }
    /// `blk`: a sequence may be generated here (a layout block starts at the first token)
    pub fn expr(&mut self, size: usize, blk: bool) -> E {
        if size <= 1 {
            return self.atom();
        }
        let n = size - 1;
        loop {
            let k = self.rng.below(22);
            return match k {
                0 | 1 => {
                    let na = (1 + self.rng.below(3) as usize).min(n.max(2) - 1).max(1);
                    let parts = self.split(n, na + 1);
                    let f = self.expr(parts[0], false);
                    E::App(Box::new(f), parts[1..].iter().map(|s| self.expr(*s, false)).collect())
                }
                2 => {
                    let na = 1 + self.rng.below(3);
                    E::Lambda((0..na).map(|_| self.pick(VARS)).collect(), Box::new(self.expr(n, true)))
                }
                3 => {
                    if n < 3 {
                        continue;
                    }
                    let p = self.split(n, 3);
                    E::If(Box::new(self.expr(p[0], false)), Box::new(self.expr(p[1], true)), Box::new(self.expr(p[2], true)))
                }
                4 | 5 => {
                    let na = (1 + self.rng.below(3) as usize).min(n.max(2) - 1).max(1);
                    let p = self.split(n, na + 1);
                    let s = self.expr(p[0], false);
                    E::Match(Box::new(s), p[1..].iter().map(|s| (self.pat(2), self.expr(*s, true))).collect())
                }
                6..=9 => {
                    if n < 2 {
                        continue;
                    }
                    let p = self.split(n, 2);
                    let o = *self.rng.pick(&self.op_pool.clone());
                    E::Infix(Box::new(self.expr(p[0], false)), o, Box::new(self.expr(p[1], false)))
                }
                10 => E::Proj(Box::new(self.expr(n, false)), self.pick(FIELDS)),
                11 => {
                    let na = self.rng.below(4).min(n as u64) as usize;
                    if na == 0 {
                        E::Array(vec![])
                    } else {
                        let p = self.split(n, na);
                        E::Array(p.iter().map(|s| self.expr(*s, false)).collect())
                    }
                }
                12 | 13 => {
                    let nf = (self.rng.below(4) as usize).min(n);
                    let with_base = nf < n && self.rng.chance(1, 4);
                    let parts = if nf + with_base as usize == 0 { vec![] } else { self.split(n, nf + with_base as usize) };
                    let mut fs = vec![];
                    for i in 0..nf {
                        if self.rng.chance(1, 4) {
                            fs.push((FIELDS[i].to_string(), None));
                        } else if self.rng.chance(1, 10) {
                            fs.push((TYNAMES[i].to_string(), None));
                        } else {
                            fs.push((FIELDS[i].to_string(), Some(self.expr(parts[i], false))));
                        }
                    }
                    let base = if with_base { Some(Box::new(self.expr(parts[nf], false))) } else { None };
                    E::Record(fs, base)
                }
                14 => {
                    let na = *self.rng.pick(&[0usize, 2, 2, 3]);
                    if na == 0 {
                        E::Tuple(vec![])
                    } else {
                        let p = self.split(n, na);
                        E::Tuple(p.iter().map(|s| self.expr(*s, false)).collect())
                    }
                }
                15 | 16 => {
                    if n < 2 {
                        continue;
                    }
                    let p = self.split(n, 2);
                    let b = self.bind(p[0], false);
                    E::Let(Box::new(b), Box::new(self.expr(p[1], blk)))
                }
                17 => {
                    if n < 2 {
                        continue;
                    }
                    let nb = (1 + self.rng.below(3) as usize).min(n - 1);
                    let p = self.split(n, nb + 1);
                    let bs = (0..nb).map(|i| self.bind(p[i], true)).collect();
                    E::Rec(bs, Box::new(self.expr(p[nb], blk)))
                }
                18 => {
                    let nb = 1 + self.rng.below(2) as usize;
                    let mut bs: Vec<TyBind> = vec![];
                    for _ in 0..nb {
                        let b = self.tybind();
                        if !bs.iter().any(|x| x.name == b.name) {
                            bs.push(b);
                        }
                    }
                    E::Type(bs, Box::new(self.expr(n, blk)))
                }
                19 | 20 => {
                    if !blk || n < 2 {
                        continue;
                    }
                    let na = (2 + self.rng.below(2) as usize).min(n);
                    let p = self.split(n, na);
                    let mut xs = vec![];
                    for (i, s) in p.iter().enumerate() {
                        let last = i + 1 == na;
                        // a binding form that is not the last statement has to be parenthesised by
                        // the printer, so its body cannot be a sequence; the last statement is
                        // still at the block column
                        let mut x = self.expr(*s, last);
                        while matches!(x, E::Block(_)) {
                            x = self.expr(*s, false);
                        }
                        xs.push(x);
                    }
                    E::Block(xs)
                }
                _ => {
                    if n < 2 {
                        continue;
                    }
                    let p = self.split(n, 2);
                    let pt = self.pat(1);
                    E::Do(pt, Box::new(self.expr(p[0], true)), Box::new(self.expr(p[1], blk)))
                }
            };
        }
    }

    /// A whole program: declarations of the user operators the body uses, then the body.
    pub fn program(&mut self, size: usize) -> E {
        // half of the programs draw operators from a conflict-free sub-table
        self.op_pool = if self.rng.chance(1, 2) {
            (0..self.ops.len())
                .filter(|i| {
                    let o = &self.ops[*i];
                    match o.prec {
                        5 | 6 | 7 | 4 => o.left,
                        _ => !o.left,
                    }
                })
                .collect()
        } else {
            (0..self.ops.len()).collect()
        };
        let body = self.expr(size, true);
        wrap_prelude(body, &self.ops)
    }
}

/// `#[infix(..)] let (op) l r = l` for every user operator the expression mentions.
pub fn wrap_prelude(body: E, ops: &[Op]) -> E {
    let mut used = vec![false; ops.len()];
    body.walk(&mut |e| match e {
        E::Infix(_, o, _) => used[*o] = true,
        E::Ident(x) => {
            if let Some(i) = ops.iter().position(|o| o.name == x) {
                used[i] = true
            }
        }
        _ => {}
    });
    let mut e = body;
    for i in (0..ops.len()).rev() {
        if used[i] && ops[i].user {
            let b = Bind {
                attr: Some((ops[i].left, ops[i].prec)),
                pat: Pat::Ident(ops[i].name.to_string()),
                args: vec!["l".into(), "r".into()],
                typ: None,
                rhs: E::Ident("l".into()),
            };
            e = E::Let(Box::new(b), Box::new(e));
        }
    }
    e
}

// ---------------------------------------------------------------------------------------------
// shrinking (used only after a round trip failed, to name the failing construct)

fn x() -> E {
    E::Ident("x".into())
}

fn without<T: Clone>(v: &[T], i: usize) -> Vec<T> {
    let mut w = v.to_vec();
    w.remove(i);
    w
}

fn with<T: Clone>(v: &[T], i: usize, t: T) -> Vec<T> {
    let mut w = v.to_vec();
    w[i] = t;
    w
}

fn simple_bind(b: &Bind) -> Vec<Bind> {
    let mut out = vec![];
    if b.typ.is_some() {
        out.push(Bind { typ: None, ..b.clone() });
    }
    if !b.args.is_empty() {
        out.push(Bind { args: vec![], ..b.clone() });
    }
    if !matches!(&b.pat, Pat::Ident(_)) {
        out.push(Bind { pat: Pat::Ident("x".into()), ..b.clone() });
    }
    for r in reductions(&b.rhs) {
        out.push(Bind { rhs: r, ..b.clone() });
    }
    out
}

/// All one-step reductions of `e` (each strictly simpler).  Sequences stay sequences of at least
/// two non-sequence statements, tuples never get exactly one element.
pub fn reductions(e: &E) -> Vec<E> {
    let mut out: Vec<E> = vec![];
    let atom = matches!(e, E::Ident(_) | E::Lit(_));
    if !atom {
        out.push(x());
    } else if !matches!(e, E::Ident(n) if n == "x") {
        out.push(x());
        return out;
    } else {
        return out;
    }
    let bx = |e: E| Box::new(e);
    match e {
        E::Ident(_) | E::Lit(_) => {}
        E::App(f, args) => {
            out.push((**f).clone());
            out.extend(args.iter().cloned());
            if args.len() > 1 {
                for i in 0..args.len() {
                    out.push(E::App(f.clone(), without(args, i)));
                }
            }
            for r in reductions(f) {
                out.push(E::App(bx(r), args.clone()));
            }
            for (i, a) in args.iter().enumerate() {
                for r in reductions(a) {
                    out.push(E::App(f.clone(), with(args, i, r)));
                }
            }
        }
        E::Lambda(xs, b) => {
            out.push((**b).clone());
            if xs.len() > 1 {
                out.push(E::Lambda(vec![xs[0].clone()], b.clone()));
            }
            for r in reductions(b) {
                out.push(E::Lambda(xs.clone(), bx(r)));
            }
        }
        E::If(c, a, b) => {
            out.push((**c).clone());
            for y in [a, b] {
                out.push((**y).clone());
            }
            for r in reductions(c) {
                out.push(E::If(bx(r), a.clone(), b.clone()));
            }
            for r in reductions(a) {
                out.push(E::If(c.clone(), bx(r), b.clone()));
            }
            for r in reductions(b) {
                out.push(E::If(c.clone(), a.clone(), bx(r)));
            }
        }
        E::Match(s, alts) => {
            out.push((**s).clone());
            for (_, b) in alts {
                out.push(b.clone());
            }
            if alts.len() > 1 {
                for i in 0..alts.len() {
                    out.push(E::Match(s.clone(), without(alts, i)));
                }
            }
            for r in reductions(s) {
                out.push(E::Match(bx(r), alts.clone()));
            }
            for (i, (p, b)) in alts.iter().enumerate() {
                if !matches!(p, Pat::Ident(_)) {
                    out.push(E::Match(s.clone(), with(alts, i, (Pat::Ident("x".into()), b.clone()))));
                }
                for r in reductions(b) {
                    out.push(E::Match(s.clone(), with(alts, i, (p.clone(), r))));
                }
            }
        }
        E::Infix(l, o, r) => {
            out.push((**l).clone());
            out.push((**r).clone());
            for y in reductions(l) {
                out.push(E::Infix(bx(y), *o, r.clone()));
            }
            for y in reductions(r) {
                out.push(E::Infix(l.clone(), *o, bx(y)));
            }
        }
        E::Proj(b, f) => {
            out.push((**b).clone());
            for y in reductions(b) {
                out.push(E::Proj(bx(y), f.clone()));
            }
        }
        E::Array(xs) | E::Tuple(xs) => {
            let tuple = matches!(e, E::Tuple(_));
            let mk = |v: Vec<E>| if tuple { E::Tuple(v) } else { E::Array(v) };
            out.extend(xs.iter().cloned());
            for i in 0..xs.len() {
                if !(tuple && xs.len() == 2) {
                    out.push(mk(without(xs, i)));
                }
                for y in reductions(&xs[i]) {
                    out.push(mk(with(xs, i, y)));
                }
            }
        }
        E::Record(fs, base) => {
            for (_, v) in fs {
                if let Some(v) = v {
                    out.push(v.clone());
                }
            }
            if let Some(b) = base {
                out.push((**b).clone());
                out.push(E::Record(fs.clone(), None));
                for y in reductions(b) {
                    out.push(E::Record(fs.clone(), Some(bx(y))));
                }
            }
            for (i, (n, v)) in fs.iter().enumerate() {
                out.push(E::Record(without(fs, i), base.clone()));
                if let Some(v) = v {
                    for y in reductions(v) {
                        out.push(E::Record(with(fs, i, (n.clone(), Some(y))), base.clone()));
                    }
                }
            }
        }
        E::Let(b, body) => {
            out.push((**body).clone());
            out.push(b.rhs.clone());
            if b.attr.is_none() {
                for nb in simple_bind(b) {
                    out.push(E::Let(bx_bind(nb), body.clone()));
                }
            }
            for y in reductions(body) {
                out.push(E::Let(b.clone(), bx(y)));
            }
        }
        E::Rec(bs, body) => {
            out.push((**body).clone());
            if bs.len() > 1 {
                for i in 0..bs.len() {
                    out.push(E::Rec(without(bs, i), body.clone()));
                }
            }
            for (i, b) in bs.iter().enumerate() {
                for nb in simple_bind(b) {
                    out.push(E::Rec(with(bs, i, nb), body.clone()));
                }
            }
            for y in reductions(body) {
                out.push(E::Rec(bs.clone(), bx(y)));
            }
        }
        E::Type(bs, body) => {
            out.push((**body).clone());
            if bs.len() > 1 {
                for i in 0..bs.len() {
                    out.push(E::Type(without(bs, i), body.clone()));
                }
            }
            for (i, b) in bs.iter().enumerate() {
                let simple = TyBind { name: b.name.clone(), params: vec![], body: TyBody::Alias(Ty::Con("Int".into())) };
                if !b.params.is_empty() || !matches!(&b.body, TyBody::Alias(Ty::Con(_))) {
                    out.push(E::Type(with(bs, i, simple), body.clone()));
                }
            }
            for y in reductions(body) {
                out.push(E::Type(bs.clone(), bx(y)));
            }
        }
        E::Block(xs) => {
            for y in xs {
                out.push(y.clone());
            }
            if xs.len() > 2 {
                for i in 0..xs.len() {
                    out.push(E::Block(without(xs, i)));
                }
            }
            for (i, y) in xs.iter().enumerate() {
                for r in reductions(y) {
                    if !matches!(r, E::Block(_)) && (i + 1 == xs.len() || !r.needs_block()) {
                        out.push(E::Block(with(xs, i, r)));
                    }
                }
            }
        }
        E::Do(p, a, b) => {
            out.push((**b).clone());
            out.push((**a).clone());
            if !matches!(p, Pat::Ident(_)) {
                out.push(E::Do(Pat::Ident("x".into()), a.clone(), b.clone()));
            }
            for y in reductions(a) {
                out.push(E::Do(p.clone(), bx(y), b.clone()));
            }
            for y in reductions(b) {
                out.push(E::Do(p.clone(), a.clone(), bx(y)));
            }
        }
    }
    out
}

fn bx_bind(b: Bind) -> Box<Bind> {
    Box::new(b)
}

/// The kinds of the nodes of `e`, e.g. `block(if(ident,ident,ident),ident)`.
pub fn shape(e: &E) -> String {
    let mut kids: Vec<String> = vec![];
    match e {
        E::Ident(_) | E::Lit(_) => {}
        E::App(f, a) => {
            kids.push(shape(f));
            kids.extend(a.iter().map(shape));
        }
        E::Lambda(_, b) => kids.push(shape(b)),
        E::If(a, b, c) => kids.extend([a, b, c].iter().map(|y| shape(y))),
        E::Match(s, alts) => {
            kids.push(shape(s));
            kids.extend(alts.iter().map(|(_, b)| shape(b)));
        }
        E::Infix(l, _, r) => {
            kids.push(shape(l));
            kids.push(shape(r));
        }
        E::Proj(b, _) => kids.push(shape(b)),
        E::Array(xs) | E::Tuple(xs) | E::Block(xs) => kids.extend(xs.iter().map(shape)),
        E::Record(fs, base) => {
            for (n, v) in fs {
                kids.push(match v {
                    Some(v) => shape(v),
                    None if n.starts_with(char::is_uppercase) => "type-field".into(),
                    None => "pun".into(),
                });
            }
            if let Some(b) = base {
                kids.push(format!("base:{}", shape(b)));
            }
        }
        E::Let(b, body) => {
            kids.push(shape(&b.rhs));
            kids.push(shape(body));
        }
        E::Rec(bs, body) => {
            kids.extend(bs.iter().map(|b| shape(&b.rhs)));
            kids.push(shape(body));
        }
        E::Type(_, body) => kids.push(shape(body)),
        E::Do(_, a, b) => {
            kids.push(shape(a));
            kids.push(shape(b));
        }
    }
    if kids.is_empty() { e.kind().to_string() } else { format!("{}({})", e.kind(), kids.join(",")) }
}

/// Strip the operator declarations `wrap_prelude` added.
pub fn strip_prelude(e: &E) -> &E {
    let mut cur = e;
    loop {
        match cur {
            E::Let(b, body) if b.attr.is_some() => cur = body,
            _ => return cur,
        }
    }
}

/// The generator's discipline (see `Gen::expr`): a sequence only where a layout block starts at
/// its first token; statements of a sequence are not sequences; a binding form that is not the
/// last statement has no sequence as its body.  `reductions` may produce trees outside of it.
pub fn valid(e: &E, blk: bool) -> bool {
    match e {
        E::Ident(_) | E::Lit(_) => true,
        E::App(f, a) => valid(f, false) && a.iter().all(|y| valid(y, false)),
        E::Lambda(_, b) => valid(b, true),
        E::If(c, a, b) => valid(c, false) && valid(a, true) && valid(b, true),
        E::Match(s, alts) => valid(s, false) && alts.iter().all(|(_, b)| valid(b, true)),
        E::Infix(l, _, r) => valid(l, false) && valid(r, false),
        E::Proj(b, _) => valid(b, false),
        E::Array(xs) => xs.iter().all(|y| valid(y, false)),
        E::Tuple(xs) => xs.len() != 1 && xs.iter().all(|y| valid(y, false)),
        E::Record(fs, base) => {
            fs.iter().all(|(_, v)| v.as_ref().map_or(true, |v| valid(v, false))) && base.as_ref().map_or(true, |b| valid(b, false))
        }
        E::Let(b, body) => valid(&b.rhs, true) && valid(body, blk),
        E::Rec(bs, body) => bs.iter().all(|b| valid(&b.rhs, true)) && valid(body, blk),
        E::Type(_, body) => valid(body, blk),
        E::Do(_, a, b) => valid(a, true) && valid(b, blk),
        E::Block(xs) => {
            blk && xs.len() >= 2
                && xs.iter().enumerate().all(|(i, y)| !matches!(y, E::Block(_)) && valid(y, i + 1 == xs.len()))
        }
    }
}

// ---------------------------------------------------------------------------------------------
// exhaustive enumeration: ALL ASTs with at most `max` nodes over a small alphabet
//
// alphabet: atoms x, y, 1 (first `na` of them); operators +++ (infixl 5), *** (infixr 5),
// <<< (infixl 7) (first `no`); patterns x and `A y`; one field name `a`; one type `T = Int`.
// Constructs: application (1 or 2 arguments), lambda, if, match (1 or 2 alternatives), infix,
// projection, array (0..2), tuple (0, 2), record ({}, pun, field, field + base), let (value and
// function binding), rec let, type, sequence (2 or 3 statements), do.  The generator's discipline
// (`valid`) applies: sequences only where a layout block starts.

pub struct Enumerator {
    pub na: usize,
    pub no: usize,
    memo: std::collections::HashMap<(usize, bool), std::rc::Rc<Vec<E>>>,
}

impl Enumerator {
    pub fn new(na: usize, no: usize) -> Enumerator {
        Enumerator { na, no, memo: Default::default() }
    }
    fn ops(&self) -> Vec<usize> {
        // indices into `table()`: +++ = 0, *** = 2, <<< = 6
        [0usize, 2, 6][..self.no].to_vec()
    }
    /// all expressions with exactly `n` nodes; `blk`: a sequence may stand here
    pub fn exact(&mut self, n: usize, blk: bool) -> std::rc::Rc<Vec<E>> {
        if let Some(v) = self.memo.get(&(n, blk)) {
            return v.clone();
        }
        let mut out: Vec<E> = vec![];
        let bx = |e: &E| Box::new(e.clone());
        if n == 1 {
            let atoms = [E::Ident("x".into()), E::Ident("y".into()), E::Lit(Lit::Int(1))];
            out.extend(atoms[..self.na].iter().cloned());
            out.push(E::Array(vec![]));
            out.push(E::Tuple(vec![]));
            out.push(E::Record(vec![], None));
            out.push(E::Record(vec![("a".into(), None)], None));
        } else {
            let m = n - 1;
            let pats = [Pat::Ident("x".into()), Pat::Ctor("A".into(), vec![Pat::Ident("y".into())])];
            // ---- one child
            for b in self.exact(m, true).iter() {
                out.push(E::Lambda(vec!["x".into()], bx(b)));
            }
            for b in self.exact(m, false).iter() {
                out.push(E::Proj(bx(b), "a".into()));
                out.push(E::Array(vec![b.clone()]));
                out.push(E::Record(vec![("a".into(), Some(b.clone()))], None));
            }
            for b in self.exact(m, blk).iter() {
                out.push(E::Type(vec![TyBind { name: "T".into(), params: vec![], body: TyBody::Alias(Ty::Con("Int".into())) }], bx(b)));
            }
            // ---- two children
            for i in 1..m {
                let j = m - i;
                let (l_nb, r_nb) = (self.exact(i, false), self.exact(j, false));
                let (l_b, r_b) = (self.exact(i, true), self.exact(j, true));
                let r_in = self.exact(j, blk);
                for a in l_nb.iter() {
                    for b in r_nb.iter() {
                        out.push(E::App(bx(a), vec![b.clone()]));
                        for o in self.ops() {
                            out.push(E::Infix(bx(a), o, bx(b)));
                        }
                        out.push(E::Array(vec![a.clone(), b.clone()]));
                        out.push(E::Tuple(vec![a.clone(), b.clone()]));
                        out.push(E::Record(vec![("a".into(), Some(a.clone()))], Some(bx(b))));
                    }
                    for b in r_b.iter() {
                        for p in &pats {
                            out.push(E::Match(bx(a), vec![(p.clone(), b.clone())]));
                        }
                    }
                }
                for a in l_b.iter() {
                    for b in r_in.iter() {
                        out.push(E::Let(Box::new(Bind { attr: None, pat: Pat::Ident("x".into()), args: vec![], typ: None, rhs: a.clone() }), bx(b)));
                        out.push(E::Let(Box::new(Bind { attr: None, pat: Pat::Ident("f".into()), args: vec!["x".into()], typ: None, rhs: a.clone() }), bx(b)));
                        out.push(E::Rec(vec![Bind { attr: None, pat: Pat::Ident("f".into()), args: vec!["x".into()], typ: None, rhs: a.clone() }], bx(b)));
                        out.push(E::Do(Pat::Ident("x".into()), bx(a), bx(b)));
                    }
                }
                if blk {
                    // a two-statement sequence: the first statement is not a sequence and, when it
                    // is a binding form, has no sequence as its body; the last one may be either
                    for a in l_nb.iter() {
                        for b in r_b.iter() {
                            if !matches!(b, E::Block(_)) {
                                out.push(E::Block(vec![a.clone(), b.clone()]));
                            }
                        }
                    }
                }
            }
            // ---- three children
            if m >= 3 {
                for i in 1..m - 1 {
                    for j in 1..m - i {
                        let k = m - i - j;
                        let (c_nb, a_b, b_b) = (self.exact(i, false), self.exact(j, true), self.exact(k, true));
                        let (a_nb, b_nb) = (self.exact(j, false), self.exact(k, false));
                        for c in c_nb.iter() {
                            for a in a_b.iter() {
                                for b in b_b.iter() {
                                    out.push(E::If(bx(c), bx(a), bx(b)));
                                    out.push(E::Match(bx(c), vec![(pats[0].clone(), a.clone()), (pats[1].clone(), b.clone())]));
                                }
                            }
                            for a in a_nb.iter() {
                                for b in b_nb.iter() {
                                    out.push(E::App(bx(c), vec![a.clone(), b.clone()]));
                                }
                                if blk {
                                    for b in b_b.iter() {
                                        if !matches!(b, E::Block(_)) {
                                            out.push(E::Block(vec![c.clone(), a.clone(), b.clone()]));
                                        }
                                    }
                                }
                            }
                        }
                    }
                }
            }
        }
        debug_assert!(out.iter().all(|e| valid(e, blk)));
        let v = std::rc::Rc::new(out);
        self.memo.insert((n, blk), v.clone());
        v
    }
    /// all programs (top level: a block may start) with at most `max` nodes
    pub fn upto(&mut self, max: usize) -> Vec<E> {
        let mut out = vec![];
        for n in 1..=max {
            out.extend(self.exact(n, true).iter().cloned());
        }
        out
    }
}
