//! C08 round trip / span / layout harness.
//!
//!   ast.rs    generated expression ASTs, their canonical rendering (the oracle), the generator
//!   print.rs  the printer: four concrete styles
//!   real.rs   the real parser + infix re-association, canonical rendering of its tree, span tree
//!             and token stream export
//!
//! Output files in --out:
//!   rt_expected.txt / rt_impl.txt   canonical tree of the generated AST / of the parsed source,
//!                                   one line per (program, style)
//!   rt_cases.txt                    `<style>\t<construct>\t<source as JSON string>` per line
//!   span_in.txt                     input lines for the extracted span checker (`S <hex source>;<tree>`)
//!   span_cases.txt                  what each span line is (generated case index / file path)
//!   lay_in.txt                      input lines for the extracted layout checker
//!                                   (`L <flags>;<raw tokens>;<layout tokens>`)
//!   lay_cases.txt                   what each layout line is
//!   laym_in.txt / laym_expected.txt input of the layout MODEL (`M (tk code line col lo hi)*`) and the
//!                                   real layout output (`ok|err (code lo hi)*`); laym_cases.txt
//!   stats.json
mod ast;
mod print;
mod real;

use gvh::out::{Args, Hist, fnv};
use gvh::rng::Rng;
use print::Style;
use std::io::{Read, Write};

const STYLES: [Style; 4] = [Style::S1, Style::S2, Style::S3, Style::S4];

fn probe(src: &str) {
    let (raw, nerr) = real::raw_tokens(src);
    println!("raw tokens ({} side errors){}:", nerr, raw.error.as_ref().map(|e| format!(" ERROR {}", e)).unwrap_or_default());
    let mut line = String::new();
    for (i, d) in raw.debug.iter().enumerate() {
        line.push_str(&format!("{}@{}..{} ", d, raw.toks[i].1, raw.toks[i].2));
    }
    println!("  {}", line);
    let lay = real::layout_tokens(src);
    println!("layout tokens{}:", lay.error.as_ref().map(|e| format!(" ERROR {}", e)).unwrap_or_default());
    let mut line = String::new();
    for (i, d) in lay.debug.iter().enumerate() {
        line.push_str(&format!("{}@{}..{} ", d, lay.toks[i].1, lay.toks[i].2));
    }
    println!("  {}", line);
    let p = real::parse(src, true);
    println!("parse errors: {:?}", p.errors);
    println!("infix errors: {:?}", p.infix_errors);
    if let Some(root) = &p.root {
        let mut s = String::new();
        real::show(root.expr(), &mut s);
        println!("tree: {}", s);
        let mut o = real::SpanOut::new(1);
        real::span_expr(root.expr(), &mut o);
        println!("spans: {}", o.s);
    }
}

/// Parse with the real parser; canonical line.
fn run_impl(src: &str) -> (String, Option<String>, real::Parsed) {
    let r = std::panic::catch_unwind(|| real::parse(src, true));
    match r {
        Err(_) => ("panic".into(), None, real::Parsed { root: None, errors: vec!["panic".into()], infix_errors: vec![] }),
        Ok(p) => {
            if !p.errors.is_empty() {
                (format!("parse-error {}", p.errors[0].replace('\n', " | ")), None, p)
            } else if !p.infix_errors.is_empty() {
                (format!("infix-error {}", p.infix_errors[0].replace('\n', " | ")), None, p)
            } else {
                let root = p.root.as_ref().unwrap();
                let mut s = String::new();
                real::show(root.expr(), &mut s);
                let mut o = real::SpanOut::new(1);
                real::span_expr(root.expr(), &mut o);
                (s, Some(o.s), p)
            }
        }
    }
}

/// the outermost construct of the program (below the operator declarations)
fn construct_of(e: &ast::E) -> &'static str {
    ast::strip_prelude(e).kind()
}

/// Does the round trip of `body` (+ operator declarations) fail in `style`?  Tries several
/// printer seeds; returns the first failing (source, expected, observed).
fn fails_in(body: &ast::E, style: Style, ops: &[ast::Op], seed: u64) -> Option<(String, String, String)> {
    let prog = ast::wrap_prelude(body.clone(), ops);
    let mut expected = String::new();
    ast::show(&prog, ops, &mut expected);
    for k in 0..6 {
        let mut rng = Rng::new(seed.wrapping_add(k * 7919));
        let src = print::Printer::new(style, &mut rng).program(&prog);
        let (line, _, _) = run_impl(&src);
        if line != expected {
            return Some((src, expected, line));
        }
    }
    None
}

/// Greedy shrinking of a failing program: the result names the failing construct.
fn shrink(prog: &ast::E, style: Style, ops: &[ast::Op], first: (String, String, String), total: &mut u64) -> (ast::E, (String, String, String)) {
    let mut cur = ast::strip_prelude(prog).clone();
    let mut witness = first;
    let mut budget = 3000;
    'outer: loop {
        let mut cands: Vec<ast::E> = ast::reductions(&cur).into_iter().filter(|c| ast::valid(c, true)).collect();
        cands.sort_by_key(|c| c.size());
        for c in cands {
            if budget == 0 || *total == 0 {
                break 'outer;
            }
            budget -= 1;
            *total -= 1;
            if c.size() >= cur.size() && !(c.size() == cur.size() && ast::shape(&c) != ast::shape(&cur)) {
                // only strictly smaller candidates (same-size rewrites to `x` of atoms excepted)
                if c.size() > cur.size() {
                    continue;
                }
            }
            if let Some(w) = fails_in(&c, style, ops, 12345) {
                // progress measure: (size, number of non-`x` atoms)
                let measure = |e: &ast::E| {
                    let mut n = 0;
                    e.walk(&mut |y| {
                        if !matches!(y, ast::E::Ident(v) if v == "x") {
                            n += 1
                        }
                    });
                    (e.size(), n)
                };
                if measure(&c) < measure(&cur) {
                    cur = c;
                    witness = w;
                    continue 'outer;
                }
            }
        }
        break;
    }
    (cur, witness)
}

fn lay_line(src: &str, parsed_ok: bool) -> (String, bool) {
    let (raw, nerr) = real::raw_tokens(src);
    let lay = real::layout_tokens(src);
    // flags: 1 = the run ended without error (tokenizer and layout) -> balance is demanded as well
    let clean = raw.error.is_none() && lay.error.is_none() && nerr == 0 && parsed_ok;
    (format!("L {};{};{}", if clean { 1 } else { 0 }, real::toks_line(&raw), real::toks_line(&lay)), clean)
}

fn glu_files(root: &str) -> Vec<std::path::PathBuf> {
    let mut out = vec![];
    let mut stack = vec![std::path::PathBuf::from(root)];
    while let Some(d) = stack.pop() {
        let rd = match std::fs::read_dir(&d) {
            Ok(r) => r,
            Err(_) => continue,
        };
        for ent in rd.flatten() {
            let p = ent.path();
            let name = p.file_name().and_then(|s| s.to_str()).unwrap_or("").to_string();
            if p.is_dir() {
                if name == "target" || name == ".git" || name == "node_modules" {
                    continue;
                }
                stack.push(p);
            } else if name.ends_with(".glu") {
                out.push(p);
            }
        }
    }
    out.sort();
    out
}

fn main() {
    let args = Args::parse();
    if args.rest.iter().any(|a| a == "probe") {
        let mut src = String::new();
        std::io::stdin().read_to_string(&mut src).unwrap();
        probe(&src);
        return;
    }
    // silence the panic message of caught panics (they are reported as results)
    std::panic::set_hook(Box::new(|_| {}));
    let ops = ast::table();

    if let Some(path) = &args.replay {
        let v: serde_json::Value = serde_json::from_str(&std::fs::read_to_string(path).expect("replay file")).expect("json");
        let src = v["case"]["source"].as_str().expect("case.source").to_string();
        println!("source:\n{}", src);
        let (line, _, _) = run_impl(&src);
        println!("impl: {}", line);
        println!("expected: {}", v["expected"].as_str().unwrap_or("?"));
        probe(&src);
        return;
    }

    let dump = args.rest.iter().any(|a| a == "dump");
    let mut rng = Rng::new(args.seed);
    let n_programs: usize = args.extra.get("n").and_then(|s| s.parse().ok()).unwrap_or(if args.thorough() { 60000 } else { 12000 });
    let max_size: usize = args.extra.get("size").and_then(|s| s.parse().ok()).unwrap_or(if args.thorough() { 14 } else { 10 });

    let mut f_exp = args.file("rt_expected.txt");
    let mut f_impl = args.file("rt_impl.txt");
    let mut f_cases = args.file("rt_cases.txt");
    let mut f_fail = args.file("rt_fail.jsonl");
    let mut f_span = args.file("span_in.txt");
    let mut f_spanc = args.file("span_cases.txt");
    let mut f_lay = args.file("lay_in.txt");
    let mut f_layc = args.file("lay_cases.txt");
    let mut f_laym = args.file("laym_in.txt");
    let mut f_layme = args.file("laym_expected.txt");
    let mut f_laymc = args.file("laym_cases.txt");
    let mut n_laym = 0u64;
    let mut hist = Hist::default();
    let mut distinct = std::collections::HashSet::new();
    let mut n_rt = 0u64;
    let mut n_rt_nontrivial = 0u64;
    let mut n_span = 0u64;
    let mut n_span_nodes = 0u64;
    let mut n_span_leaves = 0u64;
    let mut n_lay = 0u64;
    let mut n_lay_clean = 0u64;
    let mut n_virtual = 0u64;
    let mut rt_mismatch = 0u64;
    let mut n_corpus = 0u64;
    // every failing case is minimised (its shape is the violation key) until this many candidate
    // evaluations have been spent; later failures are only counted
    let mut shrink_total = 250_000u64;
    let mut n_unshrunk = 0u64;

    // ---- corpus: hand-picked sources with their expected tree (corpus/C08/<name>.glu + <name>.tree), run first ----
    let corpus_dir = concat!(env!("CARGO_MANIFEST_DIR"), "/../corpus/C08");
    for f in glu_files(corpus_dir) {
        let (src, tree) = match (std::fs::read_to_string(&f), std::fs::read_to_string(f.with_extension("tree"))) {
            (Ok(s), Ok(t)) => (s, t.trim().to_string()),
            _ => continue,
        };
        let stem = f.file_stem().and_then(|s| s.to_str()).unwrap_or("?").to_string();
        let (line, _, _) = run_impl(&src);
        if line != tree {
            rt_mismatch += 1;
            writeln!(
                f_fail,
                "{}",
                serde_json::json!({"key": format!("roundtrip:corpus:{}", stem), "style": "corpus", "source": src, "expected": tree,
                                   "observed": line, "original_source": src, "case": n_rt})
            )
            .unwrap();
        }
        writeln!(f_exp, "{}", tree).unwrap();
        writeln!(f_impl, "{}", line).unwrap();
        writeln!(f_cases, "corpus\t{}\t{}", stem, serde_json::to_string(&src).unwrap()).unwrap();
        n_rt += 1;
        n_corpus += 1;
        hist.add("style:corpus");
    }
    // ---- generated programs: first the exhaustive family (every AST with at most `exh_size` nodes over
    // the small alphabet of ast::Enumerator), then the random ones ----
    let exh_size: usize = args.extra.get("exh").and_then(|s| s.parse().ok()).unwrap_or(4);
    let (exh_atoms, exh_ops) = (3usize, 3usize);
    let mut exhaustive: Vec<ast::E> = if exh_size == 0 { vec![] } else { ast::Enumerator::new(exh_atoms, exh_ops).upto(exh_size) };
    // thorough: additionally every AST with exactly exh_size + 1 nodes over the smaller alphabet (2 atoms,
    // 2 operators); these only take part in the round trip (no span / token stream export)
    let n_full_export = exhaustive.len();
    let exh_deep = exh_size > 0 && args.thorough() && !args.extra.contains_key("nodeep");
    if exh_deep {
        exhaustive.extend(ast::Enumerator::new(2, 2).exact(exh_size + 1, true).iter().cloned());
    }
    let n_exhaustive = exhaustive.len();
    let mut n_exh_cases = 0u64;
    let mut n_exh_mismatch = 0u64;
    for i in 0..(n_exhaustive + n_programs) {
        let is_exh = i < n_exhaustive;
        let size = 1 + (i % max_size) + if rng.chance(1, 10) { rng.below(6) as usize } else { 0 };
        let prog = if is_exh {
            ast::wrap_prelude(exhaustive[i].clone(), &ops)
        } else {
            let mut g = ast::Gen::new(&mut rng);
            g.program(size)
        };
        hist.add(if is_exh { "family:exhaustive" } else { "family:random" });
        let mut expected = String::new();
        ast::show(&prog, &ops, &mut expected);
        let construct = construct_of(&prog);
        hist.add(&format!("construct:{}", construct));
        hist.add(&format!("size:{}", prog.size().min(20)));
        prog.walk(&mut |e| hist.add(&format!("node:{}", e.kind())));
        for style in STYLES {
            let src = print::Printer::new(style, &mut rng).program(&prog);
            if dump {
                println!("=== #{} {} size {}\n{}", i, style.name(), size, src);
            }
            let (line, spans, _p) = run_impl(&src);
            if dump && line != expected {
                println!("!!! MISMATCH\n expected {}\n impl     {}", expected, line);
            }
            if is_exh {
                n_exh_cases += 1;
                if line != expected {
                    n_exh_mismatch += 1;
                }
            }
            if line != expected {
                rt_mismatch += 1;
                if shrink_total > 0 {
                    let (min, (msrc, mexp, mobs)) = shrink(&prog, style, &ops, (src.clone(), expected.clone(), line.clone()), &mut shrink_total);
                    let key = format!("roundtrip:{}:{}", style.name(), ast::shape(&min));
                    writeln!(
                        f_fail,
                        "{}",
                        serde_json::json!({"key": key, "style": style.name(), "source": msrc, "expected": mexp, "observed": mobs,
                                           "original_source": src, "case": n_rt})
                    )
                    .unwrap();
                } else {
                    n_unshrunk += 1;
                }
            }
            writeln!(f_exp, "{}", expected).unwrap();
            writeln!(f_impl, "{}", line).unwrap();
            writeln!(f_cases, "{}\t{}\t{}", style.name(), construct, serde_json::to_string(&src).unwrap()).unwrap();
            n_rt += 1;
            hist.add(&format!("style:{}", style.name()));
            if prog.size() >= 3 && distinct.insert(fnv(src.as_bytes())) {
                n_rt_nontrivial += 1;
            }
            let parsed_ok = spans.is_some();
            if is_exh && i >= n_full_export {
                continue;
            }
            if let Some(sp) = spans {
                writeln!(f_span, "S {};{}", real::hex(src.as_bytes()), sp.trim_end()).unwrap();
                writeln!(f_spanc, "gen\t{}\t{}", style.name(), serde_json::to_string(&src).unwrap()).unwrap();
                n_span += 1;
                n_span_nodes += sp.matches('(').count() as u64;
                n_span_leaves += sp.matches(" i:").count() as u64 + sp.matches(" n:").count() as u64;
            }
            let (l, clean) = lay_line(&src, parsed_ok);
            n_virtual += l.split(';').nth(2).map_or(0, |t| t.split(' ').step_by(3).filter(|k| matches!(*k, "1" | "2" | "3")).count() as u64);
            writeln!(f_lay, "{}", l).unwrap();
            writeln!(f_layc, "gen\t{}\t{}", style.name(), serde_json::to_string(&src).unwrap()).unwrap();
            n_lay += 1;
            if let Some((m, e)) = real::model_lines(&src) {
                writeln!(f_laym, "{}", m).unwrap();
                writeln!(f_layme, "{}", e).unwrap();
                writeln!(f_laymc, "gen\t{}\t{}", style.name(), serde_json::to_string(&src).unwrap()).unwrap();
                n_laym += 1;
            }
            if clean {
                n_lay_clean += 1;
            }
        }
    }

    // ---- every .glu file of the repository (and corpus/C08) ----
    let repo = std::env::var("GLUON_REPO").unwrap_or_else(|_| "/repo".into());
    let mut files = glu_files(&repo);
    files.extend(glu_files(corpus_dir));
    let mut n_files = 0u64;
    let mut n_files_parsed = 0u64;
    for f in &files {
        let src = match std::fs::read_to_string(f) {
            Ok(s) => s,
            Err(_) => continue,
        };
        n_files += 1;
        let name = f.display().to_string();
        // parse only (no re-association: the operators of library files are declared in other
        // modules) — spans of the tree the parser itself produced
        let r = std::panic::catch_unwind(|| real::parse(&src, false));
        let mut parsed_ok = false;
        match r {
            Ok(p) if p.errors.is_empty() => {
                parsed_ok = true;
                n_files_parsed += 1;
                let root = p.root.as_ref().unwrap();
                let mut o = real::SpanOut::new(1);
                real::span_expr(root.expr(), &mut o);
                writeln!(f_span, "S {};{}", real::hex(src.as_bytes()), o.s.trim_end()).unwrap();
                writeln!(f_spanc, "file\t{}", name).unwrap();
                n_span += 1;
                n_span_nodes += o.nodes as u64;
                n_span_leaves += o.leaves as u64;
                hist.add("file:parsed");
            }
            Ok(_) => hist.add("file:parse-error"),
            Err(_) => hist.add("file:panic"),
        }
        let r = std::panic::catch_unwind(|| lay_line(&src, parsed_ok));
        if let Ok((l, clean)) = r {
            writeln!(f_lay, "{}", l).unwrap();
            writeln!(f_layc, "file\t{}", name).unwrap();
            n_lay += 1;
            if let Ok(Some((m, e))) = std::panic::catch_unwind(|| real::model_lines(&src)) {
                writeln!(f_laym, "{}", m).unwrap();
                writeln!(f_layme, "{}", e).unwrap();
                writeln!(f_laymc, "file\t{}", name).unwrap();
                n_laym += 1;
            }
            if clean {
                n_lay_clean += 1;
            }
        } else {
            hist.add("file:token-panic");
        }
    }

    for f in [&mut f_laym, &mut f_layme, &mut f_laymc, &mut f_exp, &mut f_impl, &mut f_cases, &mut f_fail, &mut f_span, &mut f_spanc, &mut f_lay, &mut f_layc] {
        f.flush().unwrap();
    }
    if dump {
        println!("round trip: {} cases, {} mismatches", n_rt, rt_mismatch);
    }
    gvh::out::write_json(
        &args.out.join("stats.json"),
        &serde_json::json!({
            "evaluations": n_rt,
            "distinct_nontrivial": n_rt_nontrivial,
            "rule": "round trip: one case per (generated program, style); non-trivial = AST of at least 3 nodes, distinct by source text",
            "programs": n_programs,
            "exhaustive_programs": n_exhaustive,
            "exhaustive_cases": n_exh_cases,
            "exhaustive_mismatch": n_exh_mismatch,
            "exhaustive_bound": format!("every AST with at most {} nodes{} over the alphabet: {} atoms (x, y, 1), [], (), {{}}, {{ a }}; operators {} of (+++ infixl 5, *** infixr 5, <<< infixl 7); patterns x, A y; constructs application (1-2 args), lambda, if, match (1-2 alternatives), infix, projection, array (0-2), tuple (0, 2), record (field, field + base), let (value / function), rec let, type, sequence (2-3 statements), do; each in all four styles (one printer seed per style)", exh_size,
                if exh_deep { format!(" (and every AST with exactly {} nodes over 2 atoms and 2 operators, round trip only)", exh_size + 1) } else { String::new() }, exh_atoms, exh_ops),
            "corpus_cases": n_corpus,
            "max_size": max_size,
            "rt_mismatch": rt_mismatch,
            "rt_mismatch_not_minimised": n_unshrunk,
            "span_trees": n_span,
            "span_nodes": n_span_nodes,
            "span_leaves_checked": n_span_leaves,
            "layout_streams": n_lay,
            "layout_model_streams": n_laym,
            "layout_streams_clean": n_lay_clean,
            "layout_virtual_tokens_generated": n_virtual,
            "glu_files": n_files,
            "glu_files_parsed": n_files_parsed,
            "hist": hist.to_json(),
        }),
    );
}
